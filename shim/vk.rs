// vk: the one interface every harness uses for nondeterminism.
//
//  * under `cfg(kani)`      -> kani::any / kani::assume / kani::cover
//  * under `cfg(verif_replay)` -> values recorded from a solver counterexample
//    (file named by $VERIF_REPLAY_FILE, JSON {"values": [[bytes], ...]}) are popped in
//    the same order the harness asked for them.
//
// Only primitive types go through `any`, one nondet object per call, so that Kani's
// concrete-playback byte vectors map 1:1 onto calls.
#![allow(dead_code, unused_macros, unused_imports)]

pub trait VkPrim: Sized + Copy {
  const SIZE: usize;
  fn from_le(b: &[u8]) -> Self;
  #[cfg(kani)]
  fn sym() -> Self;
}

macro_rules! prim {
  ($($t:ty),*) => {$(
    impl VkPrim for $t {
      const SIZE: usize = core::mem::size_of::<$t>();
      fn from_le(b: &[u8]) -> Self {
        let mut a = [0u8; core::mem::size_of::<$t>()];
        let n = if b.len() < a.len() { b.len() } else { a.len() };
        a[..n].copy_from_slice(&b[..n]);
        <$t>::from_le_bytes(a)
      }
      #[cfg(kani)]
      fn sym() -> Self { kani::any() }
    }
  )*};
}
prim!(u8, u16, u32, u64, usize, i8, i16, i32, i64, isize);

impl VkPrim for bool {
  const SIZE: usize = 1;
  fn from_le(b: &[u8]) -> Self {
    !b.is_empty() && b[0] != 0
  }
  #[cfg(kani)]
  fn sym() -> Self {
    kani::any()
  }
}

// ---------------------------------------------------------------- kani side
#[cfg(kani)]
#[inline(always)]
pub fn any<T: VkPrim>() -> T {
  T::sym()
}
#[cfg(kani)]
#[inline(always)]
pub fn assume(c: bool) {
  kani::assume(c)
}
#[cfg(kani)]
#[inline(always)]
pub fn begin(_name: &str) {}
#[cfg(kani)]
#[inline(always)]
pub fn end() {}

// ---------------------------------------------------------------- replay side
#[cfg(not(kani))]
pub mod replay_state {
  use std::cell::RefCell;
  thread_local! {
    pub static VALUES: RefCell<Vec<Vec<u8>>> = RefCell::new(Vec::new());
    pub static POS: RefCell<usize> = RefCell::new(0);
  }

  // Minimal parser for {"values": [[1,2],[3]], ...}: takes the first "values" array.
  pub fn load(path: &str) -> Vec<Vec<u8>> {
    let s = std::fs::read_to_string(path).expect("VERIF_REPLAY_FILE unreadable");
    let i = s.find("\"values\"").expect("no values key");
    let rest = &s[i..];
    let start = rest.find('[').unwrap();
    let mut depth = 0i32;
    let mut out: Vec<Vec<u8>> = Vec::new();
    let mut cur: Option<Vec<u8>> = None;
    let mut num = String::new();
    for ch in rest[start..].chars() {
      match ch {
        '[' => {
          depth += 1;
          if depth == 2 {
            cur = Some(Vec::new());
          }
        }
        ']' => {
          if depth == 2 {
            if !num.is_empty() {
              cur.as_mut().unwrap().push(num.parse::<u8>().unwrap());
              num.clear();
            }
            out.push(cur.take().unwrap());
          }
          depth -= 1;
          if depth == 0 {
            break;
          }
        }
        ',' => {
          if depth == 2 && !num.is_empty() {
            cur.as_mut().unwrap().push(num.parse::<u8>().unwrap());
            num.clear();
          }
        }
        c if c.is_ascii_digit() => num.push(c),
        _ => {}
      }
    }
    out
  }
}

#[cfg(not(kani))]
pub fn begin(name: &str) {
  let path = std::env::var("VERIF_REPLAY_FILE").expect("VERIF_REPLAY_FILE not set");
  let vals = replay_state::load(&path);
  eprintln!("VK-REPLAY harness={} values={}", name, vals.len());
  replay_state::VALUES.with(|v| *v.borrow_mut() = vals);
  replay_state::POS.with(|p| *p.borrow_mut() = 0);
}

#[cfg(not(kani))]
pub fn end() {
  eprintln!("VK-REPLAY-END reached end of harness without failure");
}

#[cfg(not(kani))]
pub fn any<T: VkPrim>() -> T {
  let v = replay_state::VALUES.with(|v| {
    let p = replay_state::POS.with(|p| {
      let mut p = p.borrow_mut();
      let r = *p;
      *p += 1;
      r
    });
    v.borrow().get(p).cloned()
  });
  match v {
    Some(bytes) => T::from_le(&bytes),
    // The solver only reports the values on the path to the failure; past that point
    // anything goes, so feed zeros.
    None => T::from_le(&[]),
  }
}

#[cfg(not(kani))]
pub fn assume(c: bool) {
  if !c {
    // An assumption that does not hold natively means the recorded values do not
    // describe a run of this harness: the replay is inconclusive, not a failure.
    eprintln!("VK-ASSUME-FAILED");
    std::process::exit(77);
  }
}

// cover!: SATISFIED is required for every cover in a passing run (vacuity guard).
#[cfg(kani)]
macro_rules! vk_cover {
  ($c:expr, $m:literal) => {
    kani::cover!($c, $m)
  };
  ($c:expr) => {
    kani::cover!($c)
  };
  () => {
    kani::cover!()
  };
}
#[cfg(not(kani))]
macro_rules! vk_cover {
  ($c:expr, $m:literal) => {
    let _ = $c;
  };
  ($c:expr) => {
    let _ = $c;
  };
  () => {};
}
pub(crate) use vk_cover;

/// any value in lo..=hi
pub fn range_i64(lo: i64, hi: i64) -> i64 {
  let x: i64 = any();
  assume(x >= lo && x <= hi);
  x
}
pub fn range_u8(lo: u8, hi: u8) -> u8 {
  let x: u8 = any();
  assume(x >= lo && x <= hi);
  x
}
pub fn range_u32(lo: u32, hi: u32) -> u32 {
  let x: u32 = any();
  assume(x >= lo && x <= hi);
  x
}
pub fn range_usize(lo: usize, hi: usize) -> usize {
  let x: usize = any();
  assume(x >= lo && x <= hi);
  x
}
