// container shim, see DESIGN.md 2.3
