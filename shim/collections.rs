// Solver-friendly stand-ins for std::collections::{BTreeMap, BTreeSet, HashMap}.
// Compiled only under cfg(kani), only in the scratch copy (see DESIGN.md 2.3).
//
// Representation: `len` + one fixed array of CAP slots, entries 0..len sorted by key,
// unique keys, slots >= len are None.  EVERY array access uses a loop counter that is
// concrete after unrolling (no symbolic indexing) — that is what makes CBMC cope.
// Loops are `while` loops over plain counters (cheaper in unoptimised MIR than Range
// iterators).
//
// `insert` beyond CAP is cut with kani::assume(false): histories needing more than CAP
// live entries per container are outside every claim (stated in evidence).
#![allow(dead_code, unused_variables, clippy::all)]

use core::{
  borrow::Borrow,
  fmt,
  ops::{Bound, RangeBounds},
};

pub const CAP: usize = crate::verif_cfg::SHIM_CAP;

pub struct BTreeMap<K, V> {
  len: usize,
  slots: [Option<(K, V)>; CAP],
}

pub type HashMap<K, V> = BTreeMap<K, V>;

fn none_array<T>() -> [Option<T>; CAP] {
  // inline const instead of array::from_fn: 8x cheaper to execute symbolically for big T
  [const { None }; CAP]
}

impl<K, V> BTreeMap<K, V> {
  pub fn new() -> Self {
    BTreeMap {
      len: 0,
      slots: none_array(),
    }
  }
  pub fn with_capacity(_n: usize) -> Self {
    Self::new()
  }
  pub fn len(&self) -> usize {
    self.len
  }
  pub fn is_empty(&self) -> bool {
    self.len == 0
  }
  pub fn clear(&mut self) {
    let mut j = 0;
    while j < CAP {
      self.slots[j] = None;
      j += 1;
    }
    self.len = 0;
  }

  /// Harness-only: build a map from explicit slot contents (for symbolic pre-states).
  /// The caller must `assume(verif_is_valid())`.
  pub fn verif_from_parts(len: usize, keys: [Option<K>; CAP], vals: [Option<V>; CAP]) -> Self {
    let mut slots: [Option<(K, V)>; CAP] = none_array();
    let mut j = 0;
    for (k, v) in keys.into_iter().zip(vals.into_iter()) {
      if let (Some(k), Some(v)) = (k, v) {
        slots[j] = Some((k, v));
      }
      j += 1;
    }
    BTreeMap { len, slots }
  }

  pub fn iter(&self) -> Iter<'_, K, V> {
    Iter {
      m: self,
      front: 0,
      back: self.len,
      steps: 0,
    }
  }
  pub fn iter_mut(&mut self) -> IterMut<'_, K, V> {
    let n = self.len;
    IterMut {
      slots: self.slots.iter_mut(),
      remaining: n,
    }
  }
  pub fn keys(&self) -> Keys<'_, K, V> {
    Keys(self.iter())
  }
  pub fn values(&self) -> Values<'_, K, V> {
    Values(self.iter())
  }
  pub fn values_mut(&mut self) -> ValuesMut<'_, K, V> {
    ValuesMut(self.iter_mut())
  }
  pub fn into_values(self) -> impl Iterator<Item = V> {
    self.into_iter().map(|(_, v)| v)
  }
  pub fn into_keys(self) -> impl Iterator<Item = K> {
    self.into_iter().map(|(k, _)| k)
  }

  pub fn first_key_value(&self) -> Option<(&K, &V)> {
    if self.len == 0 {
      None
    } else {
      self.slots[0].as_ref().map(|(k, v)| (k, v))
    }
  }

  pub fn last_key_value(&self) -> Option<(&K, &V)> {
    let mut res = None;
    let mut j = 0;
    while j < CAP {
      if j + 1 == self.len {
        res = self.slots[j].as_ref().map(|(k, v)| (k, v));
      }
      j += 1;
    }
    res
  }

  pub fn pop_first(&mut self) -> Option<(K, V)> {
    if self.len == 0 {
      return None;
    }
    let out = self.slots[0].take();
    let mut j = 0;
    while j + 1 < CAP {
      if j + 1 < self.len {
        self.slots[j] = self.slots[j + 1].take();
      }
      j += 1;
    }
    self.len -= 1;
    out
  }

  pub fn pop_last(&mut self) -> Option<(K, V)> {
    if self.len == 0 {
      return None;
    }
    let mut out = None;
    let mut j = 0;
    while j < CAP {
      if j + 1 == self.len {
        out = self.slots[j].take();
      }
      j += 1;
    }
    self.len -= 1;
    out
  }
}

impl<K: Ord, V> BTreeMap<K, V> {
  pub fn verif_is_valid(&self) -> bool {
    if self.len > CAP {
      return false;
    }
    let mut ok = true;
    let mut j = 0;
    while j < CAP {
      if j < self.len {
        ok = ok && self.slots[j].is_some();
        if j + 1 < CAP && j + 1 < self.len {
          ok = ok
            && match (&self.slots[j], &self.slots[j + 1]) {
              (Some((a, _)), Some((b, _))) => a < b,
              _ => false,
            };
        }
      } else {
        ok = ok && self.slots[j].is_none();
      }
      j += 1;
    }
    ok
  }

  pub fn insert(&mut self, k: K, v: V) -> Option<V> {
    // one scan: is the key present, and how many keys are smaller
    let mut pos = 0usize;
    let mut present = false;
    let mut j = 0;
    while j < CAP {
      if j < self.len {
        if let Some((a, _)) = &self.slots[j] {
          if *a < k {
            pos += 1;
          } else if *a == k {
            present = true;
          }
        }
      }
      j += 1;
    }
    let mut item = Some((k, v));
    if present {
      // replace the value at slot `pos`
      let mut old = None;
      let mut j = 0;
      while j < CAP {
        if j == pos {
          if let Some((_, nv)) = item.take() {
            if let Some((_, ov)) = &mut self.slots[j] {
              old = Some(core::mem::replace(ov, nv));
            }
          }
        }
        j += 1;
      }
      return old;
    }
    if self.len >= CAP {
      kani::assume(false); // outside the bound: more than CAP live entries
    }
    // one reverse scan: shift right everything at index >= pos, then place
    let mut j = CAP - 1;
    loop {
      if j > pos && j <= self.len {
        self.slots[j] = self.slots[j - 1].take();
      } else if j == pos {
        self.slots[j] = item.take();
      }
      if j == 0 {
        break;
      }
      j -= 1;
    }
    self.len += 1;
    None
  }

  pub fn get<Q: ?Sized + Ord>(&self, k: &Q) -> Option<&V>
  where
    K: Borrow<Q>,
  {
    let mut res: Option<&V> = None;
    let mut j = 0;
    while j < CAP {
      if j < self.len {
        if let Some((a, v)) = &self.slots[j] {
          if a.borrow() == k {
            res = Some(v);
          }
        }
      }
      j += 1;
    }
    res
  }

  pub fn get_key_value<Q: ?Sized + Ord>(&self, k: &Q) -> Option<(&K, &V)>
  where
    K: Borrow<Q>,
  {
    let mut res: Option<(&K, &V)> = None;
    let mut j = 0;
    while j < CAP {
      if j < self.len {
        if let Some((a, v)) = &self.slots[j] {
          if a.borrow() == k {
            res = Some((a, v));
          }
        }
      }
      j += 1;
    }
    res
  }

  pub fn get_mut<Q: ?Sized + Ord>(&mut self, k: &Q) -> Option<&mut V>
  where
    K: Borrow<Q>,
  {
    let n = self.len;
    let mut res: Option<&mut V> = None;
    let mut j = 0;
    for slot in self.slots.iter_mut() {
      if j < n {
        if let Some((a, v)) = slot {
          if (*a).borrow() == k {
            res = Some(v);
          }
        }
      }
      j += 1;
    }
    res
  }

  pub fn contains_key<Q: ?Sized + Ord>(&self, k: &Q) -> bool
  where
    K: Borrow<Q>,
  {
    let mut found = false;
    let mut j = 0;
    while j < CAP {
      if j < self.len {
        if let Some((a, _)) = &self.slots[j] {
          if a.borrow() == k {
            found = true;
          }
        }
      }
      j += 1;
    }
    found
  }

  pub fn remove_entry<Q: ?Sized + Ord>(&mut self, k: &Q) -> Option<(K, V)>
  where
    K: Borrow<Q>,
  {
    let mut out: Option<(K, V)> = None;
    let mut removed = false;
    let mut j = 0;
    while j < CAP {
      if j < self.len {
        if !removed {
          let same = match &self.slots[j] {
            Some((a, _)) => a.borrow() == k,
            None => false,
          };
          if same {
            out = self.slots[j].take();
            removed = true;
          }
        }
        if removed && j + 1 < CAP {
          self.slots[j] = self.slots[j + 1].take(); // shift left
        }
      }
      j += 1;
    }
    if removed {
      self.len -= 1;
    }
    out
  }

  pub fn remove<Q: ?Sized + Ord>(&mut self, k: &Q) -> Option<V>
  where
    K: Borrow<Q>,
  {
    self.remove_entry(k).map(|(_, v)| v)
  }

  /// Positions [front, back) of the entries inside the range; panics like std on an
  /// inverted range.
  fn range_positions<Q: ?Sized + Ord, R: RangeBounds<Q>>(&self, r: &R) -> (usize, usize)
  where
    K: Borrow<Q>,
  {
    match (r.start_bound(), r.end_bound()) {
      (Bound::Excluded(s), Bound::Excluded(e)) if s == e => {
        panic!("range start and end are equal and excluded in BTreeMap")
      }
      (Bound::Included(s) | Bound::Excluded(s), Bound::Included(e) | Bound::Excluded(e))
        if s > e =>
      {
        panic!("range start is greater than range end in BTreeMap")
      }
      _ => {}
    }
    let mut below = 0usize; // keys before the range start
    let mut not_above = 0usize; // keys not after the range end
    let mut j = 0;
    while j < CAP {
      if j < self.len {
        if let Some((k, _)) = &self.slots[j] {
          let kq: &Q = k.borrow();
          let before_start = match r.start_bound() {
            Bound::Included(lo) => kq < lo,
            Bound::Excluded(lo) => kq <= lo,
            Bound::Unbounded => false,
          };
          let within_end = match r.end_bound() {
            Bound::Included(hi) => kq <= hi,
            Bound::Excluded(hi) => kq < hi,
            Bound::Unbounded => true,
          };
          if before_start {
            below += 1;
          }
          if within_end {
            not_above += 1;
          }
        }
      }
      j += 1;
    }
    let back = if not_above < below { below } else { not_above };
    (below, back)
  }

  pub fn range<Q: ?Sized + Ord, R: RangeBounds<Q>>(&self, r: R) -> Range<'_, K, V>
  where
    K: Borrow<Q>,
  {
    let (front, back) = self.range_positions(&r);
    Range(Iter {
      m: self,
      front,
      back,
      steps: 0,
    })
  }

  pub fn range_mut<Q: ?Sized + Ord, R: RangeBounds<Q>>(
    &mut self,
    r: R,
  ) -> impl Iterator<Item = (&K, &mut V)> + '_
  where
    K: Borrow<Q>,
  {
    let (front, back) = self.range_positions(&r);
    self
      .slots
      .iter_mut()
      .enumerate()
      .filter_map(move |(j, s)| match s {
        Some((k, v)) if j >= front && j < back => Some((&*k, v)),
        _ => None,
      })
  }

  /// Everything >= k moves to the returned map.
  pub fn split_off<Q: ?Sized + Ord>(&mut self, k: &Q) -> Self
  where
    K: Borrow<Q>,
  {
    let mut out = Self::new();
    let mut keep = 0usize; // number of keys < k
    let mut j = 0;
    while j < CAP {
      if j < self.len {
        if let Some((a, _)) = &self.slots[j] {
          if a.borrow() < k {
            keep += 1;
          }
        }
      }
      j += 1;
    }
    // move entry j >= keep to out[j - keep]; the destination index is symbolic, so it
    // is a double scan with concrete indices (d <= j)
    let mut j = 0;
    while j < CAP {
      if j >= keep && j < self.len {
        let mut item = self.slots[j].take();
        let mut d = 0;
        while d <= j {
          if d + keep == j {
            out.slots[d] = item.take();
          }
          d += 1;
        }
      }
      j += 1;
    }
    out.len = self.len - keep;
    self.len = keep;
    out
  }

  pub fn append(&mut self, other: &mut Self) {
    let mut j = 0;
    while j < CAP {
      if j < other.len {
        if let Some((k, v)) = other.slots[j].take() {
          self.insert(k, v);
        }
      }
      j += 1;
    }
    other.len = 0;
  }

  pub fn retain<F: FnMut(&K, &mut V) -> bool>(&mut self, mut f: F) {
    let mut w = 0usize; // symbolic write index -> compact via double scan
    let n = self.len;
    let mut new: [Option<(K, V)>; CAP] = none_array();
    let mut j = 0;
    while j < CAP {
      if j < n {
        let keep = match &mut self.slots[j] {
          Some((k, v)) => f(k, v),
          _ => false,
        };
        if keep {
          let mut item = self.slots[j].take();
          let mut d = 0;
          while d <= j {
            if d == w {
              new[d] = item.take();
            }
            d += 1;
          }
          w += 1;
        }
      }
      j += 1;
    }
    self.slots = new;
    self.len = w;
  }

  pub fn entry(&mut self, k: K) -> Entry<'_, K, V> {
    if self.contains_key(&k) {
      Entry::Occupied(OccupiedEntry { m: self, k })
    } else {
      Entry::Vacant(VacantEntry { m: self, k })
    }
  }
}

// ------------------------------------------------------------------ Entry API
pub mod btree_map {
  pub use super::{Entry, OccupiedEntry, VacantEntry};
}
pub mod hash_map {
  pub use super::{Entry, OccupiedEntry, VacantEntry};
}

pub enum Entry<'a, K, V> {
  Occupied(OccupiedEntry<'a, K, V>),
  Vacant(VacantEntry<'a, K, V>),
}
pub struct OccupiedEntry<'a, K, V> {
  m: &'a mut BTreeMap<K, V>,
  k: K,
}
pub struct VacantEntry<'a, K, V> {
  m: &'a mut BTreeMap<K, V>,
  k: K,
}

impl<'a, K: Ord + Clone, V> Entry<'a, K, V> {
  pub fn or_insert(self, default: V) -> &'a mut V {
    match self {
      Entry::Occupied(e) => e.into_mut(),
      Entry::Vacant(e) => e.insert(default),
    }
  }
  pub fn or_insert_with<F: FnOnce() -> V>(self, f: F) -> &'a mut V {
    match self {
      Entry::Occupied(e) => e.into_mut(),
      Entry::Vacant(e) => e.insert(f()),
    }
  }
  pub fn or_default(self) -> &'a mut V
  where
    V: Default,
  {
    self.or_insert_with(V::default)
  }
  pub fn and_modify<F: FnOnce(&mut V)>(self, f: F) -> Self {
    match self {
      Entry::Occupied(mut e) => {
        f(e.get_mut());
        Entry::Occupied(e)
      }
      Entry::Vacant(e) => Entry::Vacant(e),
    }
  }
  pub fn key(&self) -> &K {
    match self {
      Entry::Occupied(e) => &e.k,
      Entry::Vacant(e) => &e.k,
    }
  }
}

impl<'a, K: Ord + Clone, V> OccupiedEntry<'a, K, V> {
  pub fn get(&self) -> &V {
    self.m.get(&self.k).unwrap()
  }
  pub fn get_mut(&mut self) -> &mut V {
    self.m.get_mut(&self.k).unwrap()
  }
  pub fn into_mut(self) -> &'a mut V {
    self.m.get_mut(&self.k).unwrap()
  }
  pub fn insert(&mut self, v: V) -> V {
    self.m.insert(self.k.clone(), v).unwrap()
  }
  pub fn remove(self) -> V {
    self.m.remove(&self.k).unwrap()
  }
  pub fn key(&self) -> &K {
    &self.k
  }
}

impl<'a, K: Ord + Clone, V> VacantEntry<'a, K, V> {
  pub fn insert(self, v: V) -> &'a mut V {
    let k2 = self.k.clone();
    self.m.insert(self.k, v);
    self.m.get_mut(&k2).unwrap()
  }
  pub fn key(&self) -> &K {
    &self.k
  }
}

// ------------------------------------------------------------------ iterators
pub struct Iter<'a, K, V> {
  m: &'a BTreeMap<K, V>,
  front: usize,
  back: usize,
  // number of next()/next_back() calls so far: always a concrete value during symbolic
  // execution, so a `for` loop over a map of symbolic length stops unrolling after CAP
  // iterations instead of running into the harness's unwind bound.
  steps: usize,
}

impl<'a, K, V> Clone for Iter<'a, K, V> {
  fn clone(&self) -> Self {
    Iter {
      m: self.m,
      front: self.front,
      back: self.back,
      steps: self.steps,
    }
  }
}

impl<'a, K, V> Iterator for Iter<'a, K, V> {
  type Item = (&'a K, &'a V);
  fn next(&mut self) -> Option<Self::Item> {
    if self.steps >= CAP {
      return None;
    }
    self.steps += 1;
    let mut res = None;
    if self.front < self.back {
      let mut j = 0;
      while j < CAP {
        if j == self.front {
          if let Some((k, v)) = &self.m.slots[j] {
            res = Some((k, v));
          }
        }
        j += 1;
      }
      self.front += 1;
    }
    res
  }
  fn size_hint(&self) -> (usize, Option<usize>) {
    let n = self.back - self.front;
    (n, Some(n))
  }
}
impl<'a, K, V> DoubleEndedIterator for Iter<'a, K, V> {
  fn next_back(&mut self) -> Option<Self::Item> {
    if self.steps >= CAP {
      return None;
    }
    self.steps += 1;
    let mut res = None;
    if self.front < self.back {
      self.back -= 1;
      let mut j = 0;
      while j < CAP {
        if j == self.back {
          if let Some((k, v)) = &self.m.slots[j] {
            res = Some((k, v));
          }
        }
        j += 1;
      }
    }
    res
  }
}
impl<'a, K, V> ExactSizeIterator for Iter<'a, K, V> {}

pub struct Keys<'a, K, V>(Iter<'a, K, V>);
impl<'a, K, V> Iterator for Keys<'a, K, V> {
  type Item = &'a K;
  fn next(&mut self) -> Option<&'a K> {
    self.0.next().map(|(k, _)| k)
  }
}
impl<'a, K, V> DoubleEndedIterator for Keys<'a, K, V> {
  fn next_back(&mut self) -> Option<&'a K> {
    self.0.next_back().map(|(k, _)| k)
  }
}
impl<'a, K, V> Clone for Keys<'a, K, V> {
  fn clone(&self) -> Self {
    Keys(self.0.clone())
  }
}
pub struct Values<'a, K, V>(Iter<'a, K, V>);
impl<'a, K, V> Iterator for Values<'a, K, V> {
  type Item = &'a V;
  fn next(&mut self) -> Option<&'a V> {
    self.0.next().map(|(_, v)| v)
  }
}
impl<'a, K, V> DoubleEndedIterator for Values<'a, K, V> {
  fn next_back(&mut self) -> Option<&'a V> {
    self.0.next_back().map(|(_, v)| v)
  }
}

pub struct IterMut<'a, K, V> {
  slots: core::slice::IterMut<'a, Option<(K, V)>>,
  remaining: usize,
}
impl<'a, K, V> Iterator for IterMut<'a, K, V> {
  type Item = (&'a K, &'a mut V);
  fn next(&mut self) -> Option<Self::Item> {
    // the slice iterator has a concrete length (CAP), so this loop-free body keeps
    // unrolling bounded by CAP
    match self.slots.next() {
      Some(Some((k, v))) if self.remaining > 0 => {
        self.remaining -= 1;
        Some((&*k, v))
      }
      _ => None,
    }
  }
}
pub struct ValuesMut<'a, K, V>(IterMut<'a, K, V>);
impl<'a, K, V> Iterator for ValuesMut<'a, K, V> {
  type Item = &'a mut V;
  fn next(&mut self) -> Option<&'a mut V> {
    self.0.next().map(|(_, v)| v)
  }
}

pub struct Range<'a, K, V>(Iter<'a, K, V>);
impl<'a, K, V> Iterator for Range<'a, K, V> {
  type Item = (&'a K, &'a V);
  fn next(&mut self) -> Option<Self::Item> {
    self.0.next()
  }
}
impl<'a, K, V> DoubleEndedIterator for Range<'a, K, V> {
  fn next_back(&mut self) -> Option<Self::Item> {
    self.0.next_back()
  }
}
impl<'a, K, V> fmt::Debug for Range<'a, K, V> {
  fn fmt(&self, f: &mut fmt::Formatter<'_>) -> fmt::Result {
    f.write_str("Range{..}")
  }
}
impl<'a, K, V> fmt::Debug for Iter<'a, K, V> {
  fn fmt(&self, f: &mut fmt::Formatter<'_>) -> fmt::Result {
    f.write_str("Iter{..}")
  }
}
impl<'a, K, V> fmt::Debug for Keys<'a, K, V> {
  fn fmt(&self, f: &mut fmt::Formatter<'_>) -> fmt::Result {
    f.write_str("Keys{..}")
  }
}
impl<'a, K, V> fmt::Debug for Values<'a, K, V> {
  fn fmt(&self, f: &mut fmt::Formatter<'_>) -> fmt::Result {
    f.write_str("Values{..}")
  }
}

pub struct IntoIter<K, V> {
  slots: [Option<(K, V)>; CAP],
  front: usize,
  back: usize,
  steps: usize,
}
impl<K, V> Iterator for IntoIter<K, V> {
  type Item = (K, V);
  fn next(&mut self) -> Option<(K, V)> {
    if self.steps >= CAP {
      return None;
    }
    self.steps += 1;
    let mut res = None;
    if self.front < self.back {
      let mut j = 0;
      while j < CAP {
        if j == self.front {
          res = self.slots[j].take();
        }
        j += 1;
      }
      self.front += 1;
    }
    res
  }
}
impl<K, V> DoubleEndedIterator for IntoIter<K, V> {
  fn next_back(&mut self) -> Option<(K, V)> {
    if self.steps >= CAP {
      return None;
    }
    self.steps += 1;
    let mut res = None;
    if self.front < self.back {
      self.back -= 1;
      let mut j = 0;
      while j < CAP {
        if j == self.back {
          res = self.slots[j].take();
        }
        j += 1;
      }
    }
    res
  }
}
impl<K, V> IntoIterator for BTreeMap<K, V> {
  type Item = (K, V);
  type IntoIter = IntoIter<K, V>;
  fn into_iter(self) -> IntoIter<K, V> {
    IntoIter {
      steps: 0,
      front: 0,
      back: self.len,
      slots: self.slots,
    }
  }
}
impl<'a, K, V> IntoIterator for &'a BTreeMap<K, V> {
  type Item = (&'a K, &'a V);
  type IntoIter = Iter<'a, K, V>;
  fn into_iter(self) -> Iter<'a, K, V> {
    self.iter()
  }
}
impl<'a, K, V> IntoIterator for &'a mut BTreeMap<K, V> {
  type Item = (&'a K, &'a mut V);
  type IntoIter = IterMut<'a, K, V>;
  fn into_iter(self) -> IterMut<'a, K, V> {
    self.iter_mut()
  }
}

impl<K: Ord, V> FromIterator<(K, V)> for BTreeMap<K, V> {
  fn from_iter<I: IntoIterator<Item = (K, V)>>(it: I) -> Self {
    let mut m = Self::new();
    for (k, v) in it {
      m.insert(k, v);
    }
    m
  }
}
impl<K: Ord, V> Extend<(K, V)> for BTreeMap<K, V> {
  fn extend<I: IntoIterator<Item = (K, V)>>(&mut self, it: I) {
    for (k, v) in it {
      self.insert(k, v);
    }
  }
}
impl<K: Ord, V, const N: usize> From<[(K, V); N]> for BTreeMap<K, V> {
  fn from(a: [(K, V); N]) -> Self {
    a.into_iter().collect()
  }
}
impl<K, V> Default for BTreeMap<K, V> {
  fn default() -> Self {
    Self::new()
  }
}
impl<K: Clone, V: Clone> Clone for BTreeMap<K, V> {
  fn clone(&self) -> Self {
    let mut m = Self::new();
    let mut j = 0;
    while j < CAP {
      m.slots[j] = self.slots[j].clone();
      j += 1;
    }
    m.len = self.len;
    m
  }
}
impl<K: PartialEq, V: PartialEq> PartialEq for BTreeMap<K, V> {
  fn eq(&self, o: &Self) -> bool {
    if self.len != o.len {
      return false;
    }
    let mut eq = true;
    let mut j = 0;
    while j < CAP {
      if j < self.len {
        eq = eq && self.slots[j] == o.slots[j];
      }
      j += 1;
    }
    eq
  }
}
impl<K: Eq, V: Eq> Eq for BTreeMap<K, V> {}
impl<K, V> fmt::Debug for BTreeMap<K, V> {
  fn fmt(&self, f: &mut fmt::Formatter<'_>) -> fmt::Result {
    f.write_str("BTreeMap{..}")
  }
}
impl<K: Ord + Borrow<Q>, Q: ?Sized + Ord, V> core::ops::Index<&Q> for BTreeMap<K, V> {
  type Output = V;
  fn index(&self, k: &Q) -> &V {
    self.get(k).expect("no entry found for key")
  }
}

// ===================================================================== BTreeSet
pub struct BTreeSet<K> {
  m: BTreeMap<K, ()>,
}
pub type HashSet<K> = BTreeSet<K>;

impl<K> BTreeSet<K> {
  pub fn new() -> Self {
    BTreeSet { m: BTreeMap::new() }
  }
  pub fn len(&self) -> usize {
    self.m.len()
  }
  pub fn is_empty(&self) -> bool {
    self.m.is_empty()
  }
  pub fn clear(&mut self) {
    self.m.clear()
  }
  pub fn iter(&self) -> Keys<'_, K, ()> {
    self.m.keys()
  }
  pub fn first(&self) -> Option<&K> {
    self.m.first_key_value().map(|(k, _)| k)
  }
  pub fn last(&self) -> Option<&K> {
    self.m.last_key_value().map(|(k, _)| k)
  }
  pub fn pop_first(&mut self) -> Option<K> {
    self.m.pop_first().map(|(k, _)| k)
  }
  pub fn pop_last(&mut self) -> Option<K> {
    self.m.pop_last().map(|(k, _)| k)
  }
  pub fn verif_from_parts(len: usize, keys: [Option<K>; CAP]) -> Self {
    let vals: [Option<()>; CAP] = [Some(()); CAP];
    BTreeSet {
      m: BTreeMap::verif_from_parts(len, keys, vals),
    }
  }
}
impl<K: Ord> BTreeSet<K> {
  pub fn verif_is_valid(&self) -> bool {
    self.m.verif_is_valid()
  }
  pub fn insert(&mut self, k: K) -> bool {
    self.m.insert(k, ()).is_none()
  }
  pub fn contains<Q: ?Sized + Ord>(&self, k: &Q) -> bool
  where
    K: Borrow<Q>,
  {
    self.m.contains_key(k)
  }
  pub fn remove<Q: ?Sized + Ord>(&mut self, k: &Q) -> bool
  where
    K: Borrow<Q>,
  {
    self.m.remove(k).is_some()
  }
  pub fn range<Q: ?Sized + Ord, R: RangeBounds<Q>>(&self, r: R) -> impl DoubleEndedIterator<Item = &K> + '_
  where
    K: Borrow<Q>,
  {
    self.m.range(r).map(|(k, _)| k)
  }
  pub fn split_off<Q: ?Sized + Ord>(&mut self, k: &Q) -> Self
  where
    K: Borrow<Q>,
  {
    BTreeSet {
      m: self.m.split_off(k),
    }
  }
  pub fn append(&mut self, o: &mut Self) {
    self.m.append(&mut o.m)
  }
  pub fn retain<F: FnMut(&K) -> bool>(&mut self, mut f: F) {
    self.m.retain(|k, _| f(k))
  }
  pub fn is_subset(&self, o: &Self) -> bool {
    let mut ok = true;
    for k in self.iter() {
      ok = ok && o.contains(k);
    }
    ok
  }
  pub fn difference<'a>(&'a self, o: &'a Self) -> impl Iterator<Item = &'a K> + 'a {
    self.iter().filter(move |k| !o.contains(*k))
  }
  pub fn intersection<'a>(&'a self, o: &'a Self) -> impl Iterator<Item = &'a K> + 'a {
    self.iter().filter(move |k| o.contains(*k))
  }
}
impl<K> IntoIterator for BTreeSet<K> {
  type Item = K;
  type IntoIter = core::iter::Map<IntoIter<K, ()>, fn((K, ())) -> K>;
  fn into_iter(self) -> Self::IntoIter {
    fn first<K>(p: (K, ())) -> K {
      p.0
    }
    self.m.into_iter().map(first::<K> as fn((K, ())) -> K)
  }
}
impl<'a, K> IntoIterator for &'a BTreeSet<K> {
  type Item = &'a K;
  type IntoIter = Keys<'a, K, ()>;
  fn into_iter(self) -> Keys<'a, K, ()> {
    self.iter()
  }
}
impl<K: Ord> FromIterator<K> for BTreeSet<K> {
  fn from_iter<I: IntoIterator<Item = K>>(it: I) -> Self {
    let mut s = Self::new();
    for k in it {
      s.insert(k);
    }
    s
  }
}
impl<K: Ord> Extend<K> for BTreeSet<K> {
  fn extend<I: IntoIterator<Item = K>>(&mut self, it: I) {
    for k in it {
      self.insert(k);
    }
  }
}
impl<'a, K: Ord + Copy + 'a> Extend<&'a K> for BTreeSet<K> {
  fn extend<I: IntoIterator<Item = &'a K>>(&mut self, it: I) {
    for k in it {
      self.insert(*k);
    }
  }
}
impl<K: Ord, const N: usize> From<[K; N]> for BTreeSet<K> {
  fn from(a: [K; N]) -> Self {
    a.into_iter().collect()
  }
}
impl<K> Default for BTreeSet<K> {
  fn default() -> Self {
    Self::new()
  }
}
impl<K: Clone> Clone for BTreeSet<K> {
  fn clone(&self) -> Self {
    BTreeSet { m: self.m.clone() }
  }
}
impl<K: PartialEq> PartialEq for BTreeSet<K> {
  fn eq(&self, o: &Self) -> bool {
    self.m == o.m
  }
}
impl<K: Eq> Eq for BTreeSet<K> {}
impl<K> fmt::Debug for BTreeSet<K> {
  fn fmt(&self, f: &mut fmt::Formatter<'_>) -> fmt::Result {
    f.write_str("BTreeSet{..}")
  }
}
