// Environment stand-ins and helpers shared by harnesses (DESIGN.md 2.4).
// Compiled under cfg(kani) (solver world) and cfg(verif_replay) (native replay world).
#![allow(dead_code, unused_imports, clippy::all)]

#[cfg(kani)]
pub use crate::verif_shim::{BTreeMap, BTreeSet};
#[cfg(not(kani))]
pub use std::collections::{BTreeMap, BTreeSet};

pub const CAP: usize = crate::verif_cfg::SHIM_CAP;

/// Build a map from explicit slot contents.  Under Kani this sets the shim's arrays
/// directly (symbolic pre-state, caller assumes validity); natively it inserts into the
/// real std BTreeMap.
#[cfg(kani)]
pub fn map_from_parts<K: Ord, V>(len: usize, keys: [Option<K>; CAP], vals: [Option<V>; CAP]) -> BTreeMap<K, V> {
  BTreeMap::verif_from_parts(len, keys, vals)
}
#[cfg(not(kani))]
pub fn map_from_parts<K: Ord, V>(len: usize, keys: [Option<K>; CAP], vals: [Option<V>; CAP]) -> BTreeMap<K, V> {
  let mut m = BTreeMap::new();
  for (j, (k, v)) in keys.into_iter().zip(vals.into_iter()).enumerate() {
    if j < len {
      if let (Some(k), Some(v)) = (k, v) {
        m.insert(k, v);
      }
    }
  }
  m
}

#[cfg(kani)]
pub fn map_is_valid<K: Ord, V>(m: &BTreeMap<K, V>) -> bool {
  m.verif_is_valid()
}
#[cfg(not(kani))]
pub fn map_is_valid<K: Ord, V>(_m: &BTreeMap<K, V>) -> bool {
  true
}

/// kani::stub target for std::fmt::format — formatting is never the subject.
pub fn stub_format(_args: core::fmt::Arguments<'_>) -> String {
  String::new()
}

/// kani::stub target for alloc::vec::from_elem (what `vec![x; n]` expands to).  CBMC copes
/// badly with allocations of symbolic size; this keeps the allocation size concrete
/// (VEC_ELEM_CAP elements) while the LENGTH stays symbolic.  n > VEC_ELEM_CAP is outside
/// the bound (assume(false)), which every harness using it states.
pub const VEC_ELEM_CAP: usize = 9;
#[cfg(kani)]
pub fn stub_vec_from_elem<T: Clone>(elem: T, n: usize) -> Vec<T> {
  kani::assume(n <= VEC_ELEM_CAP);
  let mut v = Vec::with_capacity(VEC_ELEM_CAP);
  let mut i = 0;
  while i < VEC_ELEM_CAP {
    if i < n {
      v.push(elem.clone());
    }
    i += 1;
  }
  v
}
#[cfg(not(kani))]
pub fn stub_vec_from_elem<T: Clone>(elem: T, n: usize) -> Vec<T> {
  vec![elem; n]
}
