// Environment stand-ins and helpers shared by harnesses (DESIGN.md 2.4).
// Compiled under cfg(kani) (solver world) and cfg(verif_replay) (native replay world).
#![allow(dead_code, unused_imports, clippy::all)]

#[cfg(kani)]
pub use crate::verif_shim::{BTreeMap, BTreeSet};
#[cfg(not(kani))]
pub use std::collections::{BTreeMap, BTreeSet};

pub const CAP: usize = crate::verif_cfg::SHIM_CAP;

/// Build a map from explicit slot contents.  Under Kani this sets the shim's arrays
/// directly (symbolic pre-state, caller assumes validity); natively it inserts into the
/// real std BTreeMap.
#[cfg(kani)]
pub fn map_from_parts<K: Ord, V>(len: usize, keys: [Option<K>; CAP], vals: [Option<V>; CAP]) -> BTreeMap<K, V> {
  BTreeMap::verif_from_parts(len, keys, vals)
}
#[cfg(not(kani))]
pub fn map_from_parts<K: Ord, V>(len: usize, keys: [Option<K>; CAP], vals: [Option<V>; CAP]) -> BTreeMap<K, V> {
  let mut m = BTreeMap::new();
  for (j, (k, v)) in keys.into_iter().zip(vals.into_iter()).enumerate() {
    if j < len {
      if let (Some(k), Some(v)) = (k, v) {
        m.insert(k, v);
      }
    }
  }
  m
}

#[cfg(kani)]
pub fn map_is_valid<K: Ord, V>(m: &BTreeMap<K, V>) -> bool {
  m.verif_is_valid()
}
#[cfg(not(kani))]
pub fn map_is_valid<K: Ord, V>(_m: &BTreeMap<K, V>) -> bool {
  true
}

/// kani::stub target for std::fmt::format — formatting is never the subject.
pub fn stub_format(_args: core::fmt::Arguments<'_>) -> String {
  String::new()
}

/// kani::stub target for alloc::vec::from_elem (what `vec![x; n]` expands to).  CBMC copes
/// badly with allocations of symbolic size; this keeps the allocation size concrete
/// (VEC_ELEM_CAP elements) while the LENGTH stays symbolic.  n > VEC_ELEM_CAP is outside
/// the bound (assume(false)), which every harness using it states.
pub const VEC_ELEM_CAP: usize = 9;
#[cfg(kani)]
pub fn stub_vec_from_elem<T: Clone>(elem: T, n: usize) -> Vec<T> {
  kani::assume(n <= VEC_ELEM_CAP);
  let mut v: Vec<T> = Vec::with_capacity_in(VEC_ELEM_CAP, std::alloc::Global);
  // hand-unrolled (no loop: a loop here would force every harness's unwind bound up to
  // VEC_ELEM_CAP+1), and no Vec::push (its growth path is what must be avoided)
  macro_rules! w {
    ($i:expr) => {
      if $i < n {
        unsafe { core::ptr::write(v.as_mut_ptr().add($i), elem.clone()) };
      }
    };
  }
  w!(0);
  w!(1);
  w!(2);
  w!(3);
  w!(4);
  w!(5);
  w!(6);
  w!(7);
  w!(8);
  unsafe { v.set_len(n) };
  v
}
#[cfg(not(kani))]
pub fn stub_vec_from_elem<T: Clone>(elem: T, n: usize) -> Vec<T> {
  vec![elem; n]
}

/// Build a set from explicit, already sorted slot contents (see map_from_parts).
#[cfg(kani)]
pub fn set_from_parts<K: Ord>(len: usize, keys: [Option<K>; CAP]) -> BTreeSet<K> {
  BTreeSet::verif_from_parts(len, keys)
}
#[cfg(not(kani))]
pub fn set_from_parts<K: Ord>(len: usize, keys: [Option<K>; CAP]) -> BTreeSet<K> {
  let mut s = BTreeSet::new();
  for (j, k) in keys.into_iter().enumerate() {
    if j < len {
      if let Some(k) = k {
        s.insert(k);
      }
    }
  }
  s
}
#[cfg(kani)]
pub fn set_is_valid<K: Ord>(s: &BTreeSet<K>) -> bool {
  s.verif_is_valid()
}
#[cfg(not(kani))]
pub fn set_is_valid<K: Ord>(_s: &BTreeSet<K>) -> bool {
  true
}

/// kani::stub target for Vec::push.  The real push grows the buffer by realloc when
/// len == capacity; with a symbolic len CBMC cannot prune that path, the capacity becomes
/// symbolic after the first possible growth and every later growth is an allocation of
/// SYMBOLIC size (measured: > 12 GB for 7 conditional pushes followed by reads).  This
/// version grows to a CONCRETE capacity instead; more than VEC_PUSH_CAP elements in a
/// grown Vec is outside the bound.
pub const VEC_PUSH_CAP: usize = 16;
#[cfg(kani)]
pub fn stub_vec_push<T, A: std::alloc::Allocator + Clone>(v: &mut Vec<T, A>, x: T) {
  if v.len() == v.capacity() {
    kani::assume(v.len() < VEC_PUSH_CAP);
    let mut nv: Vec<T, A> = Vec::with_capacity_in(VEC_PUSH_CAP, v.allocator().clone());
    let n = v.len();
    unsafe {
      // one memcpy (CBMC built-in, no loop to unwind)
      core::ptr::copy_nonoverlapping(v.as_ptr(), nv.as_mut_ptr(), n);
      nv.set_len(n);
      v.set_len(0);
    }
    // move the new Vec in place (ptr::read/write instead of mem::swap: swap is a chunked
    // byte loop that would need unwinding); `old` owns the old buffer with len 0, dropping
    // it frees the buffer only
    let old = unsafe { core::ptr::read(v) };
    unsafe { core::ptr::write(v, nv) };
    drop(old);
  }
  unsafe {
    let n = v.len();
    core::ptr::write(v.as_mut_ptr().add(n), x);
    v.set_len(n + 1);
  }
}
#[cfg(not(kani))]
pub fn stub_vec_push<T>(v: &mut Vec<T>, x: T) {
  v.push(x)
}

/// kani::stub target for Vec::with_capacity: concrete allocation (VEC_PUSH_CAP elements)
/// whatever (possibly symbolic) capacity was asked for; more is outside the bound.
#[cfg(kani)]
pub fn stub_vec_with_capacity<T>(n: usize) -> Vec<T> {
  kani::assume(n <= VEC_PUSH_CAP);
  Vec::with_capacity_in(VEC_PUSH_CAP, std::alloc::Global)
}
#[cfg(not(kani))]
pub fn stub_vec_with_capacity<T>(n: usize) -> Vec<T> {
  Vec::with_capacity(n)
}

/// A `Bytes` holding `data` in the Arc-backed ("shared") representation.  `Bytes::from(vec)`
/// with len == capacity yields the "promotable" representation, whose clone/drop go through
/// pointer tagging and an int-to-pointer cast: measured > 5 GB in CBMC for one 4-byte value,
/// against 1.7 s for the shared kind.  One byte of slack selects the shared kind.
pub fn shared_bytes(data: &[u8]) -> bytes::Bytes {
  let mut v = Vec::with_capacity(data.len() + 1);
  v.extend_from_slice(data);
  bytes::Bytes::from(v)
}
