// environment stand-ins, see DESIGN.md 2.4
