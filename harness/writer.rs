// Tier-O harnesses around the real rtps::writer::Writer — child module of that file.
// Serves C04 (history retention / cleaning), C20 (wait_for_acknowledgments), C02 (repair
// obligations), C11 (matched sets, writer side).
#![allow(dead_code, unused_imports, unused_variables, clippy::all)]
use std::sync::{Arc, Mutex};

use bytes::Bytes;

use super::*;
use crate::dds::with_key::datawriter::WriteOptionsBuilder;
use crate::structure::cache_change::CacheChange;
use crate::{
  dds::statusevents::{sync_status_channel, StatusChannelReceiver},
  messages::submessages::{
    elements::serialized_payload::SerializedPayload,
    submessage::{ReaderSubmessage, WriterSubmessage},
    submessages::{AckNack, HEARTBEAT_Flags},
  },
  network::udp_sender::verif_harness_env_udp as env_udp,
  rtps::submessage::{Submessage, SubmessageBody},
  structure::guid::EntityKind,
  verif_env::{self, BTreeMap as VMap},
  verif_vk as vk,
  verif_vk::vk_cover,
  RepresentationIdentifier,
};

// ------------------------------------------------------------------ recorders (Kani side)
pub(crate) static mut COMPLETIONS: usize = 0; // `()` tokens sent on any StatusChannelSender<()>
pub(crate) static mut OTHER_STATUS: usize = 0;

/// kani::stub target for the generic StatusChannelSender::<T>::try_send.  The real body
/// wraps mio-extras try_send, whose error type carries an io::Error (recursive dyn drop
/// glue).  Zero-sized payloads are the wait_for_acknowledgments completion tokens.
#[cfg(kani)]
pub(crate) fn stub_status_try_send<T>(
  _this: &crate::dds::statusevents::StatusChannelSender<T>,
  t: T,
) -> Result<(), mio_channel::TrySendError<T>> {
  unsafe {
    if core::mem::size_of::<T>() == 0 {
      COMPLETIONS += 1;
    } else {
      OTHER_STATUS += 1;
    }
  }
  core::mem::forget(t);
  Ok(())
}

/// Kani-side mailbox standing in for the DataWriter -> Writer command channel.  The real
/// mio-extras/std channel keeps its slots in a heap buffer; values read back from it are no
/// longer constants for CBMC's symbolic execution, so `match cc` in process_writer_command
/// explored the DDSData arm as well and the run did not finish (900 s / 10 GB).  The stub
/// hands over exactly the command the harness posted, once.
#[cfg(kani)]
pub(crate) static mut MAILBOX: Option<WriterCommand> = None;
#[cfg(kani)]
pub(crate) fn stub_cmd_try_recv<T>(_this: &mio_channel::Receiver<T>) -> Result<T, std::sync::mpsc::TryRecvError> {
  unsafe {
    match (*core::ptr::addr_of_mut!(MAILBOX)).take() {
      Some(c) => {
        assert!(core::mem::size_of::<T>() == core::mem::size_of::<WriterCommand>());
        let t: T = core::mem::transmute_copy(&c);
        core::mem::forget(c);
        Ok(t)
      }
      None => Err(std::sync::mpsc::TryRecvError::Empty),
    }
  }
}

#[cfg(kani)]
pub(crate) static mut WSTATUS: Vec<DataWriterStatus> = Vec::new();
#[cfg(kani)]
pub(crate) fn stub_send_status(_this: &Writer, status: DataWriterStatus) {
  unsafe { (*core::ptr::addr_of_mut!(WSTATUS)).push(status) }
}
#[cfg(kani)]
pub(crate) fn stub_send_participant_status(_this: &Writer, event: DomainParticipantStatusEvent) {
  core::mem::forget(event);
}

/// One emitted message, flattened: which readers it went to and what it carried.
#[derive(Clone, Copy)]
pub(crate) struct MsgRec {
  pub to_r1: bool,
  pub to_r2: bool,
  pub data_sn: i64,      // 0 = no DATA
  pub data_byte: u8,     // first payload byte of the DATA
  pub frag_sn: i64,      // 0 = no DATAFRAG
  pub gap_start: i64,    // 0 = no GAP
  pub gap_base: i64,
  pub gap_bits: u32,     // word 0 of the GAP bitmap
  pub gap_num_bits: u32,
  pub hb: bool,
  pub hb_first: i64,
  pub hb_last: i64,
  pub hb_final: bool,
}
impl MsgRec {
  pub const fn empty() -> Self {
    MsgRec {
      to_r1: false,
      to_r2: false,
      data_sn: 0,
      data_byte: 0,
      frag_sn: 0,
      gap_start: 0,
      gap_base: 0,
      gap_bits: 0,
      gap_num_bits: 0,
      hb: false,
      hb_first: 0,
      hb_last: 0,
      hb_final: false,
    }
  }
  pub fn gap_covers(&self, sn: i64) -> bool {
    if self.gap_start == 0 {
      return false;
    }
    if self.gap_start <= sn && sn < self.gap_base {
      return true;
    }
    let off = sn - self.gap_base;
    off >= 0 && off < self.gap_num_bits as i64 && off < 32 && self.gap_bits & (1u32 << (31 - off as u32)) != 0
  }
  pub fn absorb(&mut self, m: &Message) {
    for s in &m.submessages {
      match &s.body {
        SubmessageBody::Writer(WriterSubmessage::Data(d, _)) => {
          self.data_sn = i64::from(d.writer_sn);
          if let Some(p) = &d.serialized_payload {
            if p.len() > 4 {
              self.data_byte = p[4];
            }
          }
        }
        SubmessageBody::Writer(WriterSubmessage::DataFrag(d, _)) => {
          self.frag_sn = i64::from(d.writer_sn);
        }
        SubmessageBody::Writer(WriterSubmessage::Gap(g, _)) => {
          self.gap_start = i64::from(g.gap_start);
          self.gap_base = i64::from(g.gap_list.base());
          let (nb, _len, w0, _w1) =
            crate::structure::sequence_number::verif_harness_seqnum::ns_parts(&g.gap_list);
          self.gap_num_bits = nb;
          self.gap_bits = w0;
        }
        SubmessageBody::Writer(WriterSubmessage::Heartbeat(h, f)) => {
          self.hb = true;
          self.hb_first = i64::from(h.first_sn);
          self.hb_last = i64::from(h.last_sn);
          self.hb_final = f.contains(HEARTBEAT_Flags::Final);
        }
        _ => {}
      }
    }
  }
}

/// For harnesses that ask WHO gets WHICH sample (not what the bytes are — C14/C05): the DATA /
/// DATAFRAG builders are replaced by recorders of the sample's sequence number, so that
/// send_cache_change's decision logic runs without the message builder (which, together with
/// a Writer object, did not fit in 14 GB).
pub(crate) static mut BUILT_DATA_SN: i64 = 0;
#[cfg(kani)]
pub(crate) fn stub_data_msg(
  this: MessageBuilder,
  cache_change: &CacheChange,
  _reader_entity_id: EntityId,
  _writer_guid: GUID,
  _endianness: Endianness,
  _security_plugins: Option<&SecurityPluginsHandle>,
) -> MessageBuilder {
  unsafe { BUILT_DATA_SN = i64::from(cache_change.sequence_number) };
  this
}
#[cfg(kani)]
pub(crate) fn stub_data_frag_msg(
  this: MessageBuilder,
  cache_change: &CacheChange,
  _reader_entity_id: EntityId,
  _writer_guid: GUID,
  _fragment_number: FragmentNumber,
  _fragment_size: u16,
  _sample_size: u32,
  _endianness: Endianness,
  _security_plugins: Option<&SecurityPluginsHandle>,
) -> MessageBuilder {
  unsafe { BUILT_DATA_SN = i64::from(cache_change.sequence_number) };
  this
}

pub(crate) const MAXMSG: usize = 6;
pub(crate) struct Out {
  pub msgs: [MsgRec; MAXMSG],
  pub n: usize,
}
impl Out {
  pub const fn new() -> Self {
    Out {
      msgs: [MsgRec::empty(); MAXMSG],
      n: 0,
    }
  }
  pub fn push(&mut self, r: MsgRec) {
    // hand-unrolled store at a symbolic position
    if self.n == 0 {
      self.msgs[0] = r;
    } else if self.n == 1 {
      self.msgs[1] = r;
    } else if self.n == 2 {
      self.msgs[2] = r;
    } else if self.n == 3 {
      self.msgs[3] = r;
    } else if self.n == 4 {
      self.msgs[4] = r;
    } else if self.n == 5 {
      self.msgs[5] = r;
    }
    self.n += 1;
  }
}

#[cfg(kani)]
pub(crate) static mut OUT: Out = Out::new();

/// kani::stub target for Writer::send_message_to_readers: record the Message the real code
/// built and its destination readers; serialisation (C14) and sockets are skipped.
#[cfg(kani)]
pub(crate) fn stub_send_message_to_readers(
  _this: &Writer,
  _preferred_mode: DeliveryMode,
  message: Message,
  readers: &mut dyn Iterator<Item = &RtpsReaderProxy>,
) {
  let mut r = MsgRec::empty();
  r.absorb(&message);
  unsafe {
    if BUILT_DATA_SN != 0 {
      // the DATA/DATAFRAG builder was replaced by a recorder (writer_harness_nobuilder!)
      r.data_sn = BUILT_DATA_SN;
      BUILT_DATA_SN = 0;
    }
  }
  let mut steps = 0;
  while steps < 3 {
    if let Some(rp) = readers.next() {
      if rp.remote_reader_guid == reader_guid(1) {
        r.to_r1 = true;
      }
      if rp.remote_reader_guid == reader_guid(2) {
        r.to_r2 = true;
      }
    }
    steps += 1;
  }
  unsafe { (*core::ptr::addr_of_mut!(OUT)).push(r) };
  core::mem::forget(message);
}

// ------------------------------------------------------------------ rig
#[cfg(kani)]
const CHAN: usize = 1;
#[cfg(not(kani))]
const CHAN: usize = 32;

pub(crate) const TOPIC: &str = "t";

pub(crate) fn prefix(n: u8) -> GuidPrefix {
  GuidPrefix {
    bytes: [n, 1, 2, 3, 4, 5, 6, 7, 8, 9, 10, 11],
  }
}
pub(crate) fn reader_guid(n: u8) -> GUID {
  GUID::new(
    prefix(n),
    EntityId::new([0, 0, n], EntityKind::READER_WITH_KEY_USER_DEFINED),
  )
}
pub(crate) fn my_guid() -> GUID {
  GUID::new(
    prefix(100),
    EntityId::new([0, 0, 9], EntityKind::WRITER_WITH_KEY_USER_DEFINED),
  )
}

pub(crate) fn writer_qos(reliable: bool, history: Option<policy::History>, transient_local: bool) -> QosPolicies {
  let mut q = QosPolicies::qos_none();
  q.reliability = Some(if reliable {
    policy::Reliability::Reliable {
      max_blocking_time: Duration::ZERO,
    }
  } else {
    policy::Reliability::BestEffort
  });
  q.history = history;
  q.durability = Some(if transient_local {
    policy::Durability::TransientLocal
  } else {
    policy::Durability::Volatile
  });
  q
}
pub(crate) fn reader_qos(reliable: bool) -> QosPolicies {
  let mut q = QosPolicies::qos_none();
  q.reliability = Some(if reliable {
    policy::Reliability::Reliable {
      max_blocking_time: Duration::ZERO,
    }
  } else {
    policy::Reliability::BestEffort
  });
  q
}

pub(crate) struct WRig {
  pub writer: Writer,
  pub cmd_tx: mio_channel::SyncSender<WriterCommand>,
  pub status_rx: StatusChannelReceiver<DataWriterStatus>,
  pub pstatus_rx: StatusChannelReceiver<DomainParticipantStatusEvent>,
  #[cfg(not(kani))]
  pub wires: [std::net::UdpSocket; 2],
}

pub(crate) fn make_wrig(qos: QosPolicies) -> WRig {
  let (cmd_tx, writer_command_receiver) = mio_channel::sync_channel::<WriterCommand>(if cfg!(kani) { 1 } else { 4 });
  let (status_sender, status_rx) = sync_status_channel::<DataWriterStatus>(CHAN).unwrap();
  let (participant_status_sender, pstatus_rx) =
    sync_status_channel::<DomainParticipantStatusEvent>(CHAN).unwrap();
  let ing = WriterIngredients {
    guid: my_guid(),
    writer_command_receiver,
    writer_command_receiver_waker: Arc::new(Mutex::new(None)),
    topic_name: TOPIC.to_string(),
    like_stateless: false,
    qos_policies: qos,
    status_sender,
    security_plugins: None,
  };
  let timer = mio_extras::timer::Builder::default()
    .num_slots(2)
    .capacity(8)
    .build();
  let mut writer = Writer::new(
    ing,
    Rc::new(env_udp::dummy_udp_sender()),
    timer,
    participant_status_sender,
  );
  // repair timers fire on the next timer tick
  writer.nack_response_delay = std::time::Duration::from_millis(0);
  writer.nackfrag_response_delay = std::time::Duration::from_millis(0);
  #[cfg(not(kani))]
  let wires = {
    let mk = || {
      let s = std::net::UdpSocket::bind("127.0.0.1:0").unwrap();
      s.set_nonblocking(true).unwrap();
      s
    };
    [mk(), mk()]
  };
  WRig {
    writer,
    cmd_tx,
    status_rx,
    pstatus_rx,
    #[cfg(not(kani))]
    wires,
  }
}

impl WRig {
  pub fn reader_locators(&self, n: u8) -> Vec<Locator> {
    #[cfg(kani)]
    {
      vec![Locator::from(std::net::SocketAddr::from((
        [127, 0, 0, 1],
        7400 + n as u16,
      )))]
    }
    #[cfg(not(kani))]
    {
      vec![Locator::from(self.wires[(n - 1) as usize].local_addr().unwrap())]
    }
  }

  /// a reader proxy as discovery would hand it over
  pub fn proxy(&self, n: u8, reliable: bool) -> RtpsReaderProxy {
    let mut p = RtpsReaderProxy::new(reader_guid(n), reader_qos(reliable), false);
    p.unicast_locator_list = self.reader_locators(n);
    p
  }

  pub fn match_reader(&mut self, n: u8, reliable: bool) {
    let p = self.proxy(n, reliable);
    let q = reader_qos(reliable);
    self.writer.update_reader_proxy(&p, &q);
    core::mem::forget(p);
  }

  /// put sample `sn` into the history the way process_writer_command does, without sending
  pub fn store(&mut self, sn: i64, _byte: u8) {
    // Payloads are STATIC Bytes (distinct concrete content per SN, first byte = 11*sn):
    // their drop is a no-op, so the symbolic execution of cache cleaning does not have to run
    // reference-counted drop glue under symbolic conditions (measured: one symbolic
    // acked-before value with heap-backed payloads did not finish in 900 s / 6 GB).
    static P1: [u8; 4] = [11, 0, 0, 0];
    static P2: [u8; 4] = [22, 0, 0, 0];
    static P3: [u8; 4] = [33, 0, 0, 0];
    static P4: [u8; 4] = [44, 0, 0, 0];
    static P5: [u8; 4] = [55, 0, 0, 0];
    let p: &'static [u8] = match sn {
      1 => &P1,
      2 => &P2,
      3 => &P3,
      4 => &P4,
      _ => &P5,
    };
    let d = DDSData::new(SerializedPayload::new_from_bytes(
      RepresentationIdentifier::CDR_LE,
      Bytes::from_static(p),
    ));
    self
      .writer
      .insert_to_history_buffer(d, WriteOptions::default(), SequenceNumber::new(sn));
  }

  /// What the writer emitted since the last call.
  #[cfg(kani)]
  pub fn take_out(&self) -> Out {
    unsafe { core::mem::replace(&mut *core::ptr::addr_of_mut!(OUT), Out::new()) }
  }
  #[cfg(not(kani))]
  pub fn take_out(&self) -> Out {
    // natively the real send path ran: read every reader's socket
    let mut out = Out::new();
    let mut buf = [0u8; 65536];
    std::thread::sleep(std::time::Duration::from_millis(5));
    for (i, w) in self.wires.iter().enumerate() {
      loop {
        match w.recv_from(&mut buf) {
          Ok((n, _)) => {
            let b = Bytes::copy_from_slice(&buf[..n]);
            let m = Message::read_from_buffer(&b).expect("writer emitted an unparsable message");
            let mut r = MsgRec::empty();
            r.absorb(&m);
            if i == 0 {
              r.to_r1 = true;
            } else {
              r.to_r2 = true;
            }
            out.push(r);
          }
          Err(_) => break,
        }
      }
    }
    out
  }

  pub fn completions(&self, rx: &StatusChannelReceiver<()>) -> usize {
    #[cfg(kani)]
    unsafe {
      let _ = rx;
      COMPLETIONS
    }
    #[cfg(not(kani))]
    {
      let mut n = 0;
      while rx.try_recv().is_ok() {
        n += 1;
      }
      NATIVE_COMPLETIONS.with(|c| {
        *c.borrow_mut() += n;
        *c.borrow()
      })
    }
  }

  /// hand a command to the writer the way the DataWriter does
  pub fn post(&mut self, c: WriterCommand) {
    #[cfg(kani)]
    unsafe {
      *core::ptr::addr_of_mut!(MAILBOX) = Some(c);
    }
    #[cfg(not(kani))]
    {
      let r = self.cmd_tx.try_send(c);
      assert!(r.is_ok());
      core::mem::forget(r);
    }
  }

  pub fn finish(self) {
    core::mem::forget(self);
  }
}
#[cfg(not(kani))]
thread_local! {
  static NATIVE_COMPLETIONS: std::cell::RefCell<usize> = std::cell::RefCell::new(0);
}

macro_rules! writer_harness {
  ($(#[$m:meta])* fn $name:ident($unwind:expr) $body:block) => {
    $(#[$m])*
    #[cfg_attr(kani, kani::proof, kani::unwind($unwind))]
    #[cfg_attr(
      kani,
      kani::stub(Writer::send_message_to_readers, stub_send_message_to_readers),
      kani::stub(Writer::send_status, stub_send_status),
      kani::stub(Writer::send_participant_status, stub_send_participant_status),
      kani::stub(crate::dds::statusevents::StatusChannelSender::try_send, stub_status_try_send),
      kani::stub(mio_extras::channel::Receiver::try_recv, stub_cmd_try_recv),
      kani::stub(crate::structure::time::Timestamp::now, crate::structure::time::verif_harness_env_time::stub_now),
      kani::stub(std::time::Instant::now, crate::structure::time::verif_harness_env_time::stub_instant_now),
      kani::stub(crate::mio_source::make_poll_channel, crate::mio_source::verif_harness_env_mio::stub_make_poll_channel),
      kani::stub(crate::mio_source::PollEventSender::send, crate::mio_source::verif_harness_env_mio::stub_send),
      kani::stub(crate::mio_source::PollEventSource::drain, crate::mio_source::verif_harness_env_mio::stub_drain),
      kani::stub(std::fmt::format, crate::verif_env::stub_format),
      kani::stub(std::vec::Vec::push, crate::verif_env::stub_vec_push),
      kani::stub(alloc::vec::from_elem, crate::verif_env::stub_vec_from_elem)
    )]
    #[cfg_attr(verif_replay, test)]
    fn $name() {
      vk::begin(stringify!($name));
      $body;
      vk::end();
    }
  };
}

macro_rules! writer_harness_nobuilder {
  ($(#[$m:meta])* fn $name:ident($unwind:expr) $body:block) => {
    $(#[$m])*
    #[cfg_attr(kani, kani::proof, kani::unwind($unwind))]
    #[cfg_attr(
      kani,
      kani::stub(Writer::send_message_to_readers, stub_send_message_to_readers),
      kani::stub(Writer::send_status, stub_send_status),
      kani::stub(crate::rtps::message::MessageBuilder::data_msg, stub_data_msg),
      kani::stub(crate::rtps::message::MessageBuilder::data_frag_msg, stub_data_frag_msg),
      kani::stub(Writer::send_participant_status, stub_send_participant_status),
      kani::stub(crate::dds::statusevents::StatusChannelSender::try_send, stub_status_try_send),
      kani::stub(mio_extras::channel::Receiver::try_recv, stub_cmd_try_recv),
      kani::stub(crate::structure::time::Timestamp::now, crate::structure::time::verif_harness_env_time::stub_now),
      kani::stub(std::time::Instant::now, crate::structure::time::verif_harness_env_time::stub_instant_now),
      kani::stub(crate::mio_source::make_poll_channel, crate::mio_source::verif_harness_env_mio::stub_make_poll_channel),
      kani::stub(crate::mio_source::PollEventSender::send, crate::mio_source::verif_harness_env_mio::stub_send),
      kani::stub(crate::mio_source::PollEventSource::drain, crate::mio_source::verif_harness_env_mio::stub_drain),
      kani::stub(std::fmt::format, crate::verif_env::stub_format),
      kani::stub(std::vec::Vec::push, crate::verif_env::stub_vec_push),
      kani::stub(alloc::vec::from_elem, crate::verif_env::stub_vec_from_elem)
    )]
    #[cfg_attr(verif_replay, test)]
    fn $name() {
      vk::begin(stringify!($name));
      $body;
      vk::end();
    }
  };
}

// ==================================================================== C04: cache cleaning

/// History depth d, three samples 1..3 stored, up to two matched readers (each absent /
/// best-effort / reliable with ANY acknowledged-before value): after cache cleaning
///  (a) every sample not yet acknowledged by some matched reliable reader is retrievable,
///  (b) what is retained is at most depth + (samples unacknowledged by matched reliable readers).
fn cleaning_case(history: Option<policy::History>, depth: usize, kinds: [u8; 2]) {
  let mut rig = make_wrig(writer_qos(true, history, true));
  rig.store(1, 11);
  rig.store(2, 22);
  rig.store(3, 33);
  // readers
  let mut min_reliable_acked: i64 = 4; // nothing unacked if there is no reliable reader
  let mut any_reliable = false;
  let mut n = 1u8;
  while n <= 2 {
    // reader mix is concrete per harness instance (0 absent, 1 best effort, 2 reliable);
    // what each reliable reader has acknowledged is symbolic
    let kind = kinds[(n - 1) as usize];
    if kind != 0 {
      rig.match_reader(n, kind == 2);
      if kind == 2 {
        let acked_before = vk::range_i64(0, 5);
        rig
          .writer
          .readers
          .get_mut(&reader_guid(n))
          .unwrap()
          .all_acked_before = SequenceNumber::new(acked_before);
        any_reliable = true;
        let eff = if acked_before < 1 { 1 } else { acked_before };
        if eff < min_reliable_acked {
          min_reliable_acked = eff;
        }
      }
    }
    n += 1;
  }
  let _ = rig.take_out();
  rig.writer.handle_cache_cleaning();
  let mut retained = 0usize;
  let mut sn = 1;
  while sn <= 3 {
    let have = rig.writer.history_buffer.get_by_sn(SequenceNumber::new(sn)).is_some();
    if have {
      retained += 1;
    }
    if sn >= min_reliable_acked {
      assert!(have, "a sample not yet acknowledged by a matched reliable reader was removed");
    }
    sn += 1;
  }
  let unacked = if min_reliable_acked > 3 { 0 } else { (4 - min_reliable_acked) as usize };
  assert!(
    retained <= depth + unacked,
    "history retains more than depth + samples unacknowledged by matched reliable readers"
  );
  // HEARTBEAT contents after cleaning: first = lowest retrievable, last = highest written
  assert!(rig.writer.history_buffer.last_change_sequence_number() == SequenceNumber::new(3));
  let first = i64::from(rig.writer.history_buffer.first_change_sequence_number());
  assert!(
    first >= 1 && first <= 3 && rig.writer.history_buffer.get_by_sn(SequenceNumber::new(first)).is_some(),
    "first_change_sequence_number is not retrievable"
  );
  if first > 1 {
    assert!(rig.writer.history_buffer.get_by_sn(SequenceNumber::new(first - 1)).is_none());
  }
  vk_cover!(!any_reliable || retained < 3, "something was cleaned");
  vk_cover!(!any_reliable || retained == 3, "nothing could be cleaned");
  rig.finish();
}

macro_rules! cleaning {
  ($name:ident, $hist:expr, $depth:expr, $k1:expr, $k2:expr) => {
    writer_harness! {
    fn $name(7) {
      cleaning_case($hist, $depth, [$k1, $k2]);
    }
    }
  };
}
const KL1: Option<policy::History> = Some(policy::History::KeepLast { depth: 1 });
const KL2: Option<policy::History> = Some(policy::History::KeepLast { depth: 2 });
cleaning!(c04_cleaning_kl1_none, KL1, 1, 0, 0);
cleaning!(c04_cleaning_kl1_besteffort, KL1, 1, 1, 0);
cleaning!(c04_cleaning_kl1_reliable, KL1, 1, 2, 0);
cleaning!(c04_cleaning_kl1_reliable_reliable, KL1, 1, 2, 2);
cleaning!(c04_cleaning_kl1_besteffort_reliable, KL1, 1, 1, 2);
cleaning!(c04_cleaning_kl2_none, KL2, 2, 0, 0);
cleaning!(c04_cleaning_kl2_reliable, KL2, 2, 2, 0);
cleaning!(c04_cleaning_kl2_reliable_reliable, KL2, 2, 2, 2);
cleaning!(c04_cleaning_default_reliable, None, 1, 2, 0);
cleaning!(c04_cleaning_default_besteffort, None, 1, 1, 0);

// ==================================================================== C20: wait_for_acknowledgments

fn acknack_from(n: u8, base: i64) -> AckSubmessage {
  AckSubmessage::AckNack(AckNack {
    reader_id: reader_guid(n).entity_id,
    writer_id: my_guid().entity_id,
    reader_sn_state: crate::structure::sequence_number::verif_harness_seqnum::sn_set_from_bits(base, 0, 0),
    count: 1,
  })
}

/// `written` samples in history; reader 1 reliable with ANY acknowledged-before value, reader 2
/// of concrete kind k2 (0 absent, 1 best effort, 2 reliable with any acked-before); the wait
/// command; then one event (ACKNACK with any base from reader 1 or 2, or loss of reader 1/2).
/// Success is reported exactly when every reliable reader matched at the call has acked all
/// samples written before the call or was lost; at once if that already holds; once only.
fn wait_case(written: i64, k2: u8, via_handle_ack_nack: bool) {
  let mut rig = make_wrig(writer_qos(true, Some(policy::History::KeepAll), true));
  let mut s = 1;
  while s <= written {
    rig.store(s, 0);
    s += 1;
  }
  rig.match_reader(1, true);
  let a1 = vk::range_i64(0, written + 2);
  rig.writer.readers.get_mut(&reader_guid(1)).unwrap().all_acked_before = SequenceNumber::new(a1);
  let mut a2 = 0;
  if k2 != 0 {
    rig.match_reader(2, k2 == 2);
    if k2 == 2 {
      a2 = vk::range_i64(0, written + 2);
      rig.writer.readers.get_mut(&reader_guid(2)).unwrap().all_acked_before = SequenceNumber::new(a2);
    }
  }
  let _ = rig.take_out();
  // ghost: who still has to acknowledge (a reader has acked everything written before the
  // call iff its acknowledged-before value exceeds the last written SN; nothing written =>
  // nothing to acknowledge)
  let mut pend1 = written >= 1 && a1 <= written;
  let mut pend2 = k2 == 2 && written >= 1 && a2 <= written;

  let (all_acked, done_rx) = sync_status_channel::<()>(CHAN).unwrap();
  rig.post(WriterCommand::WaitForAcknowledgments { all_acked });
  rig.writer.process_writer_command();
  let c0 = rig.completions(&done_rx);
  assert!((c0 == 1) == (!pend1 && !pend2), "success not reported at once although everything was acknowledged, or reported too early");
  assert!(c0 <= 1);

  // one event.  The acting reader is chosen symbolically, but every call below gets a
  // CONCRETE GUID (a GUID built from a symbolic byte makes every map lookup and the drop of
  // the removed proxy symbolic: did not finish).
  let who = vk::range_u8(1, 2);
  if vk::any::<bool>() {
    let base = vk::range_i64(0, written + 2);
    if via_handle_ack_nack {
      // the whole ACKNACK path of the writer
      if who == 1 {
        let ack = acknack_from(1, base);
        rig.writer.handle_ack_nack(prefix(1), &ack);
        core::mem::forget(ack);
      } else {
        let ack = acknack_from(2, base);
        rig.writer.handle_ack_nack(prefix(2), &ack);
        core::mem::forget(ack);
      }
    } else {
      // the unit where the decision is taken; Writer::handle_ack_nack calls it with
      // (GUID of the acknowledging reader, Some(ACKNACK base)) before anything else
      if who == 1 {
        rig.writer.update_ack_waiters(reader_guid(1), Some(SequenceNumber::new(base)));
      } else {
        rig.writer.update_ack_waiters(reader_guid(2), Some(SequenceNumber::new(base)));
      }
    }
    if base > written {
      if who == 1 {
        pend1 = false;
      } else {
        pend2 = false;
      }
    }
  } else {
    if who == 1 {
      rig.writer.reader_lost(reader_guid(1));
      pend1 = false;
    } else {
      rig.writer.reader_lost(reader_guid(2));
      pend2 = false;
    }
  }
  let c1 = rig.completions(&done_rx);
  assert!(c1 <= 1, "more than one completion for one wait");
  assert!((c1 == 1) == (c0 == 1 || (!pend1 && !pend2)), "completion does not follow the acknowledgment state");
  vk_cover!(c0 == 0 && c1 == 1, "completed by the event");
  vk_cover!(c0 == 0 && c1 == 0, "still waiting after the event");
  vk_cover!(c0 == 1, "completed at once");
  core::mem::forget(done_rx);
  rig.finish();
}

macro_rules! wait_h {
  ($name:ident, $written:expr, $k2:expr, $via:expr) => {
    writer_harness! {
    fn $name(7) {
      wait_case($written, $k2, $via);
    }
    }
  };
}
// the combined form (wait + one event, everything symbolic) is kept for the thorough tier
wait_h!(c20_wait_then_event_w2_one_reliable, 2, 0, false);
wait_h!(c20_wait_then_event_w2_two_reliable, 2, 2, false);

/// (A) the wait command alone: readers' acknowledgment states symbolic.  Success is reported
/// in the same call iff no reliable reader still has to acknowledge; otherwise a waiter is
/// installed that waits for exactly the pending readers and for the last written SN.
fn wait_command_case(written: i64, k2: u8) {
  let mut rig = make_wrig(writer_qos(true, Some(policy::History::KeepAll), true));
  let mut s = 1;
  while s <= written {
    rig.store(s, 0);
    s += 1;
  }
  rig.match_reader(1, true);
  let a1 = vk::range_i64(0, written + 2);
  rig.writer.readers.get_mut(&reader_guid(1)).unwrap().all_acked_before = SequenceNumber::new(a1);
  let mut a2 = 0;
  if k2 != 0 {
    rig.match_reader(2, k2 == 2);
    if k2 == 2 {
      a2 = vk::range_i64(0, written + 2);
      rig.writer.readers.get_mut(&reader_guid(2)).unwrap().all_acked_before = SequenceNumber::new(a2);
    }
  }
  let pend1 = written >= 1 && a1 <= written;
  let pend2 = k2 == 2 && written >= 1 && a2 <= written;
  let (all_acked, done_rx) = sync_status_channel::<()>(CHAN).unwrap();
  rig.post(WriterCommand::WaitForAcknowledgments { all_acked });
  rig.writer.process_writer_command();
  let c0 = rig.completions(&done_rx);
  assert!(c0 <= 1, "more than one completion for one wait");
  assert!(
    (c0 == 1) == (!pend1 && !pend2),
    "success not reported at once although everything was acknowledged, or reported although a reliable reader has not acknowledged"
  );
  // (reading the waiter's pending set back here made the query explode: > 14 GB; which readers
  // it waits for is decided by c20_wait_then_acknack_base and the thorough-tier harnesses)
  assert!(rig.writer.ack_waiter.is_some() == (pend1 || pend2), "a waiter is installed iff an acknowledgment is outstanding");
  vk_cover!(c0 == 1, "completed at once");
  vk_cover!(c0 == 0, "has to wait");
  core::mem::forget(done_rx);
  rig.finish();
}
macro_rules! waitcmd_h {
  ($name:ident, $written:expr, $k2:expr) => {
    writer_harness! {
    fn $name(3) {
      wait_command_case($written, $k2);
    }
    }
  };
}
waitcmd_h!(c20_waitcmd_w2_one_reliable, 2, 0);
waitcmd_h!(c20_waitcmd_w2_reliable_besteffort, 2, 1);
waitcmd_h!(c20_waitcmd_w2_two_reliable, 2, 2);
waitcmd_h!(c20_waitcmd_w0_one_reliable, 0, 0);
waitcmd_h!(c20_waitcmd_w0_two_reliable, 0, 2);

/// (B) one step of the waiter from ANY pending set over {reader 1, reader 2}: an
/// acknowledgment (any base) or the loss of a reader (1, 2 or a stranger) completes the wait
/// iff afterwards nobody is pending; a reader leaves the pending set iff it was lost or its
/// base exceeds the awaited SN.  Kernel harness on the real AckWaiter (no Writer object).
#[cfg_attr(kani, kani::proof, kani::unwind(7))]
#[cfg_attr(
  kani,
  kani::stub(crate::mio_source::make_poll_channel, crate::mio_source::verif_harness_env_mio::stub_make_poll_channel),
  kani::stub(crate::dds::statusevents::StatusChannelSender::try_send, stub_status_try_send),
  kani::stub(std::fmt::format, crate::verif_env::stub_format)
)]
#[cfg_attr(verif_replay, test)]
fn c20_waiter_step() {
  vk::begin("c20_waiter_step");
  let (complete_channel, done_rx) = sync_status_channel::<()>(CHAN).unwrap();
  let wait_until = vk::range_i64(0, 3);
  let mut p1: bool = vk::any();
  let mut p2: bool = vk::any();
  vk::assume(p1 || p2); // a waiter only exists while somebody is pending
  let mut readers_pending = verif_env::BTreeSet::new();
  if p1 {
    readers_pending.insert(reader_guid(1));
  }
  if p2 {
    readers_pending.insert(reader_guid(2));
  }
  let mut w = AckWaiter {
    wait_until: SequenceNumber::new(wait_until),
    complete_channel,
    readers_pending,
  };
  let who = vk::range_u8(1, 3); // 3 = a reader that is not pending at all
  let lost: bool = vk::any();
  let base = vk::range_i64(0, 5);
  let acked = if lost { None } else { Some(SequenceNumber::new(base)) };
  let done = if who == 1 {
    w.reader_acked_or_lost(reader_guid(1), acked)
  } else if who == 2 {
    w.reader_acked_or_lost(reader_guid(2), acked)
  } else {
    w.reader_acked_or_lost(reader_guid(3), acked)
  };
  let leaves = lost || base > wait_until;
  if who == 1 && leaves {
    p1 = false;
  }
  if who == 2 && leaves {
    p2 = false;
  }
  assert!(done == (!p1 && !p2), "wait reported complete while a reader is pending, or not complete although nobody is");
  assert!(w.readers_pending.contains(&reader_guid(1)) == p1);
  assert!(w.readers_pending.contains(&reader_guid(2)) == p2);
  vk_cover!(done && !lost, "completed by an acknowledgment");
  vk_cover!(!done && !lost && who != 3 && base == wait_until, "base == last written does not complete (strict boundary)");
  core::mem::forget(w);
  core::mem::forget(done_rx);
  vk::end();
}

/// (C) end to end on the real Writer with one symbolic scalar: reader 1 pending after the wait
/// command; an ACKNACK with ANY base through the whole Writer::handle_ack_nack completes the
/// wait exactly when base > last written, and at most once.
writer_harness! {
fn c20_wait_then_acknack_base(3) {
  let mut rig = make_wrig(writer_qos(true, Some(policy::History::KeepAll), true));
  rig.store(1, 0);
  rig.store(2, 0);
  rig.match_reader(1, true);
  rig.writer.readers.get_mut(&reader_guid(1)).unwrap().all_acked_before = SequenceNumber::new(1);
  let (all_acked, done_rx) = sync_status_channel::<()>(CHAN).unwrap();
  rig.post(WriterCommand::WaitForAcknowledgments { all_acked });
  rig.writer.process_writer_command();
  assert!(rig.completions(&done_rx) == 0);
  let base = vk::range_i64(0, 4);
  let ack = acknack_from(1, base);
  rig.writer.handle_ack_nack(prefix(1), &ack);
  core::mem::forget(ack);
  let c = rig.completions(&done_rx);
  assert!((c == 1) == (base > 2), "completion does not follow the ACKNACK base");
  assert!(c <= 1);
  assert!(rig.writer.ack_waiter.is_none() == (base > 2));
  vk_cover!(c == 1);
  vk_cover!(c == 0 && base == 2, "base == last written keeps waiting");
  let _ = rig.take_out();
  core::mem::forget(done_rx);
  rig.finish();
}
}

// ==================================================================== C04: single-reader samples

fn static_payload(sn: i64) -> DDSData {
  static P1: [u8; 4] = [11, 0, 0, 0];
  static P2: [u8; 4] = [22, 0, 0, 0];
  let p: &'static [u8] = if sn == 1 { &P1 } else { &P2 };
  DDSData::new(SerializedPayload::new_from_bytes(
    RepresentationIdentifier::CDR_LE,
    Bytes::from_static(p),
  ))
}

/// Readers 1 and 2 matched (reliable).  One ordinary sample, then a sample written for ONE
/// reader — reader 1, reader 2, or a reader that is not matched (chosen symbolically) —
/// through the real process_writer_command.  The single-reader sample's DATA never goes to
/// anybody but its target (to nobody if the target is not matched), and every other matched
/// reader is left with a pending GAP for it (so it is told "irrelevant", never left waiting).
writer_harness! {
fn c04_single_reader_sample(7) {
  let mut rig = make_wrig(writer_qos(true, Some(policy::History::KeepAll), true));
  rig.match_reader(1, true);
  rig.match_reader(2, true);
  let _ = rig.take_out();
  rig.post(WriterCommand::DDSData {
    ddsdata: static_payload(1),
    write_options: WriteOptions::default(),
    sequence_number: SequenceNumber::new(1),
  });
  rig.writer.process_writer_command();
  let out1 = rig.take_out();
  // the ordinary sample reaches both readers
  let mut seen1 = false;
  let mut seen2 = false;
  let mut i = 0;
  while i < MAXMSG {
    if i < out1.n && out1.msgs[i].data_sn == 1 {
      seen1 = seen1 || out1.msgs[i].to_r1;
      seen2 = seen2 || out1.msgs[i].to_r2;
      assert!(out1.msgs[i].data_byte == 11, "DATA does not carry the written bytes");
    }
    i += 1;
  }
  assert!(seen1 && seen2, "ordinary sample not pushed to both matched readers");

  let target = vk::range_u8(1, 3);
  let wo = if target == 1 {
    WriteOptionsBuilder::new().to_single_reader(reader_guid(1)).build()
  } else if target == 2 {
    WriteOptionsBuilder::new().to_single_reader(reader_guid(2)).build()
  } else {
    WriteOptionsBuilder::new().to_single_reader(reader_guid(3)).build()
  };
  rig.post(WriterCommand::DDSData {
    ddsdata: static_payload(2),
    write_options: wo,
    sequence_number: SequenceNumber::new(2),
  });
  rig.writer.process_writer_command();
  let out2 = rig.take_out();
  let mut i = 0;
  while i < MAXMSG {
    if i < out2.n && (out2.msgs[i].data_sn == 2 || out2.msgs[i].frag_sn == 2) {
      let m = &out2.msgs[i];
      assert!(!(m.to_r1 && target != 1), "a sample written for one reader was transmitted to reader 1");
      assert!(!(m.to_r2 && target != 2), "a sample written for one reader was transmitted to reader 2");
      assert!(target != 3, "a sample written for an unmatched reader was transmitted");
    }
    i += 1;
  }
  // the other matched readers must be GAPped for SN 2
  let g1 = rig.writer.readers.get(&reader_guid(1)).unwrap().get_pending_gap().contains(&SequenceNumber::new(2));
  let g2 = rig.writer.readers.get(&reader_guid(2)).unwrap().get_pending_gap().contains(&SequenceNumber::new(2));
  assert!(g1 == (target != 1), "reader 1: pending GAP for the single-reader sample wrong");
  assert!(g2 == (target != 2), "reader 2: pending GAP for the single-reader sample wrong");
  vk_cover!(target == 3, "target not matched");
  vk_cover!(target == 1 && out2.n >= 1, "sent to reader 1 only");
  rig.finish();
}
}

/// The guard inside Writer::send_cache_change, driven directly: a sample written for one reader
/// is sent only when the given target proxy IS that reader (then to that reader alone); with no
/// target (the reader is not matched) or another reader's proxy nothing at all is transmitted.
/// DATA/DATAFRAG builders are recorders here (who gets which SN; bytes are C14/C05).
writer_harness_nobuilder! {
fn c04_single_reader_send_guard(7) {
  let mut rig = make_wrig(writer_qos(true, Some(policy::History::KeepAll), true));
  rig.match_reader(1, true);
  rig.match_reader(2, true);
  let _ = rig.take_out();
  let scenario = vk::range_u8(0, 2);
  let single = match scenario {
    0 => reader_guid(3), // not matched
    _ => reader_guid(1),
  };
  let cc = CacheChange::new(
    my_guid(),
    SequenceNumber::new(1),
    WriteOptionsBuilder::new().to_single_reader(single).build(),
    static_payload(1),
  );
  match scenario {
    0 => {
      let _ = rig.writer.send_cache_change(&cc, false, None);
    }
    1 => {
      let other = rig.writer.readers.get(&reader_guid(2));
      let _ = rig.writer.send_cache_change(&cc, false, other);
    }
    _ => {
      let target = rig.writer.readers.get(&reader_guid(1));
      let _ = rig.writer.send_cache_change(&cc, false, target);
    }
  }
  let out = rig.take_out();
  let mut data_to_r1 = false;
  let mut data_to_r2 = false;
  let mut i = 0;
  while i < MAXMSG {
    if i < out.n && out.msgs[i].data_sn == 1 {
      data_to_r1 = data_to_r1 || out.msgs[i].to_r1;
      data_to_r2 = data_to_r2 || out.msgs[i].to_r2;
    }
    i += 1;
  }
  assert!(!data_to_r2, "a sample written for one reader was transmitted to reader 2");
  assert!(data_to_r1 == (scenario == 2), "single-reader sample must go to its reader when (and only when) that reader's proxy is the target");
  vk_cover!(scenario == 2 && data_to_r1, "sent to its reader");
  vk_cover!(scenario == 0, "unmatched target");
  core::mem::forget(cc);
  rig.finish();
}
}
