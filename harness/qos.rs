// C10 harnesses — injected as a child module of crate::dds::qos.
#![allow(dead_code, unused_imports, clippy::all)]
use super::{policy::*, *};
use crate::{structure::duration::Duration, verif_vk as vk, verif_vk::vk_cover};

fn any_duration() -> Duration {
  // every 64-bit tick count: includes ZERO, INFINITE (0x7FFFFFFF_FFFFFFFF) and negatives
  Duration::from_ticks(vk::any::<i64>())
}

fn any_durability() -> Durability {
  match vk::range_u8(0, 3) {
    0 => Durability::Volatile,
    1 => Durability::TransientLocal,
    2 => Durability::Transient,
    _ => Durability::Persistent,
  }
}
fn durability_rank(d: Durability) -> u8 {
  match d {
    Durability::Volatile => 0,
    Durability::TransientLocal => 1,
    Durability::Transient => 2,
    Durability::Persistent => 3,
  }
}

fn any_scope() -> PresentationAccessScope {
  match vk::range_u8(0, 2) {
    0 => PresentationAccessScope::Instance,
    1 => PresentationAccessScope::Topic,
    _ => PresentationAccessScope::Group,
  }
}
fn scope_rank(s: PresentationAccessScope) -> u8 {
  match s {
    PresentationAccessScope::Instance => 0,
    PresentationAccessScope::Topic => 1,
    PresentationAccessScope::Group => 2,
  }
}

fn any_presentation() -> Presentation {
  Presentation {
    access_scope: any_scope(),
    coherent_access: vk::any(),
    ordered_access: vk::any(),
  }
}

fn any_ownership() -> Ownership {
  if vk::any::<bool>() {
    Ownership::Shared
  } else {
    Ownership::Exclusive {
      strength: vk::any::<i32>(),
    }
  }
}
fn ownership_kind(o: Ownership) -> u8 {
  match o {
    Ownership::Shared => 0,
    Ownership::Exclusive { .. } => 1,
  }
}

fn any_liveliness() -> Liveliness {
  let lease_duration = any_duration();
  match vk::range_u8(0, 2) {
    0 => Liveliness::Automatic { lease_duration },
    1 => Liveliness::ManualByParticipant { lease_duration },
    _ => Liveliness::ManualByTopic { lease_duration },
  }
}
fn liveliness_rank(l: Liveliness) -> u8 {
  match l {
    Liveliness::Automatic { .. } => 0,
    Liveliness::ManualByParticipant { .. } => 1,
    Liveliness::ManualByTopic { .. } => 2,
  }
}
fn liveliness_lease(l: Liveliness) -> Duration {
  match l {
    Liveliness::Automatic { lease_duration }
    | Liveliness::ManualByParticipant { lease_duration }
    | Liveliness::ManualByTopic { lease_duration } => lease_duration,
  }
}

fn any_reliability() -> Reliability {
  if vk::any::<bool>() {
    Reliability::BestEffort
  } else {
    Reliability::Reliable {
      max_blocking_time: any_duration(),
    }
  }
}
fn reliability_rank(r: Reliability) -> u8 {
  match r {
    Reliability::BestEffort => 0,
    Reliability::Reliable { .. } => 1,
  }
}

fn any_dest_order() -> DestinationOrder {
  if vk::any::<bool>() {
    DestinationOrder::ByReceptionTimestamp
  } else {
    DestinationOrder::BySourceTimeStamp
  }
}
fn dest_order_rank(d: DestinationOrder) -> u8 {
  match d {
    DestinationOrder::ByReceptionTimestamp => 0,
    DestinationOrder::BySourceTimeStamp => 1,
  }
}

fn any_history() -> History {
  if vk::any::<bool>() {
    History::KeepAll
  } else {
    History::KeepLast {
      depth: vk::any::<i32>(),
    }
  }
}

fn opt<T>(f: impl FnOnce() -> T) -> Option<T> {
  if vk::any::<bool>() {
    Some(f())
  } else {
    None
  }
}

/// A fully symbolic QoS set: every policy absent or any value.
pub(crate) fn any_qos() -> QosPolicies {
  QosPolicies {
    durability: opt(any_durability),
    presentation: opt(any_presentation),
    deadline: opt(|| Deadline(any_duration())),
    latency_budget: opt(|| LatencyBudget {
      duration: any_duration(),
    }),
    ownership: opt(any_ownership),
    liveliness: opt(any_liveliness),
    time_based_filter: opt(|| TimeBasedFilter {
      minimum_separation: any_duration(),
    }),
    reliability: opt(any_reliability),
    destination_order: opt(any_dest_order),
    history: opt(any_history),
    resource_limits: opt(|| ResourceLimits {
      max_samples: vk::any(),
      max_instances: vk::any(),
      max_samples_per_instance: vk::any(),
    }),
    lifespan: opt(|| Lifespan {
      duration: any_duration(),
    }),
    #[cfg(feature = "security")]
    property: None,
  }
}

// ---------------------------------------------------------------------------------------
// Reference: DDS 1.4 section 2.2.3, table "request/offered", written independently of the
// implementation, over ranks and tick counts only.  Returns, per policy, "rule holds".
// ---------------------------------------------------------------------------------------
#[derive(Clone, Copy)]
struct Rules {
  durability: bool,
  presentation: bool,
  deadline: bool,
  latency_budget: bool,
  ownership: bool,
  liveliness: bool,
  reliability: bool,
  destination_order: bool,
}

fn both<T: Copy>(a: Option<T>, b: Option<T>, rule: impl FnOnce(T, T) -> bool) -> bool {
  match (a, b) {
    (Some(off), Some(req)) => rule(off, req),
    _ => true, // a policy one side does not specify does not constrain the match
  }
}

fn reference(off: &QosPolicies, req: &QosPolicies) -> Rules {
  Rules {
    durability: both(off.durability, req.durability, |o, r| {
      durability_rank(o) >= durability_rank(r)
    }),
    presentation: both(off.presentation, req.presentation, |o, r| {
      scope_rank(o.access_scope) >= scope_rank(r.access_scope)
        && (!r.coherent_access || o.coherent_access)
        && (!r.ordered_access || o.ordered_access)
    }),
    deadline: both(off.deadline, req.deadline, |o, r| {
      o.0.to_ticks() <= r.0.to_ticks()
    }),
    latency_budget: both(off.latency_budget, req.latency_budget, |o, r| {
      o.duration.to_ticks() <= r.duration.to_ticks()
    }),
    ownership: both(off.ownership, req.ownership, |o, r| {
      ownership_kind(o) == ownership_kind(r)
    }),
    liveliness: both(off.liveliness, req.liveliness, |o, r| {
      liveliness_rank(o) >= liveliness_rank(r)
        && liveliness_lease(o).to_ticks() <= liveliness_lease(r).to_ticks()
    }),
    reliability: both(off.reliability, req.reliability, |o, r| {
      reliability_rank(o) >= reliability_rank(r)
    }),
    destination_order: both(off.destination_order, req.destination_order, |o, r| {
      dest_order_rank(o) >= dest_order_rank(r)
    }),
  }
}

fn all_hold(r: &Rules) -> bool {
  r.durability
    && r.presentation
    && r.deadline
    && r.latency_budget
    && r.ownership
    && r.liveliness
    && r.reliability
    && r.destination_order
}

fn check_verdict(off: &QosPolicies, req: &QosPolicies) {
  let rules = reference(off, req);
  // through the public API only
  let verdict = off.compliance_failure_wrt(req);
  match verdict {
    None => assert!(all_hold(&rules), "matched although a request/offered rule is violated"),
    Some(QosPolicyId::Durability) => assert!(!rules.durability, "Durability blamed but compatible"),
    Some(QosPolicyId::Presentation) => {
      assert!(!rules.presentation, "Presentation blamed but compatible")
    }
    Some(QosPolicyId::Deadline) => assert!(!rules.deadline, "Deadline blamed but compatible"),
    Some(QosPolicyId::LatencyBudget) => {
      assert!(!rules.latency_budget, "LatencyBudget blamed but compatible")
    }
    Some(QosPolicyId::Ownership) => assert!(!rules.ownership, "Ownership blamed but compatible"),
    Some(QosPolicyId::Liveliness) => assert!(!rules.liveliness, "Liveliness blamed but compatible"),
    Some(QosPolicyId::Reliability) => {
      assert!(!rules.reliability, "Reliability blamed but compatible")
    }
    Some(QosPolicyId::DestinationOrder) => {
      assert!(!rules.destination_order, "DestinationOrder blamed but compatible")
    }
    Some(_) => panic!("a policy that takes no part in matching was blamed"),
  }
  vk_cover!(verdict.is_none(), "some pair matches");
  vk_cover!(verdict == Some(QosPolicyId::Liveliness), "liveliness can be blamed");
  vk_cover!(verdict == Some(QosPolicyId::Ownership), "ownership can be blamed");
  vk_cover!(verdict == Some(QosPolicyId::DestinationOrder), "last rule reachable");
}

/// Full statement: two complete, fully symbolic QoS sets.
#[cfg_attr(kani, kani::proof, kani::unwind(3))]
#[cfg_attr(verif_replay, test)]
fn c10_full_pair() {
  vk::begin("c10_full_pair");
  let off = any_qos();
  let req = any_qos();
  check_verdict(&off, &req);
  vk::end();
}

/// One policy at a time (everything else absent): localises a failure to the policy and
/// gives the per-policy rule its own solver query.
macro_rules! single_policy {
  ($name:ident, $field:ident, $gen:expr) => {
    #[cfg_attr(kani, kani::proof, kani::unwind(3))]
    #[cfg_attr(verif_replay, test)]
    fn $name() {
      vk::begin(stringify!($name));
      let mut off = QosPolicies::qos_none();
      let mut req = QosPolicies::qos_none();
      off.$field = opt($gen);
      req.$field = opt($gen);
      let rules = reference(&off, &req);
      let verdict = off.compliance_failure_wrt(&req);
      assert!(verdict.is_none() == all_hold(&rules), "verdict differs from the DDS rule");
      vk_cover!(verdict.is_none() && off.$field.is_some() && req.$field.is_some());
      vk_cover!(verdict.is_some());
      vk::end();
    }
  };
}
single_policy!(c10_only_durability, durability, any_durability);
single_policy!(c10_only_presentation, presentation, any_presentation);
single_policy!(c10_only_deadline, deadline, || Deadline(any_duration()));
single_policy!(c10_only_latency_budget, latency_budget, || LatencyBudget {
  duration: any_duration()
});
single_policy!(c10_only_ownership, ownership, any_ownership);
single_policy!(c10_only_liveliness, liveliness, any_liveliness);
single_policy!(c10_only_reliability, reliability, any_reliability);
single_policy!(c10_only_destination_order, destination_order, any_dest_order);

/// Policies that take no part in matching never influence the verdict.
#[cfg_attr(kani, kani::proof, kani::unwind(3))]
#[cfg_attr(verif_replay, test)]
fn c10_unmatched_policies_irrelevant() {
  vk::begin("c10_unmatched_policies_irrelevant");
  let off = any_qos();
  let req = any_qos();
  let v1 = off.compliance_failure_wrt(&req);
  let mut off2 = off.clone();
  let mut req2 = req.clone();
  off2.history = opt(any_history);
  req2.history = opt(any_history);
  off2.time_based_filter = None;
  req2.lifespan = None;
  off2.resource_limits = None;
  let v2 = off2.compliance_failure_wrt(&req2);
  assert!(v1 == v2, "a non-matching policy changed the verdict");
  vk_cover!(v1.is_some());
  vk::end();
}
