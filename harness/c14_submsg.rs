// C14 harnesses on the fixed-shape submessage bodies and on submessage framing — child
// module of crate::rtps::submessage.
//
// Pattern of every harness: build a value with every field symbolic, serialise it with the
// REAL Writable impl in a symbolic byte order, parse the bytes with the REAL Readable impl /
// decoder, assert equality; for the kinds RustDDS builds a submessage header for, assert
// that header.content_length is the number of body bytes actually written, that it is a
// multiple of 4, and that the framed bytes (Submessage::write_to) carry kind / flags /
// length such that the body decodes from exactly bytes[4 .. 4+length].
#![allow(dead_code, unused_imports, unused_macros, clippy::all)]
use super::*;
use crate::{
  messages::{
    header::Header, protocol_id::ProtocolId, protocol_version::ProtocolVersion,
    vendor_id::VendorId,
  },
  structure::{
    guid::{EntityId, EntityKind, GuidPrefix},
    locator::Locator,
    sequence_number::{FragmentNumber, SequenceNumber},
  },
  verif_vk as vk,
  verif_vk::vk_cover,
};
use speedy::Endianness;

// ------------------------------------------------------------------------- generators

/// Ok value or a failed assertion; the error object is forgotten (its drop glue and Debug
/// formatting are not the subject and are expensive to encode).
macro_rules! must {
  ($r:expr, $msg:literal) => {
    match $r {
      Ok(v) => v,
      Err(e) => {
        core::mem::forget(e);
        panic!($msg)
      }
    }
  };
}
pub(crate) use must;

pub(crate) fn any_endianness() -> Endianness {
  if vk::any::<bool>() {
    Endianness::LittleEndian
  } else {
    Endianness::BigEndian
  }
}

pub(crate) fn any_entity_id() -> EntityId {
  EntityId {
    entity_key: [vk::any(), vk::any(), vk::any()],
    entity_kind: EntityKind::from(vk::any::<u8>()),
  }
}

pub(crate) fn any_guid_prefix() -> GuidPrefix {
  GuidPrefix {
    bytes: [
      vk::any(),
      vk::any(),
      vk::any(),
      vk::any(),
      vk::any(),
      vk::any(),
      vk::any(),
      vk::any(),
      vk::any(),
      vk::any(),
      vk::any(),
      vk::any(),
    ],
  }
}

pub(crate) fn any_sn() -> SequenceNumber {
  SequenceNumber::new(vk::any::<i64>())
}

pub(crate) fn any_fn() -> FragmentNumber {
  FragmentNumber::new(vk::any::<u32>())
}

pub(crate) fn eid_eq(a: &EntityId, b: &EntityId) -> bool {
  a.entity_key[0] == b.entity_key[0]
    && a.entity_key[1] == b.entity_key[1]
    && a.entity_key[2] == b.entity_key[2]
    && u8::from(a.entity_kind) == u8::from(b.entity_kind)
}

pub(crate) fn prefix_eq(a: &GuidPrefix, b: &GuidPrefix) -> bool {
  let mut ok = true;
  let mut i = 0;
  while i < 12 {
    ok &= a.bytes[i] == b.bytes[i];
    i += 1;
  }
  ok
}

/// What a conforming receiver does with a framed submessage: kind, flags, and
/// octetsToNextHeader in the byte order announced by flag bit 0.
pub(crate) fn framed_len(bytes: &[u8]) -> usize {
  if bytes[1] & 1 == 1 {
    (bytes[2] as usize) | ((bytes[3] as usize) << 8)
  } else {
    ((bytes[2] as usize) << 8) | (bytes[3] as usize)
  }
}

/// Frame a built submessage with the real Submessage::write_to and check the header bytes
/// against the body bytes; returns the framed bytes.
pub(crate) fn frame_and_check(sm: &Submessage, kind: u8, body_len: usize) -> Vec<u8> {
  // the outer context is irrelevant by construction (header decides); use the opposite one
  // of the body to make sure
  let outer = if sm.header.flags & 1 == 1 {
    Endianness::BigEndian
  } else {
    Endianness::LittleEndian
  };
  let framed = must!(sm.write_to_vec_with_ctx(outer), "framing a built submessage failed");
  assert!(framed.len() == 4 + body_len, "framed size != 4 + body size");
  assert!(framed[0] == kind, "submessage kind byte");
  assert!(framed[1] == sm.header.flags, "flags byte differs from the header");
  assert!(
    framed_len(&framed) == body_len,
    "octetsToNextHeader on the wire differs from the number of body bytes that follow"
  );
  assert!(body_len % 4 == 0, "submessage body is not a multiple of 4 bytes");
  framed
}

// ------------------------------------------------------------------------- HEARTBEAT

#[cfg_attr(kani, kani::proof, kani::unwind(14))]
#[cfg_attr(kani, kani::stub(std::fmt::format, crate::verif_env::stub_format))]
#[cfg_attr(verif_replay, test)]
fn c14_heartbeat_roundtrip() {
  vk::begin("c14_heartbeat_roundtrip");
  let e = any_endianness();
  let hb = Heartbeat {
    reader_id: any_entity_id(),
    writer_id: any_entity_id(),
    first_sn: any_sn(),
    last_sn: any_sn(),
    count: vk::any::<i32>(),
  };
  let bytes = must!(hb.write_to_vec_with_ctx(e), "Heartbeat does not serialise");
  assert!(bytes.len() == 28, "HEARTBEAT body is 28 bytes");
  let back = must!(
    Heartbeat::read_from_buffer_with_ctx(e, &bytes),
    "Heartbeat body does not parse back"
  );
  assert!(back == hb, "Heartbeat differs after write/read");

  // the submessage RustDDS builds around it: any flag combination the type allows
  let fl = BitFlags::<HEARTBEAT_Flags>::from_bits_truncate(vk::any::<u8>());
  let body_e = endianness_flag(fl.bits());
  let sm = match hb.clone().create_submessage(fl) {
    Some(sm) => sm,
    None => panic!("create_submessage refused a Heartbeat"),
  };
  assert!(sm.header.content_length as usize == bytes.len(), "content_length != body bytes");
  let framed = frame_and_check(&sm, 0x07, bytes.len());
  let hdr = must!(SubmessageHeader::read_from_buffer(&framed[0..4]), "header parse");
  assert!(hdr == sm.header, "submessage header differs after write/read");
  let back2 = must!(
    Heartbeat::read_from_buffer_with_ctx(body_e, &framed[4..]),
    "framed Heartbeat body does not parse"
  );
  assert!(back2 == hb, "Heartbeat differs after framing");
  vk_cover!(e == Endianness::BigEndian && hb.first_sn > SequenceNumber::new(1 << 32), "BE, SN above 2^32");
  vk_cover!(
    e == Endianness::LittleEndian && hb.count < 0 && fl.contains(HEARTBEAT_Flags::Liveliness),
    "LE, negative count, L flag"
  );
  core::mem::forget(sm);
  vk::end();
}

