// C05 harnesses — child module of crate::rtps::fragment_assembler (sees the private
// AssemblyBuffer and the fields of FragmentAssembler).
//
// Writer side: the real MessageBuilder::data_frag_msg (+ add_header_and_build, exactly as
// Writer::send_cache_change does per fragment number), DDSData::payload_size,
// DDSData::bytes_slice / SerializedPayload::bytes_slice, FragmentNumber::range_inclusive.
// Reader side: the real FragmentAssembler / AssemblyBuffer / SerializedPayload::from_bytes,
// DataFrag::total_number_of_fragments.
// The fragment COUNT the writer uses (Writer::num_frags_and_frag_size, a &self method of
// the Writer object) is decided equal to DataFrag::total_number_of_fragments for every
// (payload size, fragment size) in /verif/harness/fragw.rs.
#![allow(dead_code, unused_imports, unused_variables, unused_mut, clippy::all)]
use bytes::Bytes;
use speedy::Endianness;

use super::*;
use crate::{
  dds::with_key::datawriter::WriteOptions,
  messages::submessages::submessage::WriterSubmessage,
  rtps::{MessageBuilder, Submessage, SubmessageBody},
  structure::{
    cache_change::CacheChange,
    guid::{EntityId, EntityKind, GuidPrefix, GUID},
  },
  verif_vk as vk,
  verif_vk::vk_cover,
  RepresentationIdentifier,
};

pub(crate) const MAXN: usize = 32;

// bytes::Bytes has several internal representations.  The 'promotable' one (made from a
// Vec with len == capacity) keeps a tag in the low bit of a pointer and recovers the pointer
// with an integer-to-pointer cast when it is cloned/dropped/converted; CBMC cannot resolve
// such pointers (measured: clone + drop of ONE 4-byte promotable Bytes > 5 GB, the same on
// the Arc-backed representation 1.7 s).  Under Kani the harness therefore (a) hands the
// writer a payload in the Arc-backed representation (Vec with one byte of slack) and (b)
// replaces BytesMut::freeze by a function returning the same bytes in the Arc-backed
// representation.  The contents and every length are untouched; natively (replay) the real
// freeze and exact-capacity buffers are used.
#[cfg(kani)]
pub(crate) const VALUE_SLACK: usize = 1;
#[cfg(not(kani))]
pub(crate) const VALUE_SLACK: usize = 0;

#[cfg(kani)]
pub(crate) fn stub_freeze(this: BytesMut) -> Bytes {
  let n = this.len();
  let mut v: Vec<u8> = Vec::with_capacity(n + 1);
  v.extend_from_slice(&this[..]);
  core::mem::forget(this);
  Bytes::from(v)
} // upper bound of every payload length in the grid

pub(crate) fn writer_guid(n: u8) -> GUID {
  GUID::new(
    GuidPrefix {
      bytes: [n, 1, 2, 3, 4, 5, 6, 7, 8, 9, 10, 11],
    },
    EntityId::new([0, 0, n], EntityKind::WRITER_WITH_KEY_USER_DEFINED),
  )
}

/// What was written: the serialized payload (4 header bytes + value) as a plain array.
#[derive(Clone, Copy)]
pub(crate) struct Written {
  pub bytes: [u8; MAXN],
  pub n: usize,
  pub key: bool,
}

/// A sample of total serialized length `n` (concrete), every byte symbolic, as a
/// CacheChange the way the DataWriter hands it to the Writer.  `key`: a DisposeByKey
/// sample (fragmented with the Key flag) instead of a Data sample.
pub(crate) fn any_sample(n: usize, sn: i64, writer: u8, key: bool) -> (CacheChange, Written) {
  let mut w = Written {
    bytes: [0u8; MAXN],
    n,
    key,
  };
  let mut value: Vec<u8> = Vec::with_capacity(n - 4 + VALUE_SLACK);
  let mut i = 0;
  while i < n {
    let b: u8 = vk::any();
    w.bytes[i] = b;
    if i >= 4 {
      value.push(b);
    }
    i += 1;
  }
  let sp = SerializedPayload {
    representation_identifier: RepresentationIdentifier {
      bytes: [w.bytes[0], w.bytes[1]],
    },
    representation_options: [w.bytes[2], w.bytes[3]],
    value: Bytes::from(value),
  };
  let dds = if key {
    DDSData::new_disposed_by_key(ChangeKind::NotAliveDisposed, sp)
  } else {
    DDSData::new(sp)
  };
  (
    CacheChange::new(
      writer_guid(writer),
      SequenceNumber::new(sn),
      WriteOptions::default(),
      dds,
    ),
    w,
  )
}

pub(crate) type Frag = (DataFrag, BitFlags<DATAFRAG_Flags>);
pub(crate) const MAXF: usize = 4; // most fragments per sample in the grid
pub(crate) type Frags = [Option<Frag>; MAXF];

/// "The wire": a DataFrag with the same field values and the same payload bytes as `d`,
/// every scalar field and every length asserted equal to the concrete value expected at
/// position j (0-based) of nf fragments of an n-byte sample cut at f bytes.  Only values
/// that were asserted equal are replaced by their concrete twins, so nothing the writer
/// produced is assumed.  (Needed because CBMC does not propagate constants through the
/// heap-allocated Vec<Submessage> the DataFrag is read from: with the fields read from
/// there, AssemblyBuffer::new's allocation size is "symbolic" for the solver -> > 5 GB.)
pub(crate) fn wire(
  d: &DataFrag,
  fl: BitFlags<DATAFRAG_Flags>,
  j: usize,
  nf: usize,
  f: u16,
  n: usize,
  sn: i64,
  writer: u8,
  key: bool,
) -> Frag {
  let wid = writer_guid(writer).entity_id;
  assert!(d.reader_id == EntityId::UNKNOWN);
  assert!(d.writer_id == wid, "DATAFRAG names another writer");
  assert!(d.writer_sn == SequenceNumber::new(sn), "DATAFRAG carries another sequence number");
  assert!(u32::from(d.fragment_starting_num) == (j as u32) + 1, "wrong fragment number");
  assert!(d.fragments_in_submessage == 1, "RustDDS sends one fragment per submessage");
  assert!(d.fragment_size == f, "fragment size differs from the writer's");
  assert!(d.data_size as usize == n, "sample size differs from the payload's serialized length");
  assert!(d.inline_qos.is_none());
  let want = if j + 1 < nf { f as usize } else { n - (nf - 1) * (f as usize) };
  assert!(d.serialized_payload.len() == want, "fragment carries the wrong number of bytes");
  assert!(fl.contains(DATAFRAG_Flags::Key) == key, "Key flag does not match the sample kind");
  assert!(fl.contains(DATAFRAG_Flags::Endianness) && !fl.contains(DATAFRAG_Flags::InlineQos));
  assert!(!fl.contains(DATAFRAG_Flags::NonStandardPayload));
  let mut v: Vec<u8> = Vec::with_capacity(want + VALUE_SLACK);
  let mut i = 0;
  while i < want {
    v.push(d.serialized_payload[i]);
    i += 1;
  }
  let mut flags = BitFlags::<DATAFRAG_Flags>::from_flag(DATAFRAG_Flags::Endianness);
  if key {
    flags |= DATAFRAG_Flags::Key;
  }
  (
    DataFrag {
      reader_id: EntityId::UNKNOWN,
      writer_id: wid,
      writer_sn: SequenceNumber::new(sn),
      fragment_starting_num: FragmentNumber::new((j as u32) + 1),
      fragments_in_submessage: 1,
      data_size: n as u32,
      fragment_size: f,
      inline_qos: None,
      serialized_payload: Bytes::from(v),
    },
    flags,
  )
}

/// Cut `cc` into DATAFRAG submessages exactly as Writer::send_cache_change does for a
/// writer whose fragment size (data_max_size_serialized) is `f`: one message per fragment
/// number 1..=num_frags, each built by the real MessageBuilder::data_frag_msg +
/// add_header_and_build, sample size from the real DDSData::payload_size.
pub(crate) fn writer_cut(cc: &CacheChange, f: u16, nf: usize, n: usize, sn: i64, writer: u8, key: bool) -> Frags {
  let data_size = cc.data_value.payload_size();
  assert!(data_size == n, "payload_size() is not header + value length");
  let mut out: Frags = [None, None, None, None];
  let mut count = 0usize;
  for frag_num in
    FragmentNumber::range_inclusive(FragmentNumber::new(1), FragmentNumber::new(nf as u32))
  {
    let msg = MessageBuilder::new()
      .data_frag_msg(
        cc,
        EntityId::UNKNOWN,
        cc.writer_guid,
        frag_num,
        f,
        data_size.try_into().unwrap(),
        Endianness::LittleEndian,
        None,
      )
      .add_header_and_build(cc.writer_guid.prefix);
    assert!(msg.submessages.len() == 1, "data_frag_msg did not add exactly one submessage");
    // The Message is inspected in place and leaked: popping / destructuring the Submessage
    // by value makes CBMC encode the drop glue of every SubmessageBody variant (measured
    // 130 s / 4.4 GB against 7 s).
    match &msg.submessages[0].body {
      SubmessageBody::Writer(WriterSubmessage::DataFrag(df, fl)) => {
        out[count] = Some(wire(df, *fl, count, nf, f, n, sn, writer, key));
      }
      _ => panic!("data_frag_msg built something else than a DATAFRAG"),
    }
    core::mem::forget(msg);
    count += 1;
  }
  assert!(count == nf);
  out
}

/// Feed fragment number `idx` (symbolic, 1..=nf).  Explicit case split: every call of the
/// real new_datafrag sees a DataFrag with concrete sizes.
/// The returned sample equals what was written, byte for byte.
pub(crate) fn assert_same(got: &DDSData, w: &Written) {
  let sp = match got {
    DDSData::Data { serialized_payload } => {
      assert!(!w.key, "a key (dispose) sample came back as a data sample");
      serialized_payload
    }
    DDSData::DisposeByKey { key, .. } => {
      assert!(w.key, "a data sample came back as a key (dispose) sample");
      key
    }
    DDSData::DisposeByKeyHash { .. } => panic!("reassembly produced a key hash"),
  };
  assert!(
    sp.representation_identifier.bytes[0] == w.bytes[0]
      && sp.representation_identifier.bytes[1] == w.bytes[1],
    "representation identifier differs from what was written"
  );
  assert!(
    sp.representation_options[0] == w.bytes[2] && sp.representation_options[1] == w.bytes[3],
    "representation options differ from what was written"
  );
  assert!(sp.value.len() == w.n - 4, "reassembled value has a different length");
  let v: &[u8] = &sp.value;
  let mut i = 0;
  while i + 4 < w.n {
    assert!(v[i] == w.bytes[4 + i], "reassembled value byte differs from what was written");
    i += 1;
  }
}

/// ceil(n/f) as the READER computes it from a DATAFRAG header (real
/// DataFrag::total_number_of_fragments); the writer's own Writer::num_frags_and_frag_size is
/// decided equal to it for every (n, f) in fragw.rs.
pub(crate) fn frag_count(f: u16, n: usize) -> usize {
  let probe = DataFrag {
    reader_id: EntityId::UNKNOWN,
    writer_id: EntityId::UNKNOWN,
    writer_sn: SequenceNumber::new(1),
    fragment_starting_num: FragmentNumber::new(1),
    fragments_in_submessage: 1,
    data_size: n as u32,
    fragment_size: f,
    inline_qos: None,
    serialized_payload: Bytes::new(),
  };
  let nf: usize = usize::from(probe.total_number_of_fragments());
  core::mem::forget(probe);
  assert!(nf * (f as usize) >= n && n > (nf - 1) * (f as usize), "fragment count is not ceil(n/f)");
  assert!(nf >= 2 && nf <= MAXF, "harness grid: 2..=4 fragments");
  nf
}

// ------------------------------------------------------------------------------------
// A written sample together with the DATAFRAGs the writer makes of it
// ------------------------------------------------------------------------------------
pub(crate) struct Sample {
  pub w: Written,
  pub frags: Frags,
  pub nf: usize,
  pub f: u16,
  pub n: usize,
  pub sn: i64,
  pub cc: CacheChange,
}

pub(crate) fn make_sample(f: u16, n: usize, sn: i64, writer: u8, key: bool) -> Sample {
  let (cc, w) = any_sample(n, sn, writer, key);
  let nf = frag_count(f, n);
  let frags = writer_cut(&cc, f, nf, n, sn, writer, key);
  Sample {
    w,
    frags,
    nf,
    f,
    n,
    sn,
    cc,
  }
}

impl Sample {
  pub fn full(&self) -> u32 {
    (1u32 << self.nf) - 1
  }
  pub fn seq(&self) -> SequenceNumber {
    SequenceNumber::new(self.sn)
  }
  pub fn frag(&self, j: usize) -> &Frag {
    self.frags[j].as_ref().unwrap()
  }
  pub fn finish(self) {
    core::mem::forget(self);
  }
}

pub(crate) fn any_garbage_n(n: usize) -> [u8; MAXN] {
  let mut g = [0u8; MAXN];
  let mut i = 0;
  while i < n {
    g[i] = vk::any();
    i += 1;
  }
  g
}
pub(crate) fn any_garbage() -> [u8; MAXN] {
  let mut g = [0u8; MAXN];
  let mut i = 0;
  while i < MAXN {
    g[i] = vk::any();
    i += 1;
  }
  g
}

/// Put the assembler into the state "fragments `have` (non-empty strict subset, bit j =
/// fragment j+1) of sample s have arrived": the assembly buffer is made by the real
/// AssemblyBuffer::new from one of the sample's DATAFRAGs; received ranges hold the written
/// bytes, ranges not yet received hold `garbage` (over-approximation of the zeros the real
/// code leaves there: whatever they hold must not matter and must not be disturbed).
pub(crate) fn insert_partial(fa: &mut FragmentAssembler, s: &Sample, have: u32, garbage: &[u8; MAXN]) {
  let mut ab = AssemblyBuffer::new(&s.frag(0).0);
  assert!(ab.fragment_count == s.nf && ab.buffer_bytes.len() == s.n && ab.received_bitmap.len() == s.nf);
  let fz = s.f as usize;
  let mut i = 0;
  while i < s.n {
    let got = have & (1 << (i / fz)) != 0;
    ab.buffer_bytes[i] = if got { s.w.bytes[i] } else { garbage[i] };
    i += 1;
  }
  let mut j = 0;
  while j < s.nf {
    ab.received_bitmap.set(j, have & (1 << j) != 0);
    j += 1;
  }
  ab.modified_time = Timestamp::from_ticks(vk::any::<u64>());
  let old = fa.assembly_buffers.insert(s.seq(), ab);
  assert!(old.is_none());
  core::mem::forget(old);
}

/// Invariant of a sample in assembly with fragment set `have` (non-empty, strict).
pub(crate) fn check_partial(fa: &FragmentAssembler, s: &Sample, have: u32, garbage: &[u8; MAXN]) {
  assert!(fa.is_partially_received(s.seq()), "partially received sample not tracked");
  let ab = fa.assembly_buffers.get(&s.seq()).unwrap();
  assert!(ab.fragment_count == s.nf, "fragment count of the assembly buffer changed");
  assert!(ab.buffer_bytes.len() == s.n, "assembly buffer length is not the sample size");
  assert!(ab.received_bitmap.len() == s.nf);
  let mut j = 0;
  while j < s.nf {
    assert!(
      ab.received_bitmap.get(j) == Some(have & (1 << j) != 0),
      "received-bitmap is not the set of fragments that arrived"
    );
    j += 1;
  }
  let fz = s.f as usize;
  let mut i = 0;
  while i < s.n {
    if have & (1 << (i / fz)) != 0 {
      assert!(ab.buffer_bytes[i] == s.w.bytes[i], "a received byte differs from what was written");
    } else {
      assert!(ab.buffer_bytes[i] == garbage[i], "a byte of a fragment that has not arrived was overwritten");
    }
    i += 1;
  }
}

// ------------------------------------------------------------------------------------
// H1 (inductive): ONE arrival, from ANY state of the assembly of one sample.
//   state  = set `have` of fragments that arrived since the last completion (any strict
//            subset of 1..N, empty = nothing in assembly / just completed)
//   arrival = any fragment idx in 1..N (a duplicate if idx in have)
// Decided: Some <=> have ∪ {idx} = 1..N; Some carries exactly the written bytes and leaves
// nothing in assembly; None leaves the state "have ∪ {idx}" (received bytes = written bytes,
// other bytes untouched).  By induction over the arrival sequence this gives, for arrival
// sequences of ANY length, order, duplication and omission: a sample is produced exactly
// when the distinct fragments since the last completion first cover 1..N, and it is the
// written sample.
// ------------------------------------------------------------------------------------
fn arrival_one(f: u16, n: usize, key: bool) {
  let s = make_sample(f, n, 7, 1, key);
  let garbage = any_garbage();
  let full = s.full();
  let have = vk::range_u32(0, full - 1);
  let idx = vk::range_usize(1, s.nf);
  let have2 = have | (1 << (idx - 1));
  // Case split on the arriving fragment and on "nothing in assembly": each real call starts
  // from a state of concrete shape and sees a DataFrag of concrete size.
  let mut j = 0;
  while j < s.nf {
    if idx == j + 1 {
      if have == 0 {
        let mut fa = FragmentAssembler::new(f);
        arrival_step(&mut fa, &s, j, have2, &[0u8; MAXN]);
        core::mem::forget(fa);
      } else {
        let mut fa = FragmentAssembler::new(f);
        insert_partial(&mut fa, &s, have, &garbage);
        arrival_step(&mut fa, &s, j, have2, &garbage);
        core::mem::forget(fa);
      }
    }
    j += 1;
  }
  vk_cover!(have2 == full && have & (1 << (idx - 1)) == 0, "the last missing fragment completes the sample");
  vk_cover!(have2 != full && have & (1 << (idx - 1)) != 0, "duplicate of a fragment while others are missing");
  vk_cover!(have == 0, "first fragment of a sample (or first after a completion)");
  s.finish();
}

/// Fragment j+1 (concrete) of sample s arrives; `have2` = set of fragments after the arrival.
fn arrival_step(fa: &mut FragmentAssembler, s: &Sample, j: usize, have2: u32, untouched: &[u8; MAXN]) {
  let others = fa.assembly_buffers.len() - if fa.is_partially_received(s.seq()) { 1 } else { 0 };
  let fr = s.frag(j);
  let got = fa.new_datafrag(&fr.0, fr.1);
  if have2 == s.full() {
    assert!(got.is_some(), "all fragments arrived but no sample was produced");
    let d = got.unwrap();
    assert_same(&d, &s.w);
    core::mem::forget(d);
    assert!(!fa.is_partially_received(s.seq()), "assembly buffer kept after completion");
    assert!(fa.assembly_buffers.len() == others);
  } else {
    assert!(got.is_none(), "an incomplete set of fragments produced a sample");
    core::mem::forget(got);
    check_partial(fa, s, have2, untouched);
    assert!(fa.assembly_buffers.len() == others + 1);
  }
}

macro_rules! c05_arrival {
  ($name:ident, $f:expr, $n:expr, $key:expr, $unw:expr) => {
    #[cfg_attr(kani, kani::proof, kani::unwind($unw))]
    #[cfg_attr(
      kani,
      kani::stub(crate::structure::time::Timestamp::now, crate::structure::time::verif_harness_env_time::stub_now),
      kani::stub(std::fmt::format, crate::verif_env::stub_format),
      kani::stub(bytes::BytesMut::freeze, stub_freeze)
    )]
    #[cfg_attr(verif_replay, test)]
    fn $name() {
      vk::begin(stringify!($name));
      arrival_one($f, $n, $key);
      vk::end();
    }
  };
}

// grid: f in {4, 5, 8} x n in {f+1, 2f-1, 2f, 2f+1, 3f, 3f+1}; the Key-flag variant on two points
c05_arrival!(c05_arrival_f4_n5, 4, 5, false, 34);
c05_arrival!(c05_arrival_f4_n7, 4, 7, false, 34);
c05_arrival!(c05_arrival_f4_n8, 4, 8, false, 34);
c05_arrival!(c05_arrival_f4_n9, 4, 9, false, 34);
c05_arrival!(c05_arrival_f4_n12, 4, 12, false, 34);
c05_arrival!(c05_arrival_f4_n13, 4, 13, false, 34);
c05_arrival!(c05_arrival_f5_n6, 5, 6, false, 34);
c05_arrival!(c05_arrival_f5_n9, 5, 9, false, 34);
c05_arrival!(c05_arrival_f5_n10, 5, 10, false, 34);
c05_arrival!(c05_arrival_f5_n11, 5, 11, false, 34);
c05_arrival!(c05_arrival_f5_n15, 5, 15, false, 34);
c05_arrival!(c05_arrival_f5_n16, 5, 16, false, 34);
c05_arrival!(c05_arrival_f8_n9, 8, 9, false, 34);
c05_arrival!(c05_arrival_f8_n15, 8, 15, false, 34);
c05_arrival!(c05_arrival_f8_n16, 8, 16, false, 34);
c05_arrival!(c05_arrival_f8_n17, 8, 17, false, 34);
c05_arrival!(c05_arrival_f8_n24, 8, 24, false, 34);
c05_arrival!(c05_arrival_f8_n25, 8, 25, false, 34);
c05_arrival!(c05_arrival_key_f4_n5, 4, 5, true, 34);
c05_arrival!(c05_arrival_key_f5_n11, 5, 11, true, 34);

// ------------------------------------------------------------------------------------
// H2 (inductive, two samples of one writer in assembly at the same time): sample B is in
// ANY partial state, sample A in ANY state; ANY fragment of A arrives.  A behaves exactly as
// if it were alone (H1's verdicts), and nothing of B changes: not its bitmap, not one byte
// of its buffer (received or not), it neither completes nor disappears.  By symmetry (the
// two instances swap which of the two has the lower sequence number and which is larger)
// this is "an arrival for SN a never changes a byte later returned for SN b".
// ------------------------------------------------------------------------------------
fn arrival_two(f: u16, n_a: usize, sn_a: i64, n_b: usize, sn_b: i64) {
  let a = make_sample(f, n_a, sn_a, 1, false);
  let b = make_sample(f, n_b, sn_b, 1, false);
  let garbage_a = any_garbage();
  let garbage_b = any_garbage();
  let have_a = vk::range_u32(0, a.full() - 1);
  let have_b = vk::range_u32(1, b.full() - 1);
  let idx = vk::range_usize(1, a.nf);
  let have2 = have_a | (1 << (idx - 1));
  let mut j = 0;
  while j < a.nf {
    if idx == j + 1 {
      if have_a == 0 {
        let mut fa = FragmentAssembler::new(f);
        insert_partial(&mut fa, &b, have_b, &garbage_b);
        arrival_step(&mut fa, &a, j, have2, &[0u8; MAXN]);
        check_partial(&fa, &b, have_b, &garbage_b);
        core::mem::forget(fa);
      } else {
        let mut fa = FragmentAssembler::new(f);
        insert_partial(&mut fa, &b, have_b, &garbage_b);
        insert_partial(&mut fa, &a, have_a, &garbage_a);
        arrival_step(&mut fa, &a, j, have2, &garbage_a);
        check_partial(&fa, &b, have_b, &garbage_b);
        core::mem::forget(fa);
      }
    }
    j += 1;
  }
  vk_cover!(have2 == a.full(), "A completes while B is still in assembly");
  vk_cover!(have_a == 0, "first fragment of A arrives while B is in assembly");
  vk_cover!(have2 != a.full() && have_a != 0, "A stays incomplete");
  a.finish();
  b.finish();
}

macro_rules! c05_two {
  ($name:ident, $f:expr, $na:expr, $sna:expr, $nb:expr, $snb:expr, $unw:expr) => {
    #[cfg_attr(kani, kani::proof, kani::unwind($unw))]
    #[cfg_attr(
      kani,
      kani::stub(crate::structure::time::Timestamp::now, crate::structure::time::verif_harness_env_time::stub_now),
      kani::stub(std::fmt::format, crate::verif_env::stub_format),
      kani::stub(bytes::BytesMut::freeze, stub_freeze)
    )]
    #[cfg_attr(verif_replay, test)]
    fn $name() {
      vk::begin(stringify!($name));
      arrival_two($f, $na, $sna, $nb, $snb);
      vk::end();
    }
  };
}
c05_two!(c05_two_samples_f4_a5_b9, 4, 5, 7, 9, 8, 34);
c05_two!(c05_two_samples_f4_a9_b5, 4, 9, 8, 5, 7, 34);
// (A: n=11 / N=3 at f=5 with B in assembly exceeded the 8 GB cap: replaced by A: n=9)
c05_two!(c05_two_samples_f5_a9_b6, 5, 9, 3, 6, 4, 34);
c05_two!(c05_two_samples_f5_a6_b11, 5, 6, 4, 11, 3, 34);

// ------------------------------------------------------------------------------------
// H3: what "once" rests on.  The assembler forgets a sample the moment it completes, so a
// complete second round of (duplicate) fragments reassembles the SAME sample a second time:
// FragmentAssembler alone does not give at-most-once.  Reader::handle_datafrag_msg passes
// every completed sample to process_received_data, whose first action is the writer
// proxy's duplicate filter  `if should_ignore_change(sn) { return }  received_changes_add(sn)`.
// This harness runs two full rounds through the real assembler and that filter (real
// RtpsWriterProxy): two completions, identical bytes, ONE acceptance.
// ------------------------------------------------------------------------------------
fn once_via_proxy(f: u16, n: usize, sn: i64) {
  use crate::rtps::rtps_writer_proxy::RtpsWriterProxy;
  let s = make_sample(f, n, sn, 1, false);
  let mut proxy = RtpsWriterProxy::new(writer_guid(1), Vec::new(), Vec::new(), EntityId::UNKNOWN);
  let mut fa = FragmentAssembler::new(f);
  let mut completions = 0u32;
  let mut accepted = 0u32;
  let mut ts = 1u64;
  let mut round = 0;
  while round < 2 {
    let mut j = 0;
    while j < s.nf {
      // second round in reverse order
      let k = if round == 0 { j } else { s.nf - 1 - j };
      let fr = s.frag(k);
      let got = fa.new_datafrag(&fr.0, fr.1);
      assert!(got.is_some() == (j + 1 == s.nf), "completion not exactly at the last fragment of the round");
      if let Some(d) = got {
        assert_same(&d, &s.w);
        core::mem::forget(d);
        completions += 1;
        // Reader::process_received_data, stateful reader
        if !proxy.should_ignore_change(s.seq()) {
          proxy.received_changes_add(s.seq(), Timestamp::from_ticks(ts));
          accepted += 1;
        }
        ts += 1;
      }
      j += 1;
    }
    round += 1;
  }
  assert!(completions == 2, "RustDDS reassembles a fully duplicated sample again (documented behaviour)");
  assert!(accepted == 1, "the duplicate filter of the writer proxy let a reassembled duplicate through");
  assert!(!fa.is_partially_received(s.seq()));
  vk_cover!(completions == 2 && accepted == 1, "second reassembly filtered");
  core::mem::forget(fa);
  core::mem::forget(proxy);
  s.finish();
}

macro_rules! c05_once {
  ($name:ident, $f:expr, $n:expr, $sn:expr, $unw:expr) => {
    #[cfg_attr(kani, kani::proof, kani::unwind($unw))]
    #[cfg_attr(
      kani,
      kani::stub(crate::structure::time::Timestamp::now, crate::structure::time::verif_harness_env_time::stub_now),
      kani::stub(std::fmt::format, crate::verif_env::stub_format),
      kani::stub(bytes::BytesMut::freeze, stub_freeze)
    )]
    #[cfg_attr(verif_replay, test)]
    fn $name() {
      vk::begin(stringify!($name));
      once_via_proxy($f, $n, $sn);
      vk::end();
    }
  };
}
c05_once!(c05_once_via_proxy_f4_n5_sn1, 4, 5, 1, 34);
c05_once!(c05_once_via_proxy_f5_n11_sn3, 5, 11, 3, 34);

// ------------------------------------------------------------------------------------
// H4: is_partially_received / missing_frags_for (what NACKFRAG is built from, C03): for a
// sample in assembly with ANY non-empty strict subset of its fragments, missing_frags_for
// yields exactly the complement, in ascending order; for a sample not in assembly it yields
// nothing.  Checked on a constructed state and on the state the real code reaches after
// one arrival.
// ------------------------------------------------------------------------------------
fn missing_mask(fa: &FragmentAssembler, sn: SequenceNumber, nf: usize) -> u32 {
  let mut m = 0u32;
  let mut prev = 0u32;
  let mut it = fa.missing_frags_for(sn);
  // at most nf items, then None: nf+1 calls (concrete trip count; the iterator's own search
  // loop is the only symbolic one)
  let mut c = 0;
  let mut ended = false;
  while c <= nf {
    match it.next() {
      Some(fnum) => {
        assert!(!ended, "iterator yields again after None");
        let v = u32::from(fnum);
        assert!(v >= 1 && v as usize <= nf, "missing fragment number outside 1..N");
        assert!(v > prev, "missing fragments not in ascending order / repeated");
        prev = v;
        m |= 1 << (v - 1);
      }
      None => ended = true,
    }
    c += 1;
  }
  assert!(ended, "missing_frags_for yields more than N fragments");
  core::mem::forget(it);
  m
}

fn missing_frags(f: u16, n: usize) {
  let s = make_sample(f, n, 7, 1, false);
  let garbage = any_garbage_n(n);
  let full = s.full();
  let have = vk::range_u32(1, full - 1);
  let mut fa = FragmentAssembler::new(f);
  assert!(!fa.is_partially_received(s.seq()));
  assert!(missing_mask(&fa, s.seq(), s.nf) == 0, "fragments reported missing for a sample that is not in assembly");
  insert_partial(&mut fa, &s, have, &garbage);
  assert!(fa.is_partially_received(s.seq()));
  assert!(missing_mask(&fa, s.seq(), s.nf) == full & !have, "missing_frags_for is not the complement of what arrived");
  assert!(missing_mask(&fa, SequenceNumber::new(s.sn + 1), s.nf) == 0);
  // state reached by the real code: one arrival into an empty assembler
  let idx = vk::range_usize(1, s.nf);
  let mut j = 0;
  while j < s.nf {
    if idx == j + 1 {
      let mut fb = FragmentAssembler::new(f);
      let fr = s.frag(j);
      let got = fb.new_datafrag(&fr.0, fr.1);
      assert!(got.is_none());
      core::mem::forget(got);
      assert!(fb.is_partially_received(s.seq()));
      assert!(missing_mask(&fb, s.seq(), s.nf) == full & !(1 << j), "after one arrival every other fragment must be reported missing");
      core::mem::forget(fb);
    }
    j += 1;
  }
  vk_cover!(have.count_ones() as usize == s.nf - 1, "exactly one fragment missing");
  vk_cover!(have.count_ones() == 1, "all but one missing");
  core::mem::forget(fa);
  s.finish();
}

macro_rules! c05_missing {
  ($name:ident, $f:expr, $n:expr, $unw:expr) => {
    #[cfg_attr(kani, kani::proof, kani::unwind($unw))]
    #[cfg_attr(
      kani,
      kani::stub(crate::structure::time::Timestamp::now, crate::structure::time::verif_harness_env_time::stub_now),
      kani::stub(std::fmt::format, crate::verif_env::stub_format),
      kani::stub(bytes::BytesMut::freeze, stub_freeze)
    )]
    #[cfg_attr(verif_replay, test)]
    fn $name() {
      vk::begin(stringify!($name));
      missing_frags($f, $n);
      vk::end();
    }
  };
}
c05_missing!(c05_missing_frags_f4_n9, 4, 9, 11);
c05_missing!(c05_missing_frags_f5_n16, 5, 16, 18);

// ------------------------------------------------------------------------------------
// H5: garbage_collect_before drops exactly the assembly buffers not modified since the
// threshold and does not disturb the ones it keeps (a dropped partial sample is simply no
// longer "partially received"; the reliable protocol re-requests it as a whole).
// ------------------------------------------------------------------------------------
fn gc_two(f: u16, n_a: usize, n_b: usize) {
  let a = make_sample(f, n_a, 7, 1, false);
  let b = make_sample(f, n_b, 8, 1, false);
  let garbage_a = any_garbage();
  let garbage_b = any_garbage();
  let have_a = vk::range_u32(1, a.full() - 1);
  let have_b = vk::range_u32(1, b.full() - 1);
  let mut fa = FragmentAssembler::new(f);
  insert_partial(&mut fa, &a, have_a, &garbage_a);
  insert_partial(&mut fa, &b, have_b, &garbage_b);
  let ta = fa.assembly_buffers.get(&a.seq()).unwrap().modified_time;
  let tb = fa.assembly_buffers.get(&b.seq()).unwrap().modified_time;
  let limit = Timestamp::from_ticks(vk::any::<u64>());
  fa.garbage_collect_before(limit);
  assert!(fa.is_partially_received(a.seq()) == (ta >= limit), "GC kept/dropped the wrong buffer");
  assert!(fa.is_partially_received(b.seq()) == (tb >= limit), "GC kept/dropped the wrong buffer");
  if ta >= limit {
    check_partial(&fa, &a, have_a, &garbage_a);
  }
  if tb >= limit {
    check_partial(&fa, &b, have_b, &garbage_b);
  }
  vk_cover!(ta >= limit && tb < limit, "older of two dropped");
  vk_cover!(ta < limit && tb >= limit, "the other way round");
  core::mem::forget(fa);
  a.finish();
  b.finish();
}

#[cfg_attr(kani, kani::proof, kani::unwind(34))]
#[cfg_attr(
  kani,
  kani::stub(crate::structure::time::Timestamp::now, crate::structure::time::verif_harness_env_time::stub_now),
  kani::stub(std::fmt::format, crate::verif_env::stub_format),
  kani::stub(bytes::BytesMut::freeze, stub_freeze)
)]
#[cfg_attr(verif_replay, test)]
fn c05_gc_keeps_others_intact() {
  vk::begin("c05_gc_keeps_others_intact");
  gc_two(4, 9, 5);
  vk::end();
}
