// C06 (hostile-field half) harnesses on FragmentAssembler / AssemblyBuffer — child module of
// crate::rtps::fragment_assembler (sees the private AssemblyBuffer and its fields).
//
// Input: DataFrag STRUCTS with hostile numeric fields, constrained by EXACTLY what reaches
// FragmentAssembler::new_datafrag from the network today and nothing more:
//   DataFrag::deserialize            (D1) writer_sn >= 1
//                                    (D2) 1 <= fragment_size <= data_size
//                                    (D3) 1 <= fragment_starting_num <= total_number_of_fragments()
//   MessageReceiver::decode_and_handle_datafrag
//                                    (M1) payload.len() <= fragments_in_submessage * fragment_size
//   Reader::handle_datafrag_msg      one FragmentAssembler per writer GUID, created with the
//                                    fragment_size of the FIRST DATAFRAG ever seen from that
//                                    writer; no further check
// ((D1)-(D3) are decided to be what deserialize enforces in c06_data.rs, c06_datafrag_parse_*.)
// fragments_in_submessage (0..65535), data_size, fragment_size and fragment_starting_num of a
// later DATAFRAG are NOT tied to the sample's first DATAFRAG nor to the assembler's size.
//
// Shapes that decide an allocation are concrete per instance (data_size of the DATAFRAG that
// creates an assembly buffer, payload length); everything else is symbolic at full width.
//
// Inductive formulation: ONE hostile DATAFRAG arrives at an assembler in ANY state the
// harness family covers (assembler fragment size F0 ANY u16 >= 1; the sample either has no
// assembly buffer yet, or one created by ANY earlier DATAFRAG (data_size DA concrete, its
// fragment_size ANY) holding ANY set of received fragments).  Panic-freedom of the step for
// every such state gives panic-freedom for every SEQUENCE of DATAFRAGs.
#![allow(dead_code, unused_imports, unused_macros, unused_variables, unused_mut, clippy::all)]
use bytes::Bytes;

use super::*;
use crate::{
  structure::{
    guid::{EntityId, EntityKind},
    sequence_number::verif_harness_c06_numset::any_bytes,
  },
  verif_vk as vk,
  verif_vk::vk_cover,
};

// ------------------------------------------------------------------------- finding flags
// Placeholders until the lead generates them from known_findings.json into crate::verif_cfg.
// true = finding OPEN: the general harnesses exclude exactly the class, c06_finding_* pins it.
/// (X1) fragments_in_submessage >= 1 and fragment_starting_num - 1 + fragments_in_submessage >
/// fragment count of the sample's assembly buffer: AssemblyBuffer::insert_frags sets received_bitmap bits beyond its length
/// -> BitVec::set panics "index out of bounds".  ONE datagram suffices.
pub(crate) const KF_C06_FRAG_COUNT_OVERRUN: bool = crate::verif_cfg::KF_C06_FRAG_COUNT_OVERRUN; // generated from /verif/known_findings.json: true while the finding is open
/// (X2) (fragment_starting_num - 1) * (assembler fragment size) > length of the sample's
/// assembly buffer: `to_before_byte - from_byte` underflows (usize) in insert_frags.  Needs a
/// DATAFRAG that disagrees with an earlier one (same SN: other data_size / fragment_size;
/// other SN of the same writer: smaller fragment_size).
pub(crate) const KF_C06_FRAG_INCONSISTENT: bool = crate::verif_cfg::KF_C06_FRAG_INCONSISTENT; // generated from /verif/known_findings.json: true while the finding is open

#[cfg(kani)]
pub(crate) fn stub_freeze(this: BytesMut) -> Bytes {
  // see /verif/harness/frag.rs: the 'promotable' Bytes representation freeze() returns is
  // intractable for CBMC; same bytes in the Arc-backed representation
  let n = this.len();
  let mut v: Vec<u8> = Vec::with_capacity(n + 1);
  v.extend_from_slice(&this[..]);
  core::mem::forget(this);
  Bytes::from(v)
}

macro_rules! frag_proof {
  ($name:ident, $unwind:expr, $body:expr) => {
    #[cfg_attr(kani, kani::proof, kani::unwind($unwind))]
    #[cfg_attr(
      kani,
      kani::stub(crate::structure::time::Timestamp::now, crate::structure::time::verif_harness_env_time::stub_now),
      kani::stub(std::fmt::format, crate::verif_env::stub_format),
      kani::stub(bytes::BytesMut::freeze, stub_freeze),
      kani::stub(alloc::vec::from_elem, crate::verif_env::stub_vec_from_elem)
    )]
    #[cfg_attr(verif_replay, test)]
    fn $name() {
      crate::verif_vk::begin(stringify!($name));
      $body;
      crate::verif_vk::end();
    }
  };
}

const SN: i64 = 7;

fn any_entity_id() -> EntityId {
  EntityId {
    entity_key: [vk::any(), vk::any(), vk::any()],
    entity_kind: EntityKind::from(vk::any::<u8>()),
  }
}

/// A DataFrag as the wire lets it through: (D1)-(D3), (M1) assumed, nothing else.
/// `data_size`: Some(d) = concrete (this DATAFRAG may create an assembly buffer), None = any u32.
/// Payload: P arbitrary bytes (P concrete).
fn hostile_datafrag<const P: usize>(sn: i64, data_size: Option<u32>) -> DataFrag {
  let payload = any_bytes::<P>();
  let df = DataFrag {
    reader_id: any_entity_id(),
    writer_id: any_entity_id(),
    writer_sn: SequenceNumber::new(sn),
    fragment_starting_num: FragmentNumber::new(vk::any::<u32>()),
    fragments_in_submessage: vk::any::<u16>(),
    data_size: match data_size {
      Some(d) => d,
      None => vk::any::<u32>(),
    },
    fragment_size: vk::any::<u16>(),
    inline_qos: None,
    serialized_payload: crate::verif_env::shared_bytes(&payload),
  };
  vk::assume(sn >= 1); // D1
  vk::assume(df.fragment_size >= 1 && (df.fragment_size as u32) <= df.data_size); // D2
  vk::assume(
    df.fragment_starting_num >= FragmentNumber::new(1)
      && df.fragment_starting_num <= df.total_number_of_fragments(),
  ); // D3
  vk::assume(P <= (df.fragments_in_submessage as usize) * (df.fragment_size as usize)); // M1
  df
}

fn x1_count_overrun(df: &DataFrag, fragment_count: usize) -> bool {
  let s0 = u32::from(df.fragment_starting_num) as usize - 1;
  let k = df.fragments_in_submessage as usize;
  // bits s0 .. s0+k-1 are set: out of range iff there is at least one and the last is >= count
  k >= 1 && s0 + k > fragment_count
}
fn x2_start_beyond_buffer(df: &DataFrag, f0: u16, buffer_len: usize) -> bool {
  let s0 = u32::from(df.fragment_starting_num) as usize - 1;
  s0 * (f0 as usize) > buffer_len
}

fn any_flags() -> BitFlags<DATAFRAG_Flags> {
  BitFlags::<DATAFRAG_Flags>::from_bits_truncate(vk::any::<u8>())
}

/// What must hold after the call whatever arrived: at most one buffer for the SN, of the
/// size and fragment count it was created with.
fn check_after(fa: &FragmentAssembler, out: &Option<DDSData>, len: usize, count: usize) {
  match fa.assembly_buffers.get(&SequenceNumber::new(SN)) {
    Some(ab) => {
      assert!(out.is_none(), "sample returned but its assembly buffer kept");
      assert!(ab.buffer_bytes.len() == len, "assembly buffer length changed");
      assert!(ab.fragment_count == count && ab.received_bitmap.len() == count, "fragment count changed");
    }
    None => {}
  }
}

// ------------------------------------------------------------------------- first DATAFRAG of a writer
// Fresh assembler, created (as Reader::fragment_assembler_mutable does) with the fragment
// size of this very DATAFRAG.  data_size D concrete, payload P concrete; fragment_size,
// fragment_starting_num, fragments_in_submessage, flags, ids, payload bytes symbolic.
fn first<const D: u32, const P: usize>(exclude_x1: bool, pin_k: Option<u16>) {
  let df = hostile_datafrag::<P>(SN, Some(D));
  let count = u32::from(df.total_number_of_fragments()) as usize;
  if exclude_x1 {
    vk::assume(!x1_count_overrun(&df, count));
  }
  if let Some(k) = pin_k {
    vk::assume(df.fragments_in_submessage <= k);
  }
  let flags = any_flags();
  let mut fa = FragmentAssembler::new(df.fragment_size);
  let out = fa.new_datafrag(&df, flags);
  check_after(&fa, &out, D as usize, count);
  let s = u32::from(df.fragment_starting_num);
  vk_cover!(P > 0 || (out.is_none() && df.fragments_in_submessage == 0), "fragmentsInSubmessage 0: buffer created, nothing marked");
  vk_cover!(
    if D >= 4 { out.is_some() } else { out.is_none() && fa.assembly_buffers.len() == 0 },
    "all fragments in one DATAFRAG: sample completes (sample < 4 bytes: no SerializedPayload header, dropped)"
  );
  vk_cover!(P >= D as usize || (out.is_none() && s as usize == count && count > 1), "last fragment first");
  core::mem::forget(out);
  core::mem::forget(fa);
  core::mem::forget(df);
}
frag_proof!(c06_frag_first_d8_p0, 12, first::<8, 0>(KF_C06_FRAG_COUNT_OVERRUN, None));
frag_proof!(c06_frag_first_d8_p4, 12, first::<8, 4>(KF_C06_FRAG_COUNT_OVERRUN, None));
frag_proof!(c06_frag_first_d8_p8, 12, first::<8, 8>(KF_C06_FRAG_COUNT_OVERRUN, None));
frag_proof!(c06_frag_first_d3_p3, 12, first::<3, 3>(KF_C06_FRAG_COUNT_OVERRUN, None));
frag_proof!(c06_frag_first_d13_p5, 16, first::<13, 5>(KF_C06_FRAG_COUNT_OVERRUN, None));

// ------------------------------------------------------------------------- step, sample already in assembly
// State: assembler fragment size F0 ANY; assembly buffer for SN made by the real
// AssemblyBuffer::new from a DATAFRAG with data_size DA (concrete) and ANY fragment_size FA,
// ANY subset of its fragments marked received.  Arrival: hostile DATAFRAG for the same SN,
// all five numeric fields symbolic at full width, payload P bytes.
fn step_existing<const DA: u32, const P: usize>(exclude_x1: bool, exclude_x2: bool, pin_k: Option<u16>) {
  let f0: u16 = vk::any();
  vk::assume(f0 >= 1);
  // the DATAFRAG that created the buffer (only data_size and fragment_size are used by new())
  let fa_size: u16 = vk::any();
  vk::assume(fa_size >= 1 && (fa_size as u32) <= DA);
  let creator = DataFrag {
    reader_id: EntityId::UNKNOWN,
    writer_id: EntityId::UNKNOWN,
    writer_sn: SequenceNumber::new(SN),
    fragment_starting_num: FragmentNumber::new(1),
    fragments_in_submessage: 1,
    data_size: DA,
    fragment_size: fa_size,
    inline_qos: None,
    serialized_payload: Bytes::new(),
  };
  let mut ab = AssemblyBuffer::new(&creator);
  let count = ab.fragment_count;
  assert!(ab.buffer_bytes.len() == DA as usize && ab.received_bitmap.len() == count && count >= 1 && count <= DA as usize);
  let have: u32 = vk::any();
  let mut j = 0;
  while j < count && j < 32 {
    ab.received_bitmap.set(j, have & (1 << j) != 0);
    j += 1;
  }
  let mut fa = FragmentAssembler::new(f0);
  let old = fa.assembly_buffers.insert(SequenceNumber::new(SN), ab);
  core::mem::forget(old);

  let df = hostile_datafrag::<P>(SN, None);
  if exclude_x1 {
    vk::assume(!x1_count_overrun(&df, count));
  }
  if exclude_x2 {
    vk::assume(!x2_start_beyond_buffer(&df, f0, DA as usize));
  }
  if let Some(k) = pin_k {
    vk::assume(df.fragments_in_submessage <= k);
  }
  let flags = any_flags();
  let out = fa.new_datafrag(&df, flags);
  check_after(&fa, &out, DA as usize, count);
  vk_cover!(
    out.is_none() && (df.data_size != DA || df.fragment_size != fa_size) && df.fragment_size != f0 && df.fragments_in_submessage >= 1,
    "DATAFRAG disagreeing with the sample's first one and with the assembler is absorbed"
  );
  vk_cover!(if DA >= 4 { out.is_some() } else { out.is_none() && fa.assembly_buffers.len() == 0 }, "completes the sample");
  vk_cover!(out.is_none() && df.data_size == u32::MAX, "sampleSize 2^32-1 in a later DATAFRAG");
  core::mem::forget(out);
  core::mem::forget(fa);
  core::mem::forget(df);
  core::mem::forget(creator);
}
frag_proof!(c06_frag_step_existing_d8_p0, 12, step_existing::<8, 0>(KF_C06_FRAG_COUNT_OVERRUN, KF_C06_FRAG_INCONSISTENT, None));
frag_proof!(c06_frag_step_existing_d8_p4, 12, step_existing::<8, 4>(KF_C06_FRAG_COUNT_OVERRUN, KF_C06_FRAG_INCONSISTENT, None));
frag_proof!(c06_frag_step_existing_d8_p8, 12, step_existing::<8, 8>(KF_C06_FRAG_COUNT_OVERRUN, KF_C06_FRAG_INCONSISTENT, None));
frag_proof!(c06_frag_step_existing_d8_p16, 12, step_existing::<8, 16>(KF_C06_FRAG_COUNT_OVERRUN, KF_C06_FRAG_INCONSISTENT, None));
frag_proof!(c06_frag_step_existing_d3_p2, 12, step_existing::<3, 2>(KF_C06_FRAG_COUNT_OVERRUN, KF_C06_FRAG_INCONSISTENT, None));
frag_proof!(c06_frag_step_existing_d13_p5, 16, step_existing::<13, 5>(KF_C06_FRAG_COUNT_OVERRUN, KF_C06_FRAG_INCONSISTENT, None));

// ------------------------------------------------------------------------- step, new sample of a known writer
// State: assembler fragment size F0 ANY (fixed by an EARLIER sample's DATAFRAG), nothing in
// assembly for this SN.  Arrival: hostile DATAFRAG, data_size D concrete (it creates the
// buffer), its own fragment_size ANY — in particular different from F0.
fn step_new<const D: u32, const P: usize>(exclude_x1: bool, exclude_x2: bool, pin_k: Option<u16>) {
  let f0: u16 = vk::any();
  vk::assume(f0 >= 1);
  let df = hostile_datafrag::<P>(SN, Some(D));
  let count = u32::from(df.total_number_of_fragments()) as usize;
  if exclude_x1 {
    vk::assume(!x1_count_overrun(&df, count));
  }
  if exclude_x2 {
    vk::assume(!x2_start_beyond_buffer(&df, f0, D as usize));
  }
  if let Some(k) = pin_k {
    vk::assume(df.fragments_in_submessage <= k);
  }
  let flags = any_flags();
  let mut fa = FragmentAssembler::new(f0);
  let out = fa.new_datafrag(&df, flags);
  check_after(&fa, &out, D as usize, count);
  vk_cover!(out.is_none() && f0 > df.fragment_size && u32::from(df.fragment_starting_num) > 1, "writer switched to a smaller fragment size, later fragment");
  vk_cover!(out.is_none() && f0 < df.fragment_size, "writer switched to a larger fragment size");
  vk_cover!(if D >= 4 { out.is_some() } else { out.is_none() }, "completes at once");
  core::mem::forget(out);
  core::mem::forget(fa);
  core::mem::forget(df);
}
frag_proof!(c06_frag_step_new_d8_p4, 12, step_new::<8, 4>(KF_C06_FRAG_COUNT_OVERRUN, KF_C06_FRAG_INCONSISTENT, None));
frag_proof!(c06_frag_step_new_d8_p8, 12, step_new::<8, 8>(KF_C06_FRAG_COUNT_OVERRUN, KF_C06_FRAG_INCONSISTENT, None));
frag_proof!(c06_frag_step_new_d8_p0, 12, step_new::<8, 0>(KF_C06_FRAG_COUNT_OVERRUN, KF_C06_FRAG_INCONSISTENT, None));
frag_proof!(c06_frag_step_new_d13_p5, 16, step_new::<13, 5>(KF_C06_FRAG_COUNT_OVERRUN, KF_C06_FRAG_INCONSISTENT, None));

// ------------------------------------------------------------------------- FINDINGS
// (X1) one DATAFRAG, fresh assembler, fragments_in_submessage runs past the last fragment
// (fragments_in_submessage <= 4 only to keep insert_frags' marking loop inside the unwind
// bound; any larger value fails the same way).
frag_proof!(c06_finding_frag_count_overrun, 12, first::<8, 8>(false, Some(4)));
// (X2) alone (X1 excluded): a later DATAFRAG for the same SN whose fragment_starting_num lies
// beyond the existing buffer -> usize underflow `to_before_byte - from_byte`
frag_proof!(c06_finding_frag_inconsistent_same_sn, 12, step_existing::<8, 4>(true, false, Some(4)));
// (X2) alone, other SN of the same writer with a smaller fragment_size than the writer's first
frag_proof!(c06_finding_frag_inconsistent_new_sn, 12, step_new::<8, 4>(true, false, Some(4)));

// ------------------------------------------------------------------------- FINDING: memory
// AssemblyBuffer::new allocates and zeroes data_size bytes (u32 from the wire, up to 4 GiB)
// plus a bitmap of ceil(data_size/fragment_size) bits on the FIRST fragment of a sample, and
// keeps them until FRAGMENT_ASSEMBLY_TIMEOUT.  Observable: capacity retained in the assembler
// after ONE DATAFRAG carrying 16 payload bytes.  Threshold 64 KiB (= the largest UDP datagram;
// a JUDGEMENT of what "out of proportion to the bytes received" means: 4096 x the payload).
// Sizes are concrete per call (CBMC needs concrete allocation sizes): the solver chooses
// between a 64-byte and a 128 KiB sample; everything else about the fragment is symbolic.
fn retained_after_one<const D: u32, const F: u16>() -> usize {
  let payload = any_bytes::<16>();
  let df = DataFrag {
    reader_id: any_entity_id(),
    writer_id: any_entity_id(),
    writer_sn: SequenceNumber::new(SN),
    fragment_starting_num: FragmentNumber::new(vk::range_u32(1, 4)),
    fragments_in_submessage: 1,
    data_size: D,
    fragment_size: F,
    inline_qos: None,
    serialized_payload: crate::verif_env::shared_bytes(&payload),
  };
  // what FragmentAssembler::new_datafrag does first for an SN it has no buffer for:
  //   self.assembly_buffers.entry(sn).or_insert_with(|| AssemblyBuffer::new(datafrag))
  // (the buffer is kept in the map until the sample completes or FRAGMENT_ASSEMBLY_TIMEOUT);
  // the copy of the 16 payload bytes into a large symbolic-offset array that follows is not
  // needed for the observable and exceeded 8 GB in CBMC.
  let ab = AssemblyBuffer::new(&df);
  let retained = ab.buffer_bytes.capacity() + ab.received_bitmap.capacity() / 8;
  assert!(ab.buffer_bytes.len() == D as usize);
  core::mem::forget(ab);
  core::mem::forget(df);
  retained
}

#[cfg_attr(kani, kani::proof, kani::unwind(12))]
#[cfg_attr(
  kani,
  kani::stub(crate::structure::time::Timestamp::now, crate::structure::time::verif_harness_env_time::stub_now),
  kani::stub(std::fmt::format, crate::verif_env::stub_format)
)]
#[cfg_attr(verif_replay, test)]
fn c06_finding_frag_alloc_data_size() {
  vk::begin("c06_finding_frag_alloc_data_size");
  let big: bool = vk::any();
  // 128 KiB sample in 8 fragments of 16 KiB / 64-byte sample in 4 fragments of 16 bytes
  // (a 1 MiB sample is decided as quickly, but CBMC ran out of memory writing the counterexample trace)
  let retained = if big { retained_after_one::<0x2_0000, 0x4000>() } else { retained_after_one::<64, 16>() };
  assert!(
    retained <= 65536,
    "memory retained after one 16-byte DATAFRAG exceeds 64 KiB (AssemblyBuffer::new allocates the sampleSize announced on the wire)"
  );
  vk_cover!(!big && retained >= 64, "64-byte sample: buffer retained, within the threshold");
  vk::end();
}
