// Environment stand-in for mio_source — child module of that file.
#![allow(dead_code, unused_imports, clippy::all)]
use super::*;

/// kani::stub target for make_poll_channel: dummy descriptors, no socketpair syscall.
#[cfg(kani)]
pub(crate) fn stub_make_poll_channel() -> io::Result<(PollEventSource, PollEventSender)> {
  use std::os::fd::FromRawFd;
  let a = unsafe { std::net::TcpStream::from_raw_fd(4) };
  let b = unsafe { std::net::TcpStream::from_raw_fd(5) };
  // One strong reference to the sender's stream is leaked on purpose: the real code drops
  // StatusChannelSenders (e.g. the completion channel of wait_for_acknowledgments), and the
  // last drop would close() the dummy descriptor — a foreign call Kani cannot model.
  let send = Arc::new(Mutex::new(TcpStream::from_std(b)));
  core::mem::forget(send.clone());
  Ok((
    PollEventSource {
      rec_mio_socket: Mutex::new(TcpStream::from_std(a)),
    },
    PollEventSender {
      send_mio_socket: send,
    },
  ))
}
#[cfg(not(kani))]
pub(crate) fn stub_make_poll_channel() -> io::Result<(PollEventSource, PollEventSender)> {
  make_poll_channel()
}

pub(crate) static mut POLL_EVENTS_SENT: usize = 0;
pub(crate) fn stub_send(_this: &PollEventSender) {
  unsafe {
    POLL_EVENTS_SENT += 1;
  }
}
pub(crate) fn stub_drain(_this: &PollEventSource) {}
