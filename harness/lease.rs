// C12 (lease expiry) and the DiscoveryDB half of C11 (c11_db_*) — child module of
// crate::discovery::discovery_db (sees the private maps of DiscoveryDB).
//
// TIME is the symbolic dimension.  DiscoveryDB reads the clock itself (`Instant::now()`
// inside update_participant / participant_is_alive / participant_cleanup), so
//  * under Kani `std::time::Instant::now` is stubbed by `stub_instant_now`: a fixed base
//    Instant plus the offset `NOW_OFF` the harness controls (symbolic, non-decreasing,
//    nanosecond resolution);
//  * natively (counterexample replay) there is no stubbing: the same schedule is
//    reproduced by BACK-DATING the stored last-life-sign Instants through the private
//    field `participant_last_life_signs` by the amount virtual time advances.  The real
//    clock adds the few 100 ns that pass between two calls, which only matters for
//    counterexamples that sit exactly on the lease boundary.
#![allow(dead_code, unused_imports, unused_variables, unused_mut, clippy::all)]
use std::time::{Duration as StdDuration, Instant};

use super::*;
use crate::{
  dds::{
    qos::QosPolicies,
    statusevents::{sync_status_channel, StatusChannelReceiver},
  },
  discovery::{builtin_endpoint::BuiltinEndpointSet, sedp_messages::PublicationBuiltinTopicData},
  messages::{protocol_version::ProtocolVersion, vendor_id::VendorId},
  structure::guid::EntityKind,
  verif_vk as vk,
  verif_vk::vk_cover,
};

// ------------------------------------------------------------------------------ clock
#[cfg(kani)]
pub(crate) static mut NOW_SECS: u64 = 0;
#[cfg(kani)]
pub(crate) static mut NOW_NANOS: u32 = 0;

/// kani::stub target for std::time::Instant::now
#[cfg(kani)]
pub(crate) fn stub_instant_now() -> Instant {
  let base: Instant = unsafe { core::mem::zeroed() };
  base + unsafe { StdDuration::new(NOW_SECS, NOW_NANOS) }
}

/// kani::stub target for chrono::Utc::now (SystemTime::now is a foreign call)
pub(crate) fn stub_utc_now() -> chrono::DateTime<Utc> {
  chrono::DateTime::<Utc>::UNIX_EPOCH
}

fn some_instant() -> Instant {
  #[cfg(kani)]
  {
    unsafe { core::mem::zeroed() }
  }
  #[cfg(not(kani))]
  {
    Instant::now()
  }
}

/// Virtual time since the start of the harness.
pub(crate) struct VClock {
  t: StdDuration,
}
impl VClock {
  pub fn new() -> Self {
    #[cfg(kani)]
    unsafe {
      NOW_SECS = 0;
      NOW_NANOS = 0;
    }
    VClock {
      t: StdDuration::ZERO,
    }
  }
  pub fn now(&self) -> StdDuration {
    self.t
  }
  /// Let `d` pass.  Kani: the stubbed clock moves forward.  Native: every stored life
  /// sign moves back.
  pub fn advance(&mut self, db: &mut DiscoveryDB, d: StdDuration) {
    self.t = self.t + d;
    #[cfg(kani)]
    unsafe {
      NOW_SECS = self.t.as_secs();
      NOW_NANOS = self.t.subsec_nanos();
    }
    #[cfg(not(kani))]
    {
      for v in db.participant_last_life_signs.values_mut() {
        *v = *v - d;
      }
    }
  }
}

/// Any std Duration below 2^31 s, nanosecond resolution (30 free bits of nanoseconds).
fn any_span() -> StdDuration {
  let s: u32 = vk::any();
  let n: u32 = vk::any();
  vk::assume(s < (1u32 << 31));
  vk::assume(n < 1_000_000_000);
  StdDuration::new(s as u64, n)
}

// `Duration::from_std` divides a 62-bit number by 10^9.  CBMC encodes u64 division with a
// 128-bit multiplier; with all 30 nanosecond bits free neither CaDiCaL, Kissat, Z3 nor
// cvc5 decided even `f*10^9 <= n*2^32 < (f+1)*10^9` within 300 s (measured).  Wherever the
// REAL from_std is in the loop, the sub-second part therefore comes from one of these
// families (<= 12 free bits), the whole-second part stays free (31 bits):
#[derive(Clone, Copy, PartialEq, Eq)]
pub(crate) enum Fam {
  Grid512, // n = k/512 s, k < 512: exactly representable in ticks (k << 23)
  LowNs,   // n = k ns, k < 4096: nanosecond resolution just above a whole second
  HighNs,  // n = 999_999_999 - k ns, k < 4096: nanosecond resolution just below one
  Millis,  // n = k ms, k < 1000
  Micros,  // n = 1000 * k ns, k < 4096 (microsecond steps)
}
fn any_span_in(f: Fam) -> StdDuration {
  let s: u32 = vk::any();
  let k: u32 = vk::any();
  vk::assume(s < (1u32 << 31));
  let n = match f {
    Fam::Grid512 => {
      vk::assume(k < 512);
      k * 1_953_125
    }
    Fam::LowNs => {
      vk::assume(k < 4096);
      k
    }
    Fam::HighNs => {
      vk::assume(k < 4096);
      999_999_999 - k
    }
    Fam::Millis => {
      vk::assume(k < 1000);
      k * 1_000_000
    }
    Fam::Micros => {
      vk::assume(k < 4096);
      k * 1000
    }
  };
  StdDuration::new(s as u64, n)
}

/// Lease as received from the wire: absent, or ANY 64-bit Duration_t (includes ZERO,
/// sub-second values, INFINITE = 0x7FFFFFFF_FFFFFFFF and negative seconds).
fn any_lease() -> Option<Duration> {
  if vk::any::<bool>() {
    Some(Duration::from_ticks(vk::any::<i64>()))
  } else {
    None
  }
}

// --------------------------------------------------------------- reference oracle
const C9: u64 = 1_000_000_000;
const INFINITE_TICKS: i64 = 0x7FFF_FFFF_FFFF_FFFF;

/// absent -> the 60 s default DiscoveryDB documents
fn lease_ticks(lease: Option<Duration>) -> i64 {
  match lease {
    Some(d) => d.to_ticks(),
    None => 60i64 << 32,
  }
}
/// Independent transcription of RTPS Duration_t for a span below 2^31 s:
/// ticks = s * 2^32 + floor(n * 2^32 / 10^9).
fn span_ticks(d: StdDuration) -> i64 {
  ((d.as_secs() as i64) << 32) + ((((d.subsec_nanos() as u64) << 32) / C9) as i64)
}

/// The C12 verdict obligation for one participant at one clean-up tick, in RTPS ticks:
/// dropped <=> ticks(silence) > ticks(lease).  Because ticks() rounds DOWN by less than
/// one tick (decided by c12_from_std_*), this is: dropped => silence > lease, and
/// kept => silence < lease + 2^-32 s.
fn check_verdict_ticks(lost: bool, silence_ticks: i64, lease: Option<Duration>) {
  assert!(
    lost == (silence_ticks > lease_ticks(lease)),
    "clean-up verdict differs from: silence > advertised lease (in RTPS ticks)"
  );
  if lease_ticks(lease) == INFINITE_TICKS {
    assert!(!lost, "INFINITE lease expired");
  }
}

// ------------------------------------------------------------------------- fixtures
pub(crate) fn prefix(n: u8) -> GuidPrefix {
  GuidPrefix {
    bytes: [n, 1, 2, 3, 4, 5, 6, 7, 8, 9, 10, 11],
  }
}
pub(crate) fn participant_guid(n: u8) -> GUID {
  GUID::new(prefix(n), EntityId::PARTICIPANT)
}
pub(crate) fn reader_guid(p: u8, e: u8) -> GUID {
  GUID::new(
    prefix(p),
    EntityId::new([0, 0, e], EntityKind::READER_WITH_KEY_USER_DEFINED),
  )
}
pub(crate) fn writer_guid(p: u8, e: u8) -> GUID {
  GUID::new(
    prefix(p),
    EntityId::new([0, 0, e], EntityKind::WRITER_WITH_KEY_USER_DEFINED),
  )
}

pub(crate) fn spdp(n: u8, lease: Option<Duration>) -> SpdpDiscoveredParticipantData {
  SpdpDiscoveredParticipantData {
    updated_time: chrono::DateTime::<Utc>::UNIX_EPOCH,
    protocol_version: ProtocolVersion::THIS_IMPLEMENTATION,
    vendor_id: VendorId::THIS_IMPLEMENTATION,
    expects_inline_qos: false,
    participant_guid: participant_guid(n),
    metatraffic_unicast_locators: Vec::new(),
    metatraffic_multicast_locators: Vec::new(),
    default_unicast_locators: Vec::new(),
    default_multicast_locators: Vec::new(),
    available_builtin_endpoints: BuiltinEndpointSet::from_u32(
      BuiltinEndpointSet::PARTICIPANT_ANNOUNCER | BuiltinEndpointSet::PARTICIPANT_DETECTOR,
    ),
    lease_duration: lease,
    manual_liveliness_count: 0,
    builtin_endpoint_qos: None,
    entity_name: None,
    #[cfg(feature = "security")]
    identity_token: None,
    #[cfg(feature = "security")]
    permissions_token: None,
    #[cfg(feature = "security")]
    property: None,
    #[cfg(feature = "security")]
    security_info: None,
  }
}

pub(crate) const TOPIC_A: &str = "a";
pub(crate) const TOPIC_B: &str = "b";

pub(crate) fn reader_data(p: u8, e: u8, topic: &str) -> DiscoveredReaderData {
  let g = reader_guid(p, e);
  DiscoveredReaderData {
    reader_proxy: ReaderProxy::new(g, false, Vec::new(), Vec::new()),
    subscription_topic_data: SubscriptionBuiltinTopicData::new(
      g,
      Some(participant_guid(p)),
      topic.to_string(),
      "T".to_string(),
      &QosPolicies::qos_none(),
      None,
    ),
    content_filter: None,
  }
}
pub(crate) fn writer_data(p: u8, e: u8, topic: &str) -> DiscoveredWriterData {
  let g = writer_guid(p, e);
  DiscoveredWriterData {
    last_updated: some_instant(),
    writer_proxy: WriterProxy::new(g, Vec::new(), Vec::new()),
    publication_topic_data: PublicationBuiltinTopicData::new(
      g,
      Some(participant_guid(p)),
      topic.to_string(),
      "T".to_string(),
      None,
    ),
  }
}

// channel capacities: std's array channel initialises `capacity` slots in a loop
#[cfg(kani)]
const CHAN: usize = 1;
#[cfg(not(kani))]
const CHAN: usize = 64;

// The DiscoveryDB is a STACK LOCAL of the harness function and is never moved or boxed:
// under CBMC a heap object is a byte array (every field write rewrites the whole array:
// measured out-of-memory with Box<DiscoveryDB>), and every move of the struct copies all
// CAP slots of its nine maps.
pub(crate) struct Env {
  pub topic_rx: mio_extras::channel::Receiver<()>,
  pub status_rx: StatusChannelReceiver<DomainParticipantStatusEvent>,
}
macro_rules! make_db {
  ($db:ident, $env:ident) => {
    let (topic_tx, topic_rx) = mio_extras::channel::sync_channel::<()>(CHAN);
    let (status_tx, status_rx) =
      sync_status_channel::<DomainParticipantStatusEvent>(CHAN).unwrap();
    // the local participant is none of the remote ones
    let mut $db = DiscoveryDB::new(participant_guid(200), topic_tx, status_tx);
    let $env = Env { topic_rx, status_rx };
  };
}

/// Endpoints "already learned" from participant p: one reader and one writer on
/// TOPIC_A, put where update_subscription / update_publication put them.
pub(crate) fn learn_endpoints(db: &mut DiscoveryDB, p: u8) {
  let old = db
    .external_topic_readers
    .insert(reader_guid(p, 1), reader_data(p, 1, TOPIC_A));
  core::mem::forget(old);
  let old = db
    .external_topic_writers
    .insert(writer_guid(p, 1), writer_data(p, 1, TOPIC_A));
  core::mem::forget(old);
}

/// Observable: what the per-topic queries return for participant p on TOPIC_A:
/// (number of readers, number of writers, all of them carry the expected GUIDs).
pub(crate) fn visible(db: &DiscoveryDB, p: u8) -> (usize, usize, bool) {
  let rs = db.readers_on_topic_and_participant(TOPIC_A, prefix(p));
  let ws = db.writers_on_topic_and_participant(TOPIC_A, prefix(p));
  let mut ok = true;
  if rs.len() >= 1 {
    ok = ok && rs[0].reader_proxy.remote_reader_guid == reader_guid(p, 1);
  }
  if ws.len() >= 1 {
    ok = ok && ws[0].writer_proxy.remote_writer_guid == writer_guid(p, 1);
  }
  let res = (rs.len(), ws.len(), ok);
  core::mem::forget(rs);
  core::mem::forget(ws);
  res
}
pub(crate) fn endpoints_visible(db: &DiscoveryDB, p: u8) -> bool {
  visible(db, p) == (1, 1, true)
}
pub(crate) fn endpoints_gone(db: &DiscoveryDB, p: u8) -> bool {
  visible(db, p) == (0, 0, true)
}
pub(crate) fn known(db: &DiscoveryDB, p: u8) -> bool {
  db.find_participant_proxy(prefix(p)).is_some()
}

fn reported(lost: &Vec<(GuidPrefix, LostReason)>, p: u8) -> bool {
  lost.len() >= 1 && lost[0].0 == prefix(p) || lost.len() >= 2 && lost[1].0 == prefix(p)
}

macro_rules! env_stubs {
  ($unw:literal, fn $name:ident() $body:block) => {
    #[cfg_attr(kani, kani::proof, kani::unwind($unw))]
    #[cfg_attr(
      kani,
      kani::stub(std::time::Instant::now, stub_instant_now),
      kani::stub(crate::mio_source::make_poll_channel, crate::mio_source::verif_harness_env_mio::stub_make_poll_channel),
      kani::stub(crate::mio_source::PollEventSender::send, crate::mio_source::verif_harness_env_mio::stub_send),
      kani::stub(crate::mio_source::PollEventSource::drain, crate::mio_source::verif_harness_env_mio::stub_drain),
      kani::stub(std::fmt::format, crate::verif_env::stub_format)
    )]
    #[cfg_attr(verif_replay, test)]
    fn $name() $body
  };
}

// --------------------------------------------------- from_std as an uninterpreted function
// For schedules whose instants are free at full nanosecond resolution the division inside
// Duration::from_std is cut out: under Kani it is replaced by a function that RECORDS its
// argument and returns an ARBITRARY Duration_t (any i64 tick count — a superset of what the
// real function can return), so everything DiscoveryDB does around it (which instants it
// subtracts, the nanosecond borrow, the comparison with the lease, default, INFINITE) is
// decided for every possible result; the real from_std is decided separately by
// c12_from_std_*.  Natively the real function runs and the harness pops the recorded value
// to stay in step.
#[cfg(kani)]
pub(crate) static mut FS_CALLS: usize = 0;
#[cfg(kani)]
pub(crate) static mut FS_ARG: (u64, u32) = (0, 0);
#[cfg(kani)]
pub(crate) static mut FS_RET: i64 = 0;
#[cfg(kani)]
pub(crate) fn spy_from_std(d: StdDuration) -> Duration {
  let r: i64 = vk::any();
  unsafe {
    FS_CALLS += 1;
    FS_ARG = (d.as_secs(), d.subsec_nanos());
    FS_RET = r;
  }
  Duration::from_ticks(r)
}
/// (number of calls since the last take, last argument, last result)
fn take_spy(expected_arg: StdDuration) -> (usize, StdDuration, i64) {
  #[cfg(kani)]
  unsafe {
    let r = (FS_CALLS, StdDuration::new(FS_ARG.0, FS_ARG.1), FS_RET);
    FS_CALLS = 0;
    r
  }
  #[cfg(not(kani))]
  {
    let _solver_choice: i64 = vk::any();
    (1, expected_arg, Duration::from_std(expected_arg).to_ticks())
  }
}

macro_rules! env_stubs {
  ($unw:literal, fn $name:ident() $body:block) => {
    #[cfg_attr(kani, kani::proof, kani::unwind($unw))]
    #[cfg_attr(
      kani,
      kani::stub(std::time::Instant::now, stub_instant_now),
      kani::stub(chrono::Utc::now, stub_utc_now),
      kani::stub(crate::mio_source::make_poll_channel, crate::mio_source::verif_harness_env_mio::stub_make_poll_channel),
      kani::stub(crate::mio_source::PollEventSender::send, crate::mio_source::verif_harness_env_mio::stub_send),
      kani::stub(crate::mio_source::PollEventSource::drain, crate::mio_source::verif_harness_env_mio::stub_drain),
      kani::stub(std::fmt::format, crate::verif_env::stub_format)
    )]
    #[cfg_attr(verif_replay, test)]
    fn $name() $body
  };
  (spy $unw:literal, fn $name:ident() $body:block) => {
    #[cfg_attr(kani, kani::proof, kani::unwind($unw))]
    #[cfg_attr(
      kani,
      kani::stub(std::time::Instant::now, stub_instant_now),
      kani::stub(crate::structure::duration::Duration::from_std, spy_from_std),
      kani::stub(crate::mio_source::make_poll_channel, crate::mio_source::verif_harness_env_mio::stub_make_poll_channel),
      kani::stub(crate::mio_source::PollEventSender::send, crate::mio_source::verif_harness_env_mio::stub_send),
      kani::stub(crate::mio_source::PollEventSource::drain, crate::mio_source::verif_harness_env_mio::stub_drain),
      kani::stub(std::fmt::format, crate::verif_env::stub_format)
    )]
    #[cfg_attr(verif_replay, test)]
    fn $name() $body
  };
}

// ===================================================== C12, scalar layer (real Duration)

// The comparison participant_cleanup uses, on ANY two Duration_t values: derived Ord ==
/// order of tick counts, and adding the (zero) tolerance changes nothing — also for INFINITE.
#[cfg_attr(kani, kani::proof, kani::unwind(3))]
#[cfg_attr(verif_replay, test)]
fn c12_duration_order_is_tick_order() {
  vk::begin("c12_duration_order_is_tick_order");
  let a = Duration::from_ticks(vk::any::<i64>());
  let b = Duration::from_ticks(vk::any::<i64>());
  assert!((a <= b) == (a.to_ticks() <= b.to_ticks()), "Ord of Duration is not the order of ticks");
  let bt = b + PARTICIPANT_LEASE_DURATION_TOLERANCE;
  assert!(bt.to_ticks() == b.to_ticks(), "adding the lease tolerance changed the lease");
  assert!(DEFAULT_PARTICIPANT_LEASE_DURATION.to_ticks() == 60i64 << 32);
  assert!(Duration::INFINITE.to_ticks() == INFINITE_TICKS);
  assert!(a <= Duration::INFINITE, "something is longer than INFINITE");
  vk_cover!(a <= b && a.to_ticks() < 0 && b.to_ticks() > 0, "negative below positive");
  vk_cover!(!(a <= b) && (a.to_ticks() >> 32) == (b.to_ticks() >> 32), "decided by the fraction");
  vk::end();
}

/// from_std keeps whole seconds exactly for every span below 2^31 s (all 30 nanosecond
/// bits free: the division is not needed for this half), and shows the `as i32` wrap
/// right above the bound.
#[cfg_attr(kani, kani::proof, kani::unwind(3))]
#[cfg_attr(verif_replay, test)]
fn c12_from_std_seconds() {
  vk::begin("c12_from_std_seconds");
  let s: u64 = vk::any();
  let n: u32 = vk::any();
  vk::assume(n < 1_000_000_000);
  let d = Duration::from_std(StdDuration::new(s, n));
  if s < (1u64 << 31) {
    assert!(d.to_ticks() >> 32 == s as i64, "whole seconds changed by from_std");
    assert!(d.to_ticks() >= 0);
  }
  vk_cover!(s == (1u64 << 31) && d.to_ticks() < 0, "2^31 s wraps to a negative duration (outside the bound)");
  vk_cover!(s == (1u64 << 31) - 1 && d.to_ticks() > 0, "largest span inside the bound");
  vk::end();
}

/// from_std's fraction is exactly floor(n * 2^32 / 10^9), i.e. it rounds DOWN by less than
/// one tick (2^-32 s = 0.233 ns): decided per family of sub-second values.
fn from_std_fraction(f: Fam) {
  let e = any_span_in(f);
  let d = Duration::from_std(e);
  let t = d.to_ticks();
  let frac = (t as u64) & 0xFFFF_FFFF;
  let x = (e.subsec_nanos() as u64) << 32;
  assert!(t >> 32 == e.as_secs() as i64);
  assert!(frac * C9 <= x, "from_std rounded up");
  assert!(x - frac * C9 < C9, "from_std lost a whole tick or more");
  assert!(t == span_ticks(e), "harness transcription of the tick formula disagrees");
  if f == Fam::Grid512 {
    assert!(x == frac * C9, "a multiple of 1/512 s is not represented exactly");
  }
  vk_cover!(frac * C9 < x || f == Fam::Grid512, "a value that is really rounded");
  vk_cover!(frac == 4 || f != Fam::LowNs, "1 ns -> 4 ticks");
}
macro_rules! from_std_fam {
  ($name:ident, $fam:expr) => {
    #[cfg_attr(kani, kani::proof, kani::unwind(3))]
    #[cfg_attr(verif_replay, test)]
    fn $name() {
      vk::begin(stringify!($name));
      from_std_fraction($fam);
      vk::end();
    }
  };
}
from_std_fam!(c12_from_std_grid512, Fam::Grid512);
from_std_fam!(c12_from_std_low_ns, Fam::LowNs);
from_std_fam!(c12_from_std_high_ns, Fam::HighNs);
from_std_fam!(c12_from_std_millis, Fam::Millis);
from_std_fam!(c12_from_std_micros, Fam::Micros);

// ===================================================== C12, DiscoveryDB layer

// One remote participant, any lease, last life sign `elapsed` ago, one clean-up tick; the
// REAL from_std is in the loop, the sub-second part of `elapsed` is from family `f`.
// (No endpoints here: with empty endpoint maps the attic loops vanish at symbolic-execution
// time, which keeps the four family instances cheap; endpoints are c12_timeout_unmatches_*.)
fn cleanup_single(f: Fam) {
  make_db!(db, env);
  let mut clk = VClock::new();
  let lease = any_lease();
  let data = spdp(1, lease);
  let was_new = db.update_participant(&data);
  assert!(was_new, "first announcement not reported as a new participant");

  let elapsed = any_span_in(f);
  clk.advance(&mut db, elapsed);
  let lost = db.participant_cleanup();

  let is_lost = reported(&lost, 1);
  check_verdict_ticks(is_lost, span_ticks(elapsed), lease);
  assert!(lost.len() == if is_lost { 1 } else { 0 }, "clean-up reported something else");
  if is_lost {
    match lost[0].1 {
      LostReason::Timeout { lease: l, elapsed: e } => {
        assert!(l.to_ticks() == lease_ticks(lease), "reported lease is not the advertised one");
        assert!(e.to_ticks() == span_ticks(elapsed), "reported silence is not the real one");
      }
      _ => panic!("time-out reported with another reason"),
    }
  }
  assert!(known(&db, 1) != is_lost, "participant known <=> not reported lost, violated");
  vk_cover!(is_lost && lease.is_none(), "default lease expires");
  vk_cover!(is_lost && elapsed.as_secs() == 0 && lease.is_some(), "sub-second lease expires");
  vk_cover!(!is_lost && elapsed.as_secs() > 1_000_000, "long lease holds");
  vk_cover!(
    !is_lost && span_ticks(elapsed) == lease_ticks(lease) && elapsed.as_secs() > 0,
    "kept exactly on the boundary"
  );
  core::mem::forget(lost);
  core::mem::forget(data);
  core::mem::forget(db);
  core::mem::forget(env);
}
macro_rules! cleanup_single_fam {
  ($name:ident, $fam:expr) => {
    env_stubs! {3,
    fn $name() {
      vk::begin(stringify!($name));
      cleanup_single($fam);
      vk::end();
    }
    }
  };
}
cleanup_single_fam!(c12_cleanup_single_grid512, Fam::Grid512);
cleanup_single_fam!(c12_cleanup_single_low_ns, Fam::LowNs);
cleanup_single_fam!(c12_cleanup_single_high_ns, Fam::HighNs);
cleanup_single_fam!(c12_cleanup_single_millis, Fam::Millis);

// Endpoints follow the participant on the TIME-OUT path (attic).  Decomposition: the VERDICT
// is decided for all timings by c12_cleanup_single_* / c12_life_sign_*; what clean-up does to
// the endpoints of a lost / kept participant does not depend on the time values beyond that
// verdict and is exercised here with CONCRETE instants.  STATUS: thorough tier only — even
// the leanest variant (one reader, concrete instants) did not finish in 420 s: with a
// non-empty endpoint map, move_by_guid_prefix (collect GUIDs into a heap Vec, then
// remove + insert of a ~600-byte DiscoveredReaderData per GUID, nested in the loop over the
// lost participants) explodes in symbolic execution.  The dispose path is decided (quick).
// p1 (lease 1 s) [and p2 (lease 10 s)] announced at t=0, one reader + one writer each;
// clean-up at t = 2.5 s: exactly p1 is lost, exactly p1's endpoints leave the per-topic
// query results and sit in the attic; p1 reappears at t = 3 s: reported new, the queries
// return exactly the endpoints learned earlier (same data), the attic is empty again.
fn timeout_reappearance(two: bool) {
  make_db!(db, env);
  let mut clk = VClock::new();
  let data1 = spdp(1, Some(Duration::from_secs(1)));
  let data2 = spdp(2, Some(Duration::from_secs(10)));
  assert!(db.update_participant(&data1));
  learn_endpoints(&mut db, 1);
  if two {
    assert!(db.update_participant(&data2));
    learn_endpoints(&mut db, 2);
  }
  let r0 = reader_data(1, 1, TOPIC_A);
  let w0 = writer_data(1, 1, TOPIC_A);
  let n = if two { 2 } else { 1 };
  assert!(db.external_topic_readers.len() == n && db.external_topic_writers.len() == n);

  clk.advance(&mut db, StdDuration::new(2, 500_000_000));
  let lost = db.participant_cleanup();
  assert!(lost.len() == 1 && reported(&lost, 1), "exactly the silent participant is reported");
  assert!(!known(&db, 1));
  assert!(endpoints_gone(&db, 1), "endpoints of the lost participant still matched");
  if two {
    assert!(known(&db, 2));
    assert!(endpoints_visible(&db, 2), "endpoints of the live participant disappeared");
  }
  assert!(db.external_topic_readers_attic.len() == 1 && db.external_topic_writers_attic.len() == 1);

  clk.advance(&mut db, StdDuration::new(0, 500_000_000));
  assert!(db.update_participant(&data1), "reappearance not reported as new");
  let rs = db.readers_on_topic_and_participant(TOPIC_A, prefix(1));
  let ws = db.writers_on_topic_and_participant(TOPIC_A, prefix(1));
  assert!(rs.len() == 1 && ws.len() == 1, "endpoints not known again after reappearance");
  assert!(rs[0] == r0, "restored reader differs from the one learned earlier");
  assert!(
    ws[0].writer_proxy == w0.writer_proxy && ws[0].publication_topic_data == w0.publication_topic_data,
    "restored writer differs from the one learned earlier"
  );
  assert!(db.external_topic_readers_attic.is_empty() && db.external_topic_writers_attic.is_empty());
  assert!(db.external_topic_readers.len() == n && db.external_topic_writers.len() == n);
  vk_cover!(known(&db, 1), "known again at the end");
  core::mem::forget((rs, ws, lost, r0, w0));
  core::mem::forget((data1, data2));
  core::mem::forget(db);
  core::mem::forget(env);
}
env_stubs! {3,
fn c12_timeout_unmatches_reappearance_restores() {
  vk::begin("c12_timeout_unmatches_reappearance_restores");
  timeout_reappearance(false);
  vk::end();
}
}
env_stubs! {3,
fn c12_timeout_unmatches_only_the_lost_participant() {
  vk::begin("c12_timeout_unmatches_only_the_lost_participant");
  timeout_reappearance(true);
  vk::end();
}
}

// Lean variant of the above (one participant, ONE endpoint, one public query at the end).
env_stubs! {3,
fn c12_timeout_attic_roundtrip_reader() {
  vk::begin("c12_timeout_attic_roundtrip_reader");
  make_db!(db, env);
  let mut clk = VClock::new();
  let data1 = spdp(1, Some(Duration::from_secs(1)));
  assert!(db.update_participant(&data1));
  let old = db.external_topic_readers.insert(reader_guid(1, 1), reader_data(1, 1, TOPIC_A));
  core::mem::forget(old);
  clk.advance(&mut db, StdDuration::new(2, 500_000_000));
  let lost = db.participant_cleanup();
  assert!(lost.len() == 1, "the silent participant is not reported");
  assert!(!known(&db, 1));
  assert!(db.external_topic_readers.is_empty(), "reader of the lost participant still matched");
  assert!(db.external_topic_readers_attic.len() == 1);
  clk.advance(&mut db, StdDuration::new(0, 500_000_000));
  assert!(db.update_participant(&data1), "reappearance not reported as new");
  assert!(db.external_topic_readers_attic.is_empty());
  let rs = db.readers_on_topic_and_participant(TOPIC_A, prefix(1));
  assert!(rs.len() == 1, "reader not known again after reappearance");
  assert!(rs[0].reader_proxy.remote_reader_guid == reader_guid(1, 1));
  vk_cover!(rs.len() == 1, "restored");
  core::mem::forget((rs, lost));
  core::mem::forget(data1);
  core::mem::forget(db);
  core::mem::forget(env);
  vk::end();
}
}

// A life sign resets the lease.  Announcement at t=0; ONE life sign (SPDP re-announcement
// or liveliness assertion, symbolic choice) at a free instant t1 — possibly long after the
// first announcement's lease ran out; clean-up tick at t1 + silence.  The silence
// DiscoveryDB measures is exactly (now - LAST life sign), and the verdict is
// `ticks(measured) > lease`.
fn life_sign_body(spy: bool, alive_only: bool) {
  make_db!(db, env);
  let mut clk = VClock::new();
  let lease = any_lease();
  let data = spdp(1, lease);
  assert!(db.update_participant(&data));
  let t1 = if spy { any_span() } else { any_span_in(Fam::Grid512) };
  clk.advance(&mut db, t1);
  if alive_only || vk::any::<bool>() {
    db.participant_is_alive(prefix(1));
  } else {
    let again = db.update_participant(&data);
    assert!(!again, "re-announcement of a known participant reported as new");
  }
  let silence = if spy { any_span() } else { any_span_in(Fam::Grid512) };
  clk.advance(&mut db, silence);
  vk::assume(clk.now().as_secs() < (1u64 << 31));
  let lost = db.participant_cleanup();
  let is_lost = reported(&lost, 1);
  let ticks = if spy {
    let (calls, measured, ticks) = take_spy(silence);
    assert!(calls == 1, "silence not measured exactly once");
    assert!(measured == silence, "measured silence is not (now - LAST life sign)");
    ticks
  } else {
    span_ticks(silence)
  };
  check_verdict_ticks(is_lost, ticks, lease);
  assert!(is_lost != known(&db, 1));
  vk_cover!(is_lost, "expires after the last sign");
  vk_cover!(
    !is_lost && clk.now().as_secs() > 1000 && lease_ticks(lease) < (10i64 << 32) && lease_ticks(lease) > 0,
    "alive long after the first announcement's lease ran out"
  );
  core::mem::forget(lost);
  core::mem::forget(data);
  core::mem::forget(db);
  core::mem::forget(env);
}
env_stubs! {spy 3,
fn c12_life_sign_resets_lease_ns() {
  vk::begin("c12_life_sign_resets_lease_ns");
  life_sign_body(true, false);
  vk::end();
}
}
env_stubs! {spy 3,
fn c12_liveliness_resets_lease_ns() {
  vk::begin("c12_liveliness_resets_lease_ns");
  life_sign_body(true, true);
  vk::end();
}
}
env_stubs! {3,
fn c12_life_sign_resets_lease_grid512() {
  vk::begin("c12_life_sign_resets_lease_grid512");
  life_sign_body(false, false);
  vk::end();
}
}

// Explicit dispose: at any instant and whatever the lease, remove_participant(.., true)
// removes the participant and its endpoints at once; clean-up does not report it again; a
// later announcement is a NEW participant and does not bring the disposed endpoints back.
env_stubs! {3,
fn c12_dispose_is_immediate() {
  vk::begin("c12_dispose_is_immediate");
  make_db!(db, env);
  let mut clk = VClock::new();
  let lease = any_lease();
  let data = spdp(1, lease);
  assert!(db.update_participant(&data));
  learn_endpoints(&mut db, 1);
  let d = any_span();
  clk.advance(&mut db, d);
  db.remove_participant(prefix(1), true);
  assert!(!known(&db, 1), "disposed participant still known");
  assert!(endpoints_gone(&db, 1), "endpoints of a disposed participant still matched");
  assert!(db.external_topic_readers_attic.is_empty() && db.external_topic_writers_attic.is_empty());
  let lost = db.participant_cleanup();
  assert!(lost.is_empty(), "a disposed participant was reported lost as well");
  let d2 = any_span();
  clk.advance(&mut db, d2);
  assert!(db.update_participant(&data), "announcement after dispose not reported as new");
  assert!(endpoints_gone(&db, 1), "disposed endpoints came back");
  vk_cover!(lease == Some(Duration::INFINITE), "infinite lease disposed");
  core::mem::forget(lost);
  core::mem::forget(data);
  core::mem::forget(db);
  core::mem::forget(env);
  vk::end();
}
}
