// C15 harnesses on QosPolicies::{to_parameter_list, from_parameter_list} — child module of
// crate::dds::qos.  Also exports the generators the other C15 harness files use.
//
// Path under test (all real code):
//   QosPolicies::to_parameter_list(ctx) -> ParameterList::write_to (padding, sentinel)
//   -> bytes -> ParameterList::read_from -> ParameterList::to_map
//   -> QosPolicies::from_parameter_list(ctx, &map)
#![allow(dead_code, unused_imports, unused_macros, clippy::all)]
use speedy::Endianness;

use super::{policy::*, *};
use crate::{
  messages::submessages::elements::parameter_list::ParameterList, verif_vk as vk,
  verif_vk::vk_cover,
};

// ------------------------------------------------------------------------- environment
// speedy's slice-based entry points decide "enough bytes left?" by subtracting two raw
// pointers cast to usize; CBMC cannot fold that for any read past offset 0, every later
// length field then looks symbolic to the symbolic executor (allocation sizes, loop trip
// counts) and a one-parameter list already costs 45 s.  Under Kani the two entry points
// are therefore redirected to speedy's OWN stream-based entry points over the same bytes
// (`&[u8]: io::Read`, `Vec<u8>: io::Write`), which keep positions as plain integers.  All
// Readable/Writable impls of RustDDS (ParameterList, Parameter, StringWithNul, Locator, ...)
// run unchanged.  Native replay uses the original entry points.
pub(crate) trait StubReadable<'a, C: speedy::Context>: Sized + speedy::Readable<'a, C> {
  fn stub_read_from_buffer_with_ctx(context: C, buffer: &'a [u8]) -> Result<Self, C::Error> {
    Self::read_from_stream_unbuffered_with_ctx(context, buffer)
  }
}
impl<'a, C: speedy::Context, T: speedy::Readable<'a, C>> StubReadable<'a, C> for T {}

pub(crate) trait StubWritable<C: speedy::Context>: speedy::Writable<C> {
  fn stub_write_to_vec_with_ctx(&self, context: C) -> Result<Vec<u8>, C::Error> {
    let capacity = self.bytes_needed()?; // as the original does
    let mut v: Vec<u8> = Vec::with_capacity(capacity);
    self.write_to_stream_with_ctx(context, &mut v)?;
    Ok(v)
  }
}
impl<C: speedy::Context, T: speedy::Writable<C> + ?Sized> StubWritable<C> for T {}

/// Declares a harness with the attributes every C15 harness needs.
macro_rules! c15_proof {
  ($name:ident, $unwind:literal, $body:block) => {
    #[cfg_attr(kani, kani::proof, kani::unwind($unwind))]
    #[cfg_attr(kani, kani::stub(std::fmt::format, crate::verif_env::stub_format))]
    #[cfg_attr(
      kani,
      kani::stub(
        speedy::Readable::read_from_buffer_with_ctx,
        crate::dds::qos::verif_harness_c15_qos::StubReadable::stub_read_from_buffer_with_ctx
      )
    )]
    #[cfg_attr(
      kani,
      kani::stub(
        speedy::Writable::write_to_vec_with_ctx,
        crate::dds::qos::verif_harness_c15_qos::StubWritable::stub_write_to_vec_with_ctx
      )
    )]
    #[cfg_attr(verif_replay, test)]
    fn $name() {
      crate::verif_vk::begin(stringify!($name));
      $body;
      crate::verif_vk::end();
    }
  };
}
pub(crate) use c15_proof;

// ------------------------------------------------------------------------- generators
// Rule learnt the hard way: everything that decides a SIZE or a PRESENCE must be a constant
// for the symbolic executor.  Option<enum> stores its None in the enum's tag niche (and
// Option<Presentation> in a bool's niche), so a symbolic variant / bool makes "is the policy
// present?" symbolic and with it the number of parameters.  Hence: enum variants and bools
// are ENUMERATED (concrete selector `v`, looped over by the harness), all numeric contents
// (durations, depths, strengths, limits) are symbolic at full width.
pub(crate) fn any_duration() -> Duration {
  // every 64-bit tick count: ZERO, INFINITE, negatives
  Duration::from_ticks(vk::any::<i64>())
}
pub(crate) const N_DURABILITY: u8 = 4;
pub(crate) fn durability_v(v: u8) -> Durability {
  match v % 4 {
    0 => Durability::Volatile,
    1 => Durability::TransientLocal,
    2 => Durability::Transient,
    _ => Durability::Persistent,
  }
}
pub(crate) const N_PRESENTATION: u8 = 12;
pub(crate) fn presentation_v(v: u8) -> Presentation {
  Presentation {
    access_scope: match v % 3 {
      0 => PresentationAccessScope::Instance,
      1 => PresentationAccessScope::Topic,
      _ => PresentationAccessScope::Group,
    },
    coherent_access: (v / 3) % 2 == 1,
    ordered_access: (v / 6) % 2 == 1,
  }
}
pub(crate) const N_OWNERSHIP: u8 = 2;
pub(crate) fn ownership_v(v: u8) -> Ownership {
  if v % 2 == 0 {
    Ownership::Shared
  } else {
    Ownership::Exclusive {
      strength: vk::any::<i32>(),
    }
  }
}
pub(crate) const N_LIVELINESS: u8 = 3;
pub(crate) fn liveliness_v(v: u8) -> Liveliness {
  let lease_duration = any_duration();
  match v % 3 {
    0 => Liveliness::Automatic { lease_duration },
    1 => Liveliness::ManualByParticipant { lease_duration },
    _ => Liveliness::ManualByTopic { lease_duration },
  }
}
pub(crate) const N_RELIABILITY: u8 = 2;
pub(crate) fn reliability_v(v: u8) -> Reliability {
  if v % 2 == 0 {
    Reliability::BestEffort
  } else {
    Reliability::Reliable {
      max_blocking_time: any_duration(),
    }
  }
}
pub(crate) const N_DEST_ORDER: u8 = 2;
pub(crate) fn dest_order_v(v: u8) -> DestinationOrder {
  if v % 2 == 0 {
    DestinationOrder::ByReceptionTimestamp
  } else {
    DestinationOrder::BySourceTimeStamp
  }
}
pub(crate) const N_HISTORY: u8 = 2;
pub(crate) fn history_v(v: u8) -> History {
  if v % 2 == 0 {
    History::KeepAll
  } else {
    History::KeepLast {
      depth: vk::any::<i32>(),
    }
  }
}
pub(crate) fn any_resource_limits() -> ResourceLimits {
  ResourceLimits {
    max_samples: vk::any(),
    max_instances: vk::any(),
    max_samples_per_instance: vk::any(),
  }
}

/// QoS set with a CONCRETE presence pattern (bit i of `mask` = policy i present, in the
/// field order of QosPolicies), CONCRETE enum variants / bools selected by `v`, and
/// symbolic numeric contents.
pub(crate) fn qos_with(mask: u16, v: u8) -> QosPolicies {
  macro_rules! f {
    ($bit:expr, $gen:expr) => {
      if mask & (1 << $bit) != 0 {
        Some($gen)
      } else {
        None
      }
    };
  }
  QosPolicies {
    durability: f!(0, durability_v(v)),
    presentation: f!(1, presentation_v(v)),
    deadline: f!(2, Deadline(any_duration())),
    latency_budget: f!(
      3,
      LatencyBudget {
        duration: any_duration()
      }
    ),
    ownership: f!(4, ownership_v(v)),
    liveliness: f!(5, liveliness_v(v)),
    time_based_filter: f!(
      6,
      TimeBasedFilter {
        minimum_separation: any_duration()
      }
    ),
    reliability: f!(7, reliability_v(v)),
    destination_order: f!(8, dest_order_v(v)),
    history: f!(9, history_v(v)),
    resource_limits: f!(10, any_resource_limits()),
    lifespan: f!(
      11,
      Lifespan {
        duration: any_duration()
      }
    ),
    #[cfg(feature = "security")]
    property: None,
  }
}
pub(crate) const ALL_POLICIES: u16 = 0x0fff;

/// Unwrap without dragging Debug formatting of the error type into the model.
macro_rules! must {
  ($e:expr, $msg:literal) => {
    match $e {
      Ok(v) => v,
      Err(e) => {
        core::mem::forget(e);
        panic!($msg)
      }
    }
  };
}
pub(crate) use must;

/// A ParameterId from its numeric value, through the real speedy reader (the field is
/// private to structure::parameter_id).
pub(crate) fn pid_from_u16(v: u16) -> ParameterId {
  let b = v.to_le_bytes();
  must!(
    ParameterId::read_from_buffer_with_ctx(Endianness::LittleEndian, &b),
    "ParameterId decode"
  )
}

/// The foreign parameter of the unknown-parameter harnesses: PID symbolic, `N` symbolic
/// value bytes.  The caller excludes the PIDs its record decodes.
pub(crate) fn any_foreign_parameter<const N: usize>() -> (u16, Parameter) {
  let pid: u16 = vk::any();
  vk::assume(pid != 0x0001); // PID_SENTINEL terminates the list by definition
  let mut value = Vec::with_capacity(N);
  let mut i = 0;
  while i < N {
    value.push(vk::any::<u8>());
    i += 1;
  }
  (pid, Parameter::new(pid_from_u16(pid), value))
}

/// PIDs QosPolicies::from_parameter_list looks at.
pub(crate) fn is_qos_pid(p: u16) -> bool {
  matches!(
    p,
    0x001d | 0x0021 | 0x0023 | 0x0027 | 0x001f | 0x0006 | 0x001b | 0x0004 | 0x001a | 0x0025
      | 0x0040 | 0x0041 | 0x002b
  )
}

// ------------------------------------------------------------------------- the wire path
/// QosPolicies -> parameters -> [foreign parameter spliced in at index `at`] -> wire bytes
/// -> parameter list -> map -> QosPolicies.
fn over_the_wire(q: &QosPolicies, ctx: Endianness, foreign: Option<(usize, Parameter)>) -> QosPolicies {
  let mut parameters = must!(q.to_parameter_list(ctx), "to_parameter_list failed");
  if let Some((at, p)) = foreign {
    let at = if at > parameters.len() { parameters.len() } else { at };
    parameters.insert(at, p);
  }
  let pl = ParameterList { parameters };
  let bytes: Vec<u8> = must!(pl.write_to_vec_with_ctx(ctx), "ParameterList write failed");
  assert!(bytes.len() % 4 == 0, "serialized parameter list is not 4-aligned");
  assert!(bytes.len() == pl.len_serialized(), "len_serialized disagrees with the bytes written");
  let pl2 = must!(
    ParameterList::read_from_buffer_with_ctx(ctx, &bytes),
    "ParameterList read failed"
  );
  let map = pl2.to_map();
  let q2 = must!(
    QosPolicies::from_parameter_list(ctx, &map),
    "from_parameter_list failed"
  );
  core::mem::forget(map);
  core::mem::forget(pl2);
  core::mem::forget(bytes);
  core::mem::forget(pl);
  q2
}

fn both_orders(q: &QosPolicies) {
  let le = over_the_wire(q, Endianness::LittleEndian, None);
  assert!(le == *q, "QosPolicies changed over the wire (little endian)");
  let be = over_the_wire(q, Endianness::BigEndian, None);
  assert!(be == *q, "QosPolicies changed over the wire (big endian)");
}

/// One policy present, every variant of it in turn (numeric contents symbolic), all other
/// policies absent; both byte orders.
macro_rules! single_policy {
  ($name:ident, $bit:expr, $nvariants:expr) => {
    c15_proof!($name, 20, {
      let mut v = 0u8;
      let mut last = QosPolicies::qos_none();
      while v < $nvariants {
        let q = qos_with(1 << $bit, v);
        both_orders(&q);
        last = q;
        v += 1;
      }
      vk_cover!(last != QosPolicies::qos_none(), "a policy was present");
    });
  };
}
single_policy!(c15_qos_durability, 0, N_DURABILITY);
single_policy!(c15_qos_presentation, 1, N_PRESENTATION);
single_policy!(c15_qos_deadline, 2, 1);
single_policy!(c15_qos_latency_budget, 3, 1);
single_policy!(c15_qos_ownership, 4, N_OWNERSHIP);
single_policy!(c15_qos_liveliness, 5, N_LIVELINESS);
single_policy!(c15_qos_time_based_filter, 6, 1);
single_policy!(c15_qos_reliability, 7, N_RELIABILITY);
single_policy!(c15_qos_destination_order, 8, N_DEST_ORDER);
single_policy!(c15_qos_history, 9, N_HISTORY);
single_policy!(c15_qos_resource_limits, 10, 1);
single_policy!(c15_qos_lifespan, 11, 1);

// All twelve policies present at once (13 parameters when ownership is Exclusive); variant
// selector v = 0..3 makes every variant of every policy but Presentation appear.
c15_proof!(c15_qos_all_present, 20, {
  let mut v = 0u8;
  while v < 4 {
    let q = qos_with(ALL_POLICIES, v);
    both_orders(&q);
    vk_cover!(
      matches!(q.ownership, Some(Ownership::Exclusive { strength }) if strength < 0),
      "13 parameters on the wire, negative strength"
    );
    v += 1;
  }
});

// Absent parameters: the empty list decodes to "no policy specified".
c15_proof!(c15_qos_none_present, 20, {
  let q = qos_with(0, 0);
  both_orders(&q);
  assert!(q == QosPolicies::qos_none());
  vk_cover!(true, "reached");
});

// Quick-tier stand-in for the 12-variant Presentation harness: three variants that cover
// every access scope and both values of both flags.
c15_proof!(c15_qos_presentation_q, 20, {
  both_orders(&qos_with(1 << 1, 0)); // Instance, false, false
  both_orders(&qos_with(1 << 1, 4)); // Topic, true, false
  both_orders(&qos_with(1 << 1, 11)); // Group, true, true
  vk_cover!(true, "reached");
});

/// Unknown-parameter tolerance: one foreign parameter (`pid` given by the caller, N symbolic
/// value bytes) spliced in at index `at` of the emitted list must not change any policy.
fn with_foreign<const N: usize>(q: &QosPolicies, ctx: Endianness, pid: u16, at: usize) {
  vk::assume(pid != 0x0001 && !is_qos_pid(pid));
  let mut value = Vec::with_capacity(N);
  let mut i = 0;
  while i < N {
    value.push(vk::any::<u8>());
    i += 1;
  }
  let p = Parameter::new(pid_from_u16(pid), value);
  let got = over_the_wire(q, ctx, Some((at, p)));
  assert!(got == *q, "a foreign parameter disturbed a known policy");
}

// Foreign PID fully symbolic (any value but the sentinel and the 13 QoS PIDs: vendor-specific
// 0x8000.., must-understand 0x4000.., PID_PAD, PIDs of other records), in front of and behind
// a Deadline parameter, 4 and 8 value bytes.
c15_proof!(c15_qos_foreign_symbolic_pid, 20, {
  let q = qos_with(1 << 2, 0);
  let pid: u16 = vk::any();
  with_foreign::<4>(&q, Endianness::LittleEndian, pid, 0);
  with_foreign::<8>(&q, Endianness::BigEndian, pid, 1);
  vk_cover!(pid >= 0x8000, "vendor-specific PID");
  vk_cover!(pid == 0, "PID_PAD");
});

// Same with PIDs from a concrete grid and two known policies around the foreign parameter.
c15_proof!(c15_qos_foreign_grid, 20, {
  let q = qos_with((1 << 2) | (1 << 11), 0); // Deadline + Lifespan
  with_foreign::<4>(&q, Endianness::LittleEndian, 0x8000, 1);
  with_foreign::<8>(&q, Endianness::BigEndian, 0x800f, 1);
  with_foreign::<4>(&q, Endianness::BigEndian, 0x0000, 2);
  with_foreign::<4>(&q, Endianness::LittleEndian, 0x7fff, 0);
  vk_cover!(true, "reached");
});

// Cheapest unknown-parameter instances (quick tier): concrete vendor-specific /
// must-understand PIDs, symbolic value bytes.
c15_proof!(c15_qos_foreign_only, 20, {
  let q = qos_with(0, 0);
  with_foreign::<4>(&q, Endianness::LittleEndian, 0x8000, 0);
  with_foreign::<8>(&q, Endianness::BigEndian, 0x7fff, 0);
  vk_cover!(true, "reached");
});
c15_proof!(c15_qos_foreign_before_deadline, 20, {
  let q = qos_with(1 << 2, 0);
  with_foreign::<4>(&q, Endianness::LittleEndian, 0x800f, 0);
  vk_cover!(matches!(q.deadline, Some(Deadline(d)) if d == Duration::INFINITE), "infinite deadline");
});
