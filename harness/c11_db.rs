// C11, DiscoveryDB half: the per-topic endpoint sets follow discovery exactly — endpoint
// dispose deletes exactly that endpoint, participant dispose deletes exactly its endpoints,
// participant time-out moves exactly its endpoints to the attic and rediscovery restores
// exactly them.  Child module of crate::discovery::discovery_db, sibling of
// verif_harness_lease (C12), whose fixtures it uses.
//
// CONCRETE scenarios (plus at most one symbolic choice): the C12 author measured that
// move_by_guid_prefix with ~600-byte DiscoveredReaderData values does not finish under
// symbolic conditions.  A concrete scenario is still a solver run over the REAL code and
// catches e.g. swapped from/to arguments, a wrong range bound, a forgotten map.
#![allow(dead_code, unused_imports, unused_variables, unused_mut, clippy::all)]
use super::verif_harness_lease::{
  participant_guid, prefix, reader_data, reader_guid, spdp, writer_data,
  writer_guid, Env, TOPIC_A, TOPIC_B,
};
use super::*;
use crate::{
  dds::statusevents::{sync_status_channel, StatusChannelReceiver},
  verif_vk as vk,
  verif_vk::vk_cover,
};

#[cfg(kani)]
const CHAN: usize = 1;
#[cfg(not(kani))]
const CHAN: usize = 64;

// The DiscoveryDB is a stack local of the harness function, never moved or boxed (see lease.rs).
macro_rules! c11_make_db {
  ($db:ident, $env:ident) => {
    let (topic_tx, topic_rx) = mio_extras::channel::sync_channel::<()>(CHAN);
    let (status_tx, status_rx) = sync_status_channel::<DomainParticipantStatusEvent>(CHAN).unwrap();
    let mut $db = DiscoveryDB::new(participant_guid(200), topic_tx, status_tx);
    let $env = Env { topic_rx, status_rx };
  };
}

macro_rules! c11_db_harness {
  ($unw:literal, $(#[$m:meta])* fn $name:ident() $body:block) => {
    $(#[$m])*
    #[cfg_attr(kani, kani::proof, kani::unwind($unw))]
    #[cfg_attr(
      kani,
      kani::stub(std::time::Instant::now, crate::discovery::discovery_db::verif_harness_lease::stub_instant_now),
      kani::stub(chrono::Utc::now, crate::discovery::discovery_db::verif_harness_lease::stub_utc_now),
      kani::stub(crate::mio_source::make_poll_channel, crate::mio_source::verif_harness_env_mio::stub_make_poll_channel),
      kani::stub(crate::mio_source::PollEventSender::send, crate::mio_source::verif_harness_env_mio::stub_send),
      kani::stub(crate::mio_source::PollEventSource::drain, crate::mio_source::verif_harness_env_mio::stub_drain),
      kani::stub(std::fmt::format, crate::verif_env::stub_format)
    )]
    #[cfg_attr(verif_replay, test)]
    fn $name() {
      vk::begin(stringify!($name));
      $body;
      vk::end();
    }
  };
}

/// Endpoints "already learned": writer (p,1) and reader (p,1) on TOPIC_A, put where
/// update_publication / update_subscription put them.
fn learn(db: &mut DiscoveryDB, p: u8) {
  let old = db.external_topic_readers.insert(reader_guid(p, 1), reader_data(p, 1, TOPIC_A));
  core::mem::forget(old);
  let old = db.external_topic_writers.insert(writer_guid(p, 1), writer_data(p, 1, TOPIC_A));
  core::mem::forget(old);
}

/// What the per-topic queries (the ones dp_event_loop matches from) return for participant
/// p on TOPIC_A: (readers, writers) as counts, checked to be exactly reader (p,1) / writer (p,1).
fn visible(db: &DiscoveryDB, p: u8) -> (usize, usize) {
  let rs = db.readers_on_topic_and_participant(TOPIC_A, prefix(p));
  let ws = db.writers_on_topic_and_participant(TOPIC_A, prefix(p));
  assert!(rs.len() <= 1 && ws.len() <= 1, "query returns more endpoints than were announced");
  if rs.len() == 1 {
    assert!(rs[0].reader_proxy.remote_reader_guid == reader_guid(p, 1), "query returns a reader of another participant");
  }
  if ws.len() == 1 {
    assert!(ws[0].writer_proxy.remote_writer_guid == writer_guid(p, 1), "query returns a writer of another participant");
  }
  let res = (rs.len(), ws.len());
  core::mem::forget(rs);
  core::mem::forget(ws);
  res
}

/// Endpoint dispose and participant dispose are exact.  Two participants, one reader + one
/// writer each; participant `a` loses its writer by remove_topic_writer, then its reader by
/// remove_topic_reader / or (`whole`) is disposed as a whole: nothing of the OTHER participant
/// changes, nothing goes to the attic, a later re-announcement of the participant brings
/// nothing back.  `a` and `whole` are CONCRETE per harness instance: with both symbolic the
/// run did not finish in 1500 s (600-byte map values moved under symbolic guards).
fn dispose_case(a: u8, whole: bool) {
  c11_make_db!(db, env);
  let d1 = spdp(1, None);
  let d2 = spdp(2, None);
  assert!(db.update_participant(&d1));
  assert!(db.update_participant(&d2));
  learn(&mut db, 1);
  learn(&mut db, 2);
  assert!(visible(&db, 1) == (1, 1) && visible(&db, 2) == (1, 1));
  let b = 3 - a;
  db.remove_topic_writer(writer_guid(a, 1));
  assert!(visible(&db, a) == (1, 0), "remove_topic_writer did not delete exactly that writer");
  assert!(visible(&db, b) == (1, 1), "remove_topic_writer touched another participant");
  if whole {
    db.remove_participant(prefix(a), true);
    assert!(db.find_participant_proxy(prefix(a)).is_none());
  } else {
    db.remove_topic_reader(reader_guid(a, 1));
  }
  assert!(visible(&db, a) == (0, 0), "disposed endpoints still returned");
  assert!(visible(&db, b) == (1, 1), "dispose touched another participant");
  assert!(db.find_participant_proxy(prefix(b)).is_some());
  assert!(db.external_topic_readers_attic.is_empty() && db.external_topic_writers_attic.is_empty(), "disposed endpoints kept in the attic");
  assert!(db.external_topic_readers.len() == 1 && db.external_topic_writers.len() == 1);
  if whole {
    // found again: a NEW participant without endpoints
    let again = if a == 1 { db.update_participant(&d1) } else { db.update_participant(&d2) };
    assert!(again, "announcement after dispose not reported as new");
    assert!(visible(&db, a) == (0, 0), "disposed endpoints came back");
  }
  vk_cover!(visible(&db, b) == (1, 1), "the other participant's endpoints are still there");
  core::mem::forget((d1, d2));
  core::mem::forget(db);
  core::mem::forget(env);
}
c11_db_harness! {5,
fn c11_db_dispose_endpoints_p1() {
  dispose_case(1, false);
}
}
c11_db_harness! {5,
fn c11_db_dispose_participant_p2() {
  dispose_case(2, true);
}
}

/// Time-out path, concrete: remove_participant(p1, false) = what participant_cleanup does for
/// a lost participant (the verdict WHEN that happens is C12).  Exactly p1's endpoints leave
/// the query results and sit in the attic; update_participant(p1) reports it NEW and restores
/// exactly them; the attic is empty again.  `two`: a second participant with endpoints is
/// present and must not be touched.
fn attic_roundtrip(two: bool) {
  c11_make_db!(db, env);
  let d1 = spdp(1, None);
  let d2 = spdp(2, None);
  assert!(db.update_participant(&d1));
  learn(&mut db, 1);
  if two {
    assert!(db.update_participant(&d2));
    learn(&mut db, 2);
  }
  let n = if two { 2 } else { 1 };
  db.remove_participant(prefix(1), false);
  assert!(db.find_participant_proxy(prefix(1)).is_none());
  assert!(visible(&db, 1) == (0, 0), "endpoints of the lost participant still returned");
  assert!(db.external_topic_readers_attic.len() == 1 && db.external_topic_writers_attic.len() == 1, "attic does not hold exactly the lost participant's endpoints");
  assert!(db.external_topic_readers_attic.contains_key(&reader_guid(1, 1)));
  assert!(db.external_topic_writers_attic.contains_key(&writer_guid(1, 1)));
  if two {
    assert!(visible(&db, 2) == (1, 1), "time-out of participant 1 touched participant 2");
  }
  assert!(db.update_participant(&d1), "reappearance not reported as new");
  assert!(visible(&db, 1) == (1, 1), "rediscovery did not restore exactly the earlier endpoints");
  assert!(db.external_topic_readers_attic.is_empty() && db.external_topic_writers_attic.is_empty(), "attic not emptied by rediscovery");
  assert!(db.external_topic_readers.len() == n && db.external_topic_writers.len() == n);
  if two {
    assert!(visible(&db, 2) == (1, 1));
  }
  vk_cover!(db.find_participant_proxy(prefix(1)).is_some(), "known again at the end");
  core::mem::forget((d1, d2));
  core::mem::forget(db);
  core::mem::forget(env);
}
c11_db_harness! {5,
fn c11_db_attic_roundtrip_one() {
  attic_roundtrip(false);
}
}
c11_db_harness! {5,
fn c11_db_attic_roundtrip_two() {
  attic_roundtrip(true);
}
}

// STATUS: not in the table.  Measured: exceeds the 8 GB memory cap (update_topic_data works on
// BTreeMap<String, BTreeMap<GuidPrefix, (DiscoveredVia, DiscoveredTopicData)>>: String keys,
// nested maps, clones of ~600-byte values).
c11_db_harness! {5,
/// update_publication / update_subscription (the real entry points, including the topic
/// table update): the announced endpoint is returned by the per-topic query of its
/// participant and topic and by no other; a re-announcement does not duplicate it.
fn c11_db_announce_is_exact() {
  c11_make_db!(db, env);
  let d1 = spdp(1, None);
  assert!(db.update_participant(&d1));
  let wd = writer_data(1, 1, TOPIC_A);
  let rd = reader_data(1, 1, TOPIC_A);
  let again: bool = vk::any();
  let r = db.update_publication(&wd);
  core::mem::forget(r);
  let r = db.update_subscription(&rd);
  core::mem::forget(r);
  if again {
    let r = db.update_publication(&wd);
    core::mem::forget(r);
  }
  assert!(visible(&db, 1) == (1, 1), "announced endpoints are not exactly what the query returns");
  assert!(visible(&db, 2) == (0, 0), "endpoint returned for a participant that announced none");
  let other = db.writers_on_topic_and_participant(TOPIC_B, prefix(1));
  assert!(other.is_empty(), "writer returned for a topic it is not on");
  assert!(db.external_topic_writers.len() == 1 && db.external_topic_readers.len() == 1, "re-announcement duplicated the endpoint");
  vk_cover!(again, "re-announced");
  core::mem::forget(other);
  core::mem::forget((wd, rd, d1));
  core::mem::forget(db);
  core::mem::forget(env);
}
}
