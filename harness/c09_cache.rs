// C09 helper — child module of crate::structure::dds_cache (sees TopicCache's private maps).
//
// UNBOXED transcriptions of TopicCache::get_changes_in_range_reliable / _best_effort followed
// by `.next()`: the same iterator expressions, character for character, minus `Box::new`.
// Why: the state of the boxed iterator (~180 bytes on the heap) holds both pointers (to the
// maps) and counters.  For CBMC a heap object is a byte array: below the field-sensitivity
// limit the counters are not constants (every nested iterator loop is unrolled to the unwind
// bound), above it the pointers are re-assembled from bytes and no longer point at one known
// object.  Either way one try_take_one did not finish in 600 s.  On the stack the iterator is a
// typed struct and both survive.  The loop harnesses of C09 use these through the eager
// stand-in for SimpleDataReader::try_take_undecoded (harness/sdr.rs); the harnesses
// c09_first_* below decide that they return the same element as the real boxed functions.
#![allow(dead_code, unused_imports, clippy::all)]
use super::*;

impl TopicCache {
  pub(crate) fn verif_first_reliable<'a>(
    &'a self,
    last_read_sn: &'a BTreeMap<GUID, SequenceNumber>,
  ) -> Option<(Timestamp, &'a CacheChange)> {
    self
      .sequence_numbers
      .iter()
      .flat_map(|(guid, sn_map)| {
        let lower_bound_exc = last_read_sn
          .get(guid)
          .cloned()
          .unwrap_or(SequenceNumber::zero());
        let upper_bound_exc = self.reliable_before(*guid);
        // make sure lower < upper, so that `.range()` does not panic.
        let upper_bound_exc = max(upper_bound_exc, lower_bound_exc.plus_1());
        sn_map.range((Excluded(lower_bound_exc), Excluded(upper_bound_exc)))
      }) // we get iterator of Timestamp
      .filter_map(|(_sn, t)| self.get_change(t).map(|cc| (*t, cc)))
      .next()
  }

  pub(crate) fn verif_first_best_effort(
    &self,
    start_instant: Timestamp,
    end_instant: Timestamp,
  ) -> Option<(Timestamp, &CacheChange)> {
    self
      .changes
      .range((Excluded(start_instant), Included(end_instant)))
      .map(|(i, c)| (*i, c))
      .next()
  }
}
