// C15 — whole-record round trips of SpdpDiscoveredParticipantData (participant discovery data).
// Child module of crate::discovery::spdp_participant_data.
//
// Path under test (all real code):
//   x.to_pl_cdr_bytes(PL_CDR_LE | PL_CDR_BE) (to_parameter_list, ParameterList::write_to, Bytes::from)
//   -> SpdpDiscoveredParticipantData::from_pl_cdr_bytes (ParameterList::read_from, to_map,
//   get_first/option/all_from_pl_map)  == x, field by field; `updated_time` (receive time) ignored.
#![allow(dead_code, unused_imports, unused_macros, clippy::all)]
use speedy::Endianness;

use super::*;
use crate::{
  dds::qos::verif_harness_c15_qos::{any_duration, must, StubReadable, StubWritable},
  discovery::sedp_messages::verif_harness_c15_sedp::{
    locator_list, locators_eq, opt_str_eq, BE, LE, L_NONE, L_UDP4, L_UDP6,
  },
  serialization::speedy_pl_cdr_helpers::verif_harness_c15_parts::{
    any_builtin_endpoint_qos, any_guid, ascii_string, c15_record_proof, str_eq,
  },
  verif_vk as vk,
  verif_vk::vk_cover,
};

/// Presence pattern (all concrete).  The mandatory parameters (protocol version, vendor id,
/// expects_inline_qos, participant GUID, builtin endpoint set, manual liveliness count) are
/// always emitted with symbolic contents.
#[derive(Clone, Copy)]
struct PPat {
  meta_uni: u8, // locator_list variant of each of the four lists
  meta_multi: u8,
  def_uni: u8,
  def_multi: u8,
  lease: bool,
  endpoint_qos: bool,
  entity_name: Option<usize>, // Some(length)
}
const P_NONE: PPat = PPat {
  meta_uni: L_NONE,
  meta_multi: L_NONE,
  def_uni: L_NONE,
  def_multi: L_NONE,
  lease: false,
  endpoint_qos: false,
  entity_name: None,
};

fn participant_record(p: PPat) -> SpdpDiscoveredParticipantData {
  SpdpDiscoveredParticipantData {
    updated_time: Utc::now(),
    protocol_version: ProtocolVersion {
      major: vk::any(),
      minor: vk::any(),
    },
    vendor_id: VendorId {
      vendor_id: [vk::any(), vk::any()],
    },
    expects_inline_qos: vk::any::<bool>(),
    participant_guid: any_guid(),
    metatraffic_unicast_locators: locator_list(p.meta_uni),
    metatraffic_multicast_locators: locator_list(p.meta_multi),
    default_unicast_locators: locator_list(p.def_uni),
    default_multicast_locators: locator_list(p.def_multi),
    available_builtin_endpoints: BuiltinEndpointSet::from_u32(vk::any()),
    lease_duration: if p.lease { Some(any_duration()) } else { None },
    manual_liveliness_count: vk::any::<i32>(),
    builtin_endpoint_qos: if p.endpoint_qos { Some(any_builtin_endpoint_qos()) } else { None },
    entity_name: match p.entity_name {
      Some(n) => Some(ascii_string(n)),
      None => None,
    },
  }
}

fn participant_check_same(x: &SpdpDiscoveredParticipantData, y: &SpdpDiscoveredParticipantData) {
  assert!(x.protocol_version == y.protocol_version, "protocol_version changed over the wire");
  assert!(x.vendor_id == y.vendor_id, "vendor_id changed over the wire");
  assert!(x.expects_inline_qos == y.expects_inline_qos, "expects_inline_qos changed over the wire");
  assert!(x.participant_guid == y.participant_guid, "participant_guid changed over the wire");
  assert!(locators_eq(&x.metatraffic_unicast_locators, &y.metatraffic_unicast_locators), "metatraffic_unicast_locators changed over the wire");
  assert!(locators_eq(&x.metatraffic_multicast_locators, &y.metatraffic_multicast_locators), "metatraffic_multicast_locators changed over the wire");
  assert!(locators_eq(&x.default_unicast_locators, &y.default_unicast_locators), "default_unicast_locators changed over the wire");
  assert!(locators_eq(&x.default_multicast_locators, &y.default_multicast_locators), "default_multicast_locators changed over the wire");
  assert!(x.available_builtin_endpoints == y.available_builtin_endpoints, "available_builtin_endpoints changed over the wire");
  assert!(x.lease_duration == y.lease_duration, "lease_duration changed over the wire (absent must stay None)");
  assert!(x.manual_liveliness_count == y.manual_liveliness_count, "manual_liveliness_count changed over the wire");
  assert!(x.builtin_endpoint_qos == y.builtin_endpoint_qos, "builtin_endpoint_qos changed over the wire");
  assert!(opt_str_eq(&x.entity_name, &y.entity_name), "entity_name changed over the wire");
}

fn participant_over_the_wire(
  x: &SpdpDiscoveredParticipantData,
  enc: RepresentationIdentifier,
) -> SpdpDiscoveredParticipantData {
  let bytes = must!(x.to_pl_cdr_bytes(enc), "SpdpDiscoveredParticipantData serialize failed");
  assert!(bytes.len() % 4 == 0, "serialized SpdpDiscoveredParticipantData is not 4-aligned");
  let y = must!(
    SpdpDiscoveredParticipantData::from_pl_cdr_bytes(&bytes, enc),
    "SpdpDiscoveredParticipantData deserialize failed"
  );
  core::mem::forget(bytes);
  y
}

macro_rules! participant_harness {
  ($name:ident, $enc:expr, $pat:expr) => {
    c15_record_proof!($name, 24, {
      let p: PPat = $pat;
      let x = participant_record(p);
      let y = participant_over_the_wire(&x, $enc);
      participant_check_same(&x, &y);
      vk_cover!(
        x.expects_inline_qos && x.manual_liveliness_count < 0 && x.lease_duration.is_some() == p.lease,
        "inline QoS expected, negative count, intended presence pattern"
      );
      core::mem::forget(y);
      core::mem::forget(x);
    });
  };
}
participant_harness!(c15_participant_none_le, LE, P_NONE);
participant_harness!(c15_participant_none_be, BE, P_NONE);
participant_harness!(c15_participant_lease_be, BE, PPat { lease: true, ..P_NONE });
participant_harness!(c15_participant_endpoint_qos_le, LE, PPat { endpoint_qos: true, ..P_NONE });
participant_harness!(c15_participant_entity_name_be, BE, PPat { entity_name: Some(2), ..P_NONE });
participant_harness!(c15_participant_meta_unicast_le, LE, PPat { meta_uni: L_UDP4, ..P_NONE });
participant_harness!(c15_participant_default_multicast_be, BE, PPat { def_multi: L_UDP4, ..P_NONE });
// what RustDDS itself announces: four locator lists, lease duration (11 parameters)
participant_harness!(
  c15_participant_own_le,
  LE,
  PPat { meta_uni: L_UDP4, meta_multi: L_UDP4, def_uni: L_UDP4, def_multi: L_UDP4, lease: true, ..P_NONE }
);
// every optional field present (13 parameters)
participant_harness!(
  c15_participant_all_be,
  BE,
  PPat { meta_uni: L_UDP4, meta_multi: L_UDP4, def_uni: L_UDP6, def_multi: L_UDP4, lease: true, endpoint_qos: true, entity_name: Some(3) }
);

// Defaults RTPS prescribes for parameters RustDDS always emits but other vendors may omit:
// PID_EXPECTS_INLINE_QOS absent -> false, PID_PARTICIPANT_MANUAL_LIVELINESS_COUNT absent -> 0
// (the code documents both).  Both parameters are removed from the emitted list (indices 5
// and 2 of the six mandatory parameters) before it goes on the wire.
c15_record_proof!(c15_participant_defaults, 24, {
  let x = participant_record(P_NONE);
  let mut pl = must!(x.to_parameter_list(LE), "to_parameter_list failed");
  assert!(pl.parameters.len() == 6);
  assert!(pl.parameters[5].parameter_id == ParameterId::PID_PARTICIPANT_MANUAL_LIVELINESS_COUNT);
  let d1 = pl.parameters.remove(5);
  assert!(pl.parameters[2].parameter_id == ParameterId::PID_EXPECTS_INLINE_QOS);
  let d2 = pl.parameters.remove(2);
  let bytes: Vec<u8> = must!(pl.write_to_vec_with_ctx(Endianness::LittleEndian), "write failed");
  let y = must!(SpdpDiscoveredParticipantData::from_pl_cdr_bytes(&bytes, LE), "deserialize failed");
  assert!(!y.expects_inline_qos, "absent PID_EXPECTS_INLINE_QOS must decode to false");
  assert!(y.manual_liveliness_count == 0, "absent manual liveliness count must decode to 0");
  assert!(y.lease_duration.is_none() && y.builtin_endpoint_qos.is_none() && y.entity_name.is_none(),
    "absent optional parameters must decode to None");
  assert!(y.participant_guid == x.participant_guid && y.vendor_id == x.vendor_id
    && y.protocol_version == x.protocol_version
    && y.available_builtin_endpoints == x.available_builtin_endpoints,
    "removing two parameters disturbed the others");
  vk_cover!(x.expects_inline_qos && x.manual_liveliness_count != 0, "the sender had both set");
  core::mem::forget((x, pl, d1, d2, bytes, y));
});
