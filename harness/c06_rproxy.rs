// C06 (hostile-field half) harnesses on RtpsReaderProxy::mark_frags_requested — child module
// of crate::rtps::rtps_reader_proxy (sees the private frags_requested map).
//
// Input: a FragmentNumberSet that came out of the real decoder on arbitrary bytes (what a
// NACK_FRAG carries); writer_sn concrete (it is only a map key).
//
// REACHABILITY: Writer::handle_ack_nack calls mark_frags_requested for AckSubmessage::NackFrag,
// but MessageReceiver::handle_reader_submessage drops every received NACK_FRAG today
// ("TODO: Implement NackFrag handling"), so nothing on the network reaches this code: what
// fails here is LATENT (it becomes a remote crash the day NACK_FRAG is forwarded).
#![allow(dead_code, unused_imports, unused_macros, unused_variables, unused_mut, clippy::all)]
use super::*;
use crate::{
  structure::{
    guid::GuidPrefix,
    sequence_number::{
      verif_harness_c06_numset::{any_bytes, c06_proof, fn_iter_overflows, rd_u32, KF_C06_NUMSET_ITER_OVERFLOW},
      FragmentNumber, FragmentNumberSet,
    },
  },
  verif_vk as vk,
  verif_vk::vk_cover,
};
use speedy::{Endianness, Readable};

// Placeholder until generated into crate::verif_cfg (see c06_numset.rs).  true = OPEN.
/// mark_frags_requested on a sequence number whose fragments were all marked requested
/// (mark_all_frags_requested(sn, N), done for every fragmented sample sent): a requested
/// fragment number 0 (`usize::from(f) - 1` underflows) or > N (BitVec::set beyond its length).
pub(crate) const KF_C06_RPROXY_MARK_FRAGS: bool = crate::verif_cfg::KF_C06_RPROXY_MARK_FRAGS; // generated from /verif/known_findings.json: true while the finding is open

fn proxy() -> RtpsReaderProxy {
  RtpsReaderProxy::new(
    GUID::new(
      GuidPrefix {
        bytes: [1, 1, 2, 3, 4, 5, 6, 7, 8, 9, 10, 11],
      },
      EntityId::UNKNOWN,
    ),
    QosPolicies::qos_none(),
    false,
  )
}

/// bit j set <=> fragment number j+1 requested (n <= 64)
fn requested_mask(p: &RtpsReaderProxy, sn: SequenceNumber, n: usize) -> Option<u64> {
  match p.frags_requested.get(&sn) {
    None => None,
    Some(bv) => {
      let mut m = 0u64;
      let mut j = 0;
      while j < n {
        if bv.get(j) == Some(true) {
          m |= 1u64 << j;
        }
        j += 1;
      }
      Some(m)
    }
  }
}

// ------------------------------------------------------------------------- fresh proxy
// Nothing was marked for the SN before: the code looks at the last bit of its own (empty)
// bit vector instead of the request, logs "Empty set in NackFrag???" and records NOTHING —
// panic-free for every parsed set, but the request is lost (a C02/C03 matter once NACK_FRAG is
// wired up; reported, not asserted as a C06 violation).
fn mark_fresh<const L: usize>(e: Endianness) {
  let buf = any_bytes::<L>();
  let r = FragmentNumberSet::read_from_buffer_with_ctx(e, &buf);
  if let Ok(set) = &r {
    // (the SN is only a map key; a symbolic key made the container stand-in exceed 8 GB)
    let sn = SequenceNumber::new(7);
    let mut p = proxy();
    p.mark_frags_requested(sn, set);
    match p.frags_requested.get(&sn) {
      Some(bv) => assert!(bv.len() == 0, "bits recorded on a fresh proxy"),
      None => panic!("no entry created"),
    }
    assert!(!p.repair_frags_requested(), "a repair is pending although nothing was recorded");
    core::mem::forget(p);
  }
  vk_cover!(r.is_ok() && buf[8] != 0, "non-empty request");
  vk_cover!(r.is_err(), "malformed set");
  core::mem::forget(r);
}
c06_proof!(c06_rproxy_mark_frags_fresh_12_le, 36, mark_fresh::<12>(Endianness::LittleEndian));
c06_proof!(c06_rproxy_mark_frags_fresh_12_be, 36, mark_fresh::<12>(Endianness::BigEndian));

// ------------------------------------------------------------------------- after mark_all_frags_requested(sn, N)
// numBits of the parsed set is limited to NB (assumed on the wire bytes) to keep the nested
// iterator loops inside a small unwind bound; base and bitmap word are free.
fn mark_after_all<const L: usize, const N: u32, const NB: u32>(
  e: Endianness,
  exclude_iter_overflow: bool,
  exclude_zero: bool,
  exclude_beyond: bool,
) {
  let buf = any_bytes::<L>();
  vk::assume(rd_u32(&buf, 4, e) <= NB);
  let r = FragmentNumberSet::read_from_buffer_with_ctx(e, &buf);
  if let Ok(set) = &r {
    if exclude_iter_overflow {
      vk::assume(!fn_iter_overflows(set));
    }
    let lo = set.iter().next().map(u32::from);
    let hi = set.iter().next_back().map(u32::from);
    // The excluded class is "some member is 0 / beyond N".  It is stated over ALL members,
    // not over the first/last one: with a base near u32::MAX the members wrap around (the
    // iterator wraps since the numset-iter-overflow fix), so first/last are not min/max.
    for f in set.iter() {
      let f = u32::from(f);
      if exclude_zero {
        vk::assume(f != 0);
      }
      if exclude_beyond {
        vk::assume(f <= N);
      }
    }
    // (the SN is only a map key; a symbolic key made the container stand-in exceed 8 GB)
    let sn = SequenceNumber::new(7);
    let mut p = proxy();
    p.mark_all_frags_requested(sn, N);
    // fragment 1 was sent in the meantime.  (Bit cleared directly and at a CONCRETE position:
    // mark_frag_sent's "remove the entry when empty" branch under a symbolic condition, and a
    // symbolic last bit -- which makes BitVec::grow by a symbolic amount look reachable to the
    // symbolic executor -- are intractable and are not what is examined here.)
    let sent = 1u32;
    match p.frags_requested.get_mut(&sn) {
      Some(bv) => bv.set((sent - 1) as usize, false),
      None => panic!("mark_all_frags_requested created no entry"),
    }
    let before = requested_mask(&p, sn, N as usize);
    p.mark_frags_requested(sn, set);
    let after = requested_mask(&p, sn, N as usize);
    if let (Some(b), Some(a)) = (before, after) {
      assert!(a & b == b, "a pending request was dropped");
      if let Some(l) = lo {
        if l >= 1 && l <= N {
          assert!(a & (1u64 << (l - 1)) != 0, "requested fragment not recorded");
        }
      }
    }
    vk_cover!(lo == Some(sent) && before.is_some(), "re-request of a fragment already sent");
    core::mem::forget(p);
  }
  vk_cover!(r.is_ok(), "parsed set");
  core::mem::forget(r);
}
c06_proof!(
  c06_rproxy_mark_frags_after_all_12_le_n4,
  11,
  mark_after_all::<12, 4, 8>(Endianness::LittleEndian, KF_C06_NUMSET_ITER_OVERFLOW, KF_C06_RPROXY_MARK_FRAGS, KF_C06_RPROXY_MARK_FRAGS)
);
c06_proof!(
  c06_rproxy_mark_frags_after_all_12_be_n6,
  11,
  mark_after_all::<12, 6, 8>(Endianness::BigEndian, KF_C06_NUMSET_ITER_OVERFLOW, KF_C06_RPROXY_MARK_FRAGS, KF_C06_RPROXY_MARK_FRAGS)
);

// ------------------------------------------------------------------------- FINDINGS (latent)
// fragment number 0 in the set (base 0, bit 0): `usize::from(f) - 1`
c06_proof!(c06_finding_latent_rproxy_mark_frags_zero, 11, mark_after_all::<12, 4, 8>(Endianness::LittleEndian, true, false, true));
// fragment number beyond the N bits mark_all_frags_requested created: BitVec::set panics
c06_proof!(c06_finding_latent_rproxy_mark_frags_beyond, 11, mark_after_all::<12, 4, 8>(Endianness::LittleEndian, true, true, false));
