// C06 (parser half) harnesses on the RTPS header, submessage header, the speedy-decoded
// submessage bodies, Submessage::read_from_buffer and Message::read_from_buffer — child module
// of crate::rtps::submessage.
//
// Oracle: Kani's built-in checks (no reachable panic / overflow / out-of-bounds / unwrap on
// None) for ANY bytes at a concrete buffer length; Err is fine.  Each harness shows by
// vk_cover! that both an accepted and a rejected input exist.
#![allow(dead_code, unused_imports, unused_macros, unused_variables, clippy::all)]
use super::*;
use crate::{
  messages::{header::Header, validity_trait::Validity},
  rtps::Message,
  structure::sequence_number::verif_harness_c06_numset::{any_bytes, bytes_of, c06_proof, rd_u16, rd_u32},
  verif_vk as vk,
  verif_vk::vk_cover,
};
use speedy::Endianness;

fn any_endianness() -> Endianness {
  if vk::any::<bool>() {
    Endianness::LittleEndian
  } else {
    Endianness::BigEndian
  }
}

// ------------------------------------------------------------------------- headers

fn submessage_header_case<const L: usize>() {
  let buf = any_bytes::<L>();
  let r = SubmessageHeader::read_from_buffer(&buf);
  match &r {
    Ok(h) => {
      assert!(L >= 4, "submessage header parsed from fewer than 4 bytes");
      assert!(u8::from(h.kind) == buf[0] && h.flags == buf[1], "kind / flags bytes");
      let e = endianness_flag(buf[1]);
      assert!(h.content_length == rd_u16(&buf, 2, e), "octetsToNextHeader not read in the byte order of flag E");
    }
    Err(_) => assert!(L < 4, "4 bytes are always a submessage header"),
  }
  vk_cover!(if L >= 4 { r.is_ok() && buf[1] & 1 == 0 && buf[2] == 0xff } else { r.is_err() }, "big-endian length >= 0xff00 (short buffer: rejected)");
  core::mem::forget(r);
}
c06_proof!(c06_parse_submessage_header_3, 11, submessage_header_case::<3>());
c06_proof!(c06_parse_submessage_header_4, 11, submessage_header_case::<4>());
c06_proof!(c06_parse_submessage_header_5, 11, submessage_header_case::<5>());

fn header_case<const L: usize>() {
  let buf = any_bytes::<L>();
  let r = Header::read_from_buffer(&buf);
  match &r {
    Ok(h) => {
      assert!(L >= 20, "RTPS header parsed from fewer than 20 bytes");
      let v = h.valid();
      let magic = buf[0] == b'R' && buf[1] == b'T' && buf[2] == b'P' && buf[3] == b'S';
      assert!(!v || magic, "header without the RTPS magic is valid");
      assert!(!v || buf[4] <= 2, "header of a later major protocol version is valid");
      assert!(h.guid_prefix.bytes[0] == buf[8] && h.guid_prefix.bytes[11] == buf[19], "guid prefix bytes");
    }
    Err(_) => assert!(L < 20, "20 bytes are always an RTPS header (valid or not)"),
  }
  vk_cover!(L < 20 || matches!(&r, Ok(h) if h.valid()), "valid header");
  vk_cover!(L < 20 || matches!(&r, Ok(h) if !h.valid() && buf[0] == b'R' && buf[3] == b'S'), "invalid header");
  vk_cover!(r.is_ok() == (L >= 20), "decided by the length alone");
  core::mem::forget(r);
}
c06_proof!(c06_parse_header_19, 14, header_case::<19>());
c06_proof!(c06_parse_header_20, 14, header_case::<20>());
c06_proof!(c06_parse_header_21, 14, header_case::<21>());

// ------------------------------------------------------------------------- fixed-size bodies
// exact length, one short, one long; byte order symbolic (no length travels in the bytes)

macro_rules! fixed_body {
  ($name:ident, $ty:ty, $exact:expr, $L:expr) => {
    c06_proof!($name, 14, {
      let e = any_endianness();
      let buf = any_bytes::<$L>();
      let r = <$ty>::read_from_buffer_with_ctx(e, &buf);
      assert!(r.is_ok() == ($L >= $exact), "fixed-size body: accepted iff the buffer holds it (trailing bytes are ignored)");
      vk_cover!(e == Endianness::BigEndian, "big endian");
      vk_cover!(e == Endianness::LittleEndian, "little endian");
      core::mem::forget(r);
    });
  };
}
fixed_body!(c06_parse_heartbeat_27, Heartbeat, 28, 27);
fixed_body!(c06_parse_heartbeat_28, Heartbeat, 28, 28);
fixed_body!(c06_parse_heartbeat_29, Heartbeat, 28, 29);
fixed_body!(c06_parse_heartbeatfrag_23, HeartbeatFrag, 24, 23);
fixed_body!(c06_parse_heartbeatfrag_24, HeartbeatFrag, 24, 24);
fixed_body!(c06_parse_heartbeatfrag_25, HeartbeatFrag, 24, 25);
fixed_body!(c06_parse_infots_7, Timestamp, 8, 7);
fixed_body!(c06_parse_infots_8, Timestamp, 8, 8);
fixed_body!(c06_parse_infots_9, Timestamp, 8, 9);
fixed_body!(c06_parse_infosrc_19, InfoSource, 20, 19);
fixed_body!(c06_parse_infosrc_20, InfoSource, 20, 20);
fixed_body!(c06_parse_infosrc_21, InfoSource, 20, 21);
fixed_body!(c06_parse_infodst_11, InfoDestination, 12, 11);
fixed_body!(c06_parse_infodst_12, InfoDestination, 12, 12);
fixed_body!(c06_parse_infodst_13, InfoDestination, 12, 13);

// ------------------------------------------------------------------------- bodies with a number set
// The set's numBits is symbolic (it is in the bytes): every relation between the declared
// bitmap size and the buffer (fits exactly / bitmap or trailing count cut off / bytes left
// over / numBits > 256) is inside one instance.  Byte order concrete per instance.

fn gap_case<const L: usize>(e: Endianness) {
  let buf = any_bytes::<L>();
  let r = Gap::read_from_buffer_with_ctx(e, &buf);
  let nb = if L >= 28 { rd_u32(&buf, 24, e) } else { 0 };
  let need = 28 + 4 * ((nb as usize + 31) / 32);
  match &r {
    Ok(g) => {
      assert!(L >= 28 && nb <= 256 && need <= L, "GAP accepted although numBits > 256 or the bitmap is cut off");
      assert!(g.gap_list.len_serialized() + 16 == need);
    }
    Err(_) => assert!(L < 28 || nb > 256 || need > L, "well-formed GAP rejected"),
  }
  vk_cover!(if L >= 28 { r.is_ok() && need == L } else { r.is_err() }, "exact fit (short buffer: rejected)");
  vk_cover!(L < 28 || (r.is_err() && nb == 257), "numBits 257 rejected");
  core::mem::forget(r);
}
c06_proof!(c06_parse_gap_27_le, 11, gap_case::<27>(Endianness::LittleEndian));
c06_proof!(c06_parse_gap_28_le, 11, gap_case::<28>(Endianness::LittleEndian));
c06_proof!(c06_parse_gap_32_le, 11, gap_case::<32>(Endianness::LittleEndian));
c06_proof!(c06_parse_gap_32_be, 11, gap_case::<32>(Endianness::BigEndian));
c06_proof!(c06_parse_gap_33_le, 11, gap_case::<33>(Endianness::LittleEndian));
c06_proof!(c06_parse_gap_60_le, 11, gap_case::<60>(Endianness::LittleEndian));
c06_proof!(c06_parse_gap_60_be, 11, gap_case::<60>(Endianness::BigEndian));

fn acknack_case<const L: usize>(e: Endianness) {
  let buf = any_bytes::<L>();
  let r = AckNack::read_from_buffer_with_ctx(e, &buf);
  let nb = if L >= 20 { rd_u32(&buf, 16, e) } else { 0 };
  // readerId 4 + writerId 4 + set (12 + 4w) + count 4
  let need = 24 + 4 * ((nb as usize + 31) / 32);
  match &r {
    Ok(a) => {
      assert!(L >= 24 && nb <= 256 && need <= L, "ACKNACK accepted although numBits > 256 or bitmap / count cut off");
      assert!(a.len_serialized() == need);
      assert!(a.count == rd_u32(&buf, need - 4, e) as i32, "count not taken from behind the bitmap");
    }
    Err(_) => assert!(L < 24 || nb > 256 || need > L, "well-formed ACKNACK rejected"),
  }
  vk_cover!(if L >= 24 { r.is_ok() && need == L } else { r.is_err() }, "exact fit (short buffer: rejected)");
  vk_cover!(L < 24 || (r.is_err() && nb <= 256), "bitmap or count cut off");
  core::mem::forget(r);
}
c06_proof!(c06_parse_acknack_23_le, 11, acknack_case::<23>(Endianness::LittleEndian));
c06_proof!(c06_parse_acknack_24_le, 11, acknack_case::<24>(Endianness::LittleEndian));
c06_proof!(c06_parse_acknack_28_le, 11, acknack_case::<28>(Endianness::LittleEndian));
c06_proof!(c06_parse_acknack_28_be, 11, acknack_case::<28>(Endianness::BigEndian));
c06_proof!(c06_parse_acknack_29_le, 11, acknack_case::<29>(Endianness::LittleEndian));
c06_proof!(c06_parse_acknack_52_le, 11, acknack_case::<52>(Endianness::LittleEndian));
c06_proof!(c06_parse_acknack_52_be, 11, acknack_case::<52>(Endianness::BigEndian));

fn nackfrag_case<const L: usize>(e: Endianness) {
  let buf = any_bytes::<L>();
  let r = NackFrag::read_from_buffer_with_ctx(e, &buf);
  let nb = if L >= 24 { rd_u32(&buf, 20, e) } else { 0 };
  // readerId 4 + writerId 4 + writerSN 8 + set (8 + 4w) + count 4
  let need = 28 + 4 * ((nb as usize + 31) / 32);
  match &r {
    Ok(n) => {
      assert!(L >= 28 && nb <= 256 && need <= L, "NACKFRAG accepted although numBits > 256 or bitmap / count cut off");
      assert!(n.len_serialized() == need);
    }
    Err(_) => assert!(L < 28 || nb > 256 || need > L, "well-formed NACKFRAG rejected"),
  }
  vk_cover!(if L >= 28 { r.is_ok() && need == L } else { r.is_err() }, "exact fit (short buffer: rejected)");
  vk_cover!(L < 28 || (r.is_err() && nb <= 256), "bitmap or count cut off");
  core::mem::forget(r);
}
c06_proof!(c06_parse_nackfrag_27_le, 11, nackfrag_case::<27>(Endianness::LittleEndian));
c06_proof!(c06_parse_nackfrag_28_le, 11, nackfrag_case::<28>(Endianness::LittleEndian));
c06_proof!(c06_parse_nackfrag_32_le, 11, nackfrag_case::<32>(Endianness::LittleEndian));
c06_proof!(c06_parse_nackfrag_32_be, 11, nackfrag_case::<32>(Endianness::BigEndian));
c06_proof!(c06_parse_nackfrag_33_le, 11, nackfrag_case::<33>(Endianness::LittleEndian));
c06_proof!(c06_parse_nackfrag_56_le, 11, nackfrag_case::<56>(Endianness::LittleEndian));

// ------------------------------------------------------------------------- INFO_REPLY
// Two length-prefixed locator lists (u32 count each, 24 bytes per locator; RustDDS reads the
// second one behind a one-byte Option tag).  The counts are hostile.  NOTE (trusted, not
// decided here): that a count the buffer cannot hold is rejected BEFORE count * 24 bytes are
// allocated is the job of speedy's slice reader (`can_read_at_least` in read_vec), whose
// pointer arithmetic CBMC cannot fold (the unstubbed harness did not finish in 600 s even for
// 5 bytes).  Under Kani read_vec is the element-wise stand-in of c06_numset.rs (<= 2
// locators per list, a larger count fails at end of input); native replay runs the original.
fn inforeply_case<const L: usize>(e: Endianness) {
  let buf = any_bytes::<L>();
  let n1 = if L >= 4 { rd_u32(&buf, 0, e) } else { 0 };
  let r = InfoReply::read_from_buffer_with_ctx(e, &buf);
  match &r {
    Ok(ir) => {
      assert!(L >= 5, "INFO_REPLY parsed from fewer than 5 bytes");
      assert!(ir.unicast_locator_list.len() == n1 as usize, "locator count");
      assert!(4 + 24 * (n1 as usize) + 1 <= L, "locators taken from beyond the buffer");
    }
    Err(_) => {}
  }
  vk_cover!(if L >= 5 { r.is_ok() && n1 as usize == (L - 5) / 24 } else { r.is_err() }, "as many locators as fit (short buffer: rejected)");
  vk_cover!(L < 4 || (r.is_err() && n1 == u32::MAX), "count 2^32-1 rejected");
  core::mem::forget(r);
}
c06_proof!(c06_parse_inforeply_4_le, 5, inforeply_case::<4>(Endianness::LittleEndian));
c06_proof!(c06_parse_inforeply_5_le, 5, inforeply_case::<5>(Endianness::LittleEndian));
c06_proof!(c06_parse_inforeply_8_be, 5, inforeply_case::<8>(Endianness::BigEndian));
c06_proof!(c06_parse_inforeply_29_le, 18, inforeply_case::<29>(Endianness::LittleEndian));
c06_proof!(c06_parse_inforeply_33_le, 18, inforeply_case::<33>(Endianness::LittleEndian));

// ------------------------------------------------------------------------- Submessage::read_from_buffer
// kind byte, flags byte and octetsToNextHeader CONCRETE per instance (a symbolic length through
// Bytes::split_to is intractable), every body byte symbolic.  L = total bytes in the buffer
// (4 header bytes + body + possibly following bytes); `otn` from the grid
// {0, 1, L-5, L-4, L-3, 0xFFFF}: "to the end of the message", minimal, one short of the rest,
// exactly the rest, one more than the rest, maximal.

#[derive(Clone, Copy, PartialEq, Eq)]
pub(crate) enum Expect {
  /// Err or Ok(None) or Ok(Some) — only panic-freedom and the buffer accounting are checked
  Any,
  /// must be skipped: Ok(None)
  Skipped,
  /// must be rejected
  Rejected,
}

pub(crate) fn frame<const L: usize>(kind: u8, flags: u8, otn: u16) -> [u8; L] {
  let mut buf = any_bytes::<L>();
  buf[0] = kind;
  buf[1] = flags;
  let l = if flags & 1 == 1 { otn.to_le_bytes() } else { otn.to_be_bytes() };
  buf[2] = l[0];
  buf[3] = l[1];
  buf
}

fn submsg_case<const L: usize>(kind: u8, flags: u8, otn: u16, expect: Expect) {
  let buf = frame::<L>(kind, flags, otn);
  let mut b = bytes_of(&buf);
  let r = Submessage::read_from_buffer(&mut b);
  // how much a conforming receiver consumes
  let body = if otn == 0 && kind != 0x01 && kind != 0x09 { L - 4 } else { otn as usize };
  let fits = 4 + body <= L;
  match &r {
    Ok(o) => {
      assert!(fits, "submessage accepted although octetsToNextHeader points beyond the datagram");
      assert!(b.len() == L - 4 - body, "the next submessage header is not looked for at octetsToNextHeader");
      assert!(expect != Expect::Rejected, "malformed submessage accepted");
      if let Some(sm) = o {
        assert!(expect != Expect::Skipped, "submessage of an unknown / vendor-specific / PAD kind not skipped");
        assert!(u8::from(sm.header.kind) == kind && sm.header.flags == flags && sm.header.content_length == otn);
        match &sm.original_bytes {
          Some(ob) => assert!(ob.len() == 4 + body, "original_bytes is not header + body"),
          None => panic!("parsed submessage without original_bytes"),
        }
      }
    }
    Err(_) => {
      assert!(expect != Expect::Skipped, "unknown / vendor-specific / PAD submessage made the whole datagram undecodable");
      if !fits {
        assert!(b.len() == L, "rejected for its length, yet bytes were consumed");
      }
    }
  }
  vk_cover!(
    match expect {
      Expect::Any => true,
      Expect::Skipped => matches!(&r, Ok(None)),
      Expect::Rejected => r.is_err(),
    },
    "expected outcome reached"
  );
  core::mem::forget(r);
  core::mem::forget(b);
}

macro_rules! submsg_proof {
  ($name:ident, $L:expr, $kind:expr, $flags:expr, $otn:expr, $expect:expr) => {
    #[cfg_attr(kani, kani::proof, kani::unwind(11))]
    #[cfg_attr(kani, kani::stub(std::fmt::format, crate::verif_env::stub_format))]
    #[cfg_attr(
      kani,
      kani::stub(
        speedy::Readable::read_from_buffer_with_ctx,
        crate::structure::sequence_number::verif_harness_c06_numset::StubReadable::stub_read_from_buffer_with_ctx
      )
    )]
    #[cfg_attr(
      kani,
      kani::stub(
        speedy::Reader::read_vec,
        crate::structure::sequence_number::verif_harness_c06_numset::StubReader::stub_read_vec
      )
    )]
    #[cfg_attr(kani, kani::stub(std::vec::Vec::with_capacity, crate::verif_env::stub_vec_with_capacity))]
    #[cfg_attr(kani, kani::stub(std::vec::Vec::push, crate::verif_env::stub_vec_push))]
    #[cfg_attr(verif_replay, test)]
    fn $name() {
      crate::verif_vk::begin(stringify!($name));
      submsg_case::<$L>($kind, $flags, $otn, $expect);
      crate::verif_vk::end();
    }
  };
}
pub(crate) use submsg_proof;

// HEARTBEAT (0x07), body 28 bytes: L = 32 is the exact datagram tail
submsg_proof!(c06_submsg_heartbeat_l32_otn0, 32, 0x07, 0x01, 0, Expect::Any);
submsg_proof!(c06_submsg_heartbeat_l32_otn1, 32, 0x07, 0x01, 1, Expect::Rejected);
submsg_proof!(c06_submsg_heartbeat_l32_otn27, 32, 0x07, 0x01, 27, Expect::Rejected);
submsg_proof!(c06_submsg_heartbeat_l32_otn28, 32, 0x07, 0x01, 28, Expect::Any);
submsg_proof!(c06_submsg_heartbeat_l32_otn28_be, 32, 0x07, 0x00, 28, Expect::Any);
submsg_proof!(c06_submsg_heartbeat_l32_otn29, 32, 0x07, 0x01, 29, Expect::Rejected);
submsg_proof!(c06_submsg_heartbeat_l32_otnmax, 32, 0x07, 0x01, 0xFFFF, Expect::Rejected);
submsg_proof!(c06_submsg_heartbeat_l36_otn28, 36, 0x07, 0x03, 28, Expect::Any);
// ACKNACK (0x06): 24 + 4w
submsg_proof!(c06_submsg_acknack_l32_otn0, 32, 0x06, 0x01, 0, Expect::Any);
submsg_proof!(c06_submsg_acknack_l32_otn27, 32, 0x06, 0x01, 27, Expect::Any);
submsg_proof!(c06_submsg_acknack_l32_otn28, 32, 0x06, 0x03, 28, Expect::Any);
submsg_proof!(c06_submsg_acknack_l32_otn28_be, 32, 0x06, 0x00, 28, Expect::Any);
submsg_proof!(c06_submsg_acknack_l32_otn29, 32, 0x06, 0x01, 29, Expect::Rejected);
submsg_proof!(c06_submsg_acknack_l32_otn1, 32, 0x06, 0x01, 1, Expect::Rejected);
// GAP (0x08): 28 + 4w
submsg_proof!(c06_submsg_gap_l36_otn0, 36, 0x08, 0x01, 0, Expect::Any);
submsg_proof!(c06_submsg_gap_l36_otn31, 36, 0x08, 0x01, 31, Expect::Any);
submsg_proof!(c06_submsg_gap_l36_otn32, 36, 0x08, 0x01, 32, Expect::Any);
submsg_proof!(c06_submsg_gap_l36_otn33, 36, 0x08, 0x01, 33, Expect::Rejected);
// NACK_FRAG (0x12): 28 + 4w
submsg_proof!(c06_submsg_nackfrag_l36_otn0, 36, 0x12, 0x01, 0, Expect::Any);
submsg_proof!(c06_submsg_nackfrag_l36_otn32, 36, 0x12, 0x00, 32, Expect::Any);
submsg_proof!(c06_submsg_nackfrag_l36_otn31, 36, 0x12, 0x01, 31, Expect::Any);
// HEARTBEAT_FRAG (0x13): 24
submsg_proof!(c06_submsg_heartbeatfrag_l28_otn0, 28, 0x13, 0x01, 0, Expect::Any);
submsg_proof!(c06_submsg_heartbeatfrag_l28_otn23, 28, 0x13, 0x01, 23, Expect::Rejected);
submsg_proof!(c06_submsg_heartbeatfrag_l28_otn24, 28, 0x13, 0x00, 24, Expect::Any);
submsg_proof!(c06_submsg_heartbeatfrag_l28_otn25, 28, 0x13, 0x01, 25, Expect::Rejected);
// INFO_TS (0x09): 8, or 0 with the Invalidate flag; otn 0 means an EMPTY body for this kind
submsg_proof!(c06_submsg_infots_l12_otn0, 12, 0x09, 0x01, 0, Expect::Rejected);
submsg_proof!(c06_submsg_infots_l12_otn0_inval, 12, 0x09, 0x03, 0, Expect::Any);
submsg_proof!(c06_submsg_infots_l12_otn7, 12, 0x09, 0x01, 7, Expect::Rejected);
submsg_proof!(c06_submsg_infots_l12_otn8, 12, 0x09, 0x01, 8, Expect::Any);
submsg_proof!(c06_submsg_infots_l12_otn9, 12, 0x09, 0x00, 9, Expect::Rejected);
submsg_proof!(c06_submsg_infots_l4_otn0_inval, 4, 0x09, 0x02, 0, Expect::Any);
// INFO_SRC (0x0c): 20, INFO_DST (0x0e): 12
submsg_proof!(c06_submsg_infosrc_l24_otn0, 24, 0x0c, 0x01, 0, Expect::Any);
submsg_proof!(c06_submsg_infosrc_l24_otn19, 24, 0x0c, 0x01, 19, Expect::Rejected);
submsg_proof!(c06_submsg_infosrc_l24_otn20, 24, 0x0c, 0x00, 20, Expect::Any);
submsg_proof!(c06_submsg_infodst_l16_otn0, 16, 0x0e, 0x01, 0, Expect::Any);
submsg_proof!(c06_submsg_infodst_l16_otn11, 16, 0x0e, 0x01, 11, Expect::Rejected);
submsg_proof!(c06_submsg_infodst_l16_otn12, 16, 0x0e, 0x00, 12, Expect::Any);
submsg_proof!(c06_submsg_infodst_l16_otn13, 16, 0x0e, 0x01, 13, Expect::Rejected);
// PAD (0x01), unknown standard kind (0x02, 0x7f), INFO_REPLY_IP4 (0x0d, not implemented),
// vendor-specific kinds (0x80, 0xff): skipped whatever the body holds
submsg_proof!(c06_submsg_pad_l12_otn0, 12, 0x01, 0x01, 0, Expect::Skipped);
submsg_proof!(c06_submsg_pad_l12_otn8, 12, 0x01, 0x00, 8, Expect::Skipped);
submsg_proof!(c06_submsg_pad_l12_otn9, 12, 0x01, 0x01, 9, Expect::Rejected);
submsg_proof!(c06_submsg_unknown02_l12_otn0, 12, 0x02, 0x01, 0, Expect::Skipped);
submsg_proof!(c06_submsg_unknown7f_l12_otn7, 12, 0x7f, 0xff, 7, Expect::Skipped);
submsg_proof!(c06_submsg_replyip4_l12_otn8, 12, 0x0d, 0x01, 8, Expect::Skipped);
submsg_proof!(c06_submsg_vendor80_l12_otn8, 12, 0x80, 0x01, 8, Expect::Skipped);
submsg_proof!(c06_submsg_vendorff_l12_otn1, 12, 0xff, 0x00, 1, Expect::Skipped);
submsg_proof!(c06_submsg_vendorff_l12_otnmax, 12, 0xff, 0x01, 0xFFFF, Expect::Rejected);
submsg_proof!(c06_submsg_vendor80_l4_otn0, 4, 0x80, 0x01, 0, Expect::Skipped);
// DATA (0x15) and DATA_FRAG (0x16) framed: bodies decided in depth in c06_data.rs
submsg_proof!(c06_submsg_data_l28_otn0_d, 28, 0x15, 0x05, 0, Expect::Any);
submsg_proof!(c06_submsg_data_l28_otn24_d, 28, 0x15, 0x05, 24, Expect::Any);
submsg_proof!(c06_submsg_data_l28_otn23_k_be, 28, 0x15, 0x08, 23, Expect::Any);
submsg_proof!(c06_submsg_data_l28_otn25_d, 28, 0x15, 0x05, 25, Expect::Rejected);
submsg_proof!(c06_submsg_data_l28_otn1_d, 28, 0x15, 0x05, 1, Expect::Rejected);
submsg_proof!(c06_submsg_data_l32_otn28_qd, 32, 0x15, 0x07, 28, Expect::Any);
submsg_proof!(c06_submsg_datafrag_l40_otn0, 40, 0x16, 0x01, 0, Expect::Any);
submsg_proof!(c06_submsg_datafrag_l40_otn36, 40, 0x16, 0x01, 36, Expect::Any);
submsg_proof!(c06_submsg_datafrag_l40_otn35_be, 40, 0x16, 0x00, 35, Expect::Any);
submsg_proof!(c06_submsg_datafrag_l40_otn37, 40, 0x16, 0x01, 37, Expect::Rejected);
submsg_proof!(c06_submsg_datafrag_l40_otn31, 40, 0x16, 0x01, 31, Expect::Rejected);

// fewer than 4 bytes left: no submessage header
fn submsg_short_case<const L: usize>() {
  let buf = any_bytes::<L>();
  let mut b = bytes_of(&buf);
  let r = Submessage::read_from_buffer(&mut b);
  assert!(r.is_err(), "submessage decoded from fewer than 4 bytes");
  vk_cover!(buf[0] == 0x07, "looks like the start of a HEARTBEAT");
  core::mem::forget(r);
  core::mem::forget(b);
}
c06_proof!(c06_submsg_short_1, 11, submsg_short_case::<1>());
c06_proof!(c06_submsg_short_3, 11, submsg_short_case::<3>());

// ------------------------------------------------------------------------- Message::read_from_buffer
// 20 header bytes symbolic (so: any magic, version, vendor, prefix) followed by concrete
// framing (kind / flags / octetsToNextHeader of each submessage) with symbolic bodies.

fn put_frame(buf: &mut [u8], off: usize, kind: u8, flags: u8, otn: u16) {
  buf[off] = kind;
  buf[off + 1] = flags;
  let l = if flags & 1 == 1 { otn.to_le_bytes() } else { otn.to_be_bytes() };
  buf[off + 2] = l[0];
  buf[off + 3] = l[1];
}

/// layout: list of (kind, flags, otn, body bytes actually present); `trail` extra bytes at the end
fn message_case<const L: usize>(subs: &[(u8, u8, u16, usize)], valid_header: bool, expect_err: bool, expect_n: usize) {
  let mut buf = any_bytes::<L>();
  if valid_header {
    buf[0] = b'R';
    buf[1] = b'T';
    buf[2] = b'P';
    buf[3] = b'S';
    buf[4] = 2;
  }
  let mut off = 20;
  let mut i = 0;
  while i < subs.len() {
    let (k, f, o, present) = subs[i];
    put_frame(&mut buf, off, k, f, o);
    off += 4 + present;
    i += 1;
  }
  let b = bytes_of(&buf);
  let r = Message::read_from_buffer(&b);
  match &r {
    Ok(m) => {
      assert!(!expect_err, "datagram with a malformed submessage accepted");
      assert!(m.header.valid(), "message with an invalid RTPS header accepted");
      assert!(m.submessages.len() <= expect_n, "more submessages than the datagram frames");
    }
    Err(_) => {}
  }
  vk_cover!(r.is_ok() != expect_err, "expected verdict reachable");
  vk_cover!(expect_err || matches!(&r, Ok(m) if m.submessages.len() == expect_n), "every framed submessage decoded");
  vk_cover!(valid_header || r.is_err(), "invalid header rejected");
  core::mem::forget(r);
  core::mem::forget(b);
}

macro_rules! message_proof {
  ($name:ident, $unwind:expr, $body:expr) => {
    #[cfg_attr(kani, kani::proof, kani::unwind($unwind))]
    #[cfg_attr(kani, kani::stub(std::fmt::format, crate::verif_env::stub_format))]
    #[cfg_attr(
      kani,
      kani::stub(
        speedy::Readable::read_from_buffer_with_ctx,
        crate::structure::sequence_number::verif_harness_c06_numset::StubReadable::stub_read_from_buffer_with_ctx
      )
    )]
    #[cfg_attr(
      kani,
      kani::stub(
        speedy::Reader::read_vec,
        crate::structure::sequence_number::verif_harness_c06_numset::StubReader::stub_read_vec
      )
    )]
    #[cfg_attr(kani, kani::stub(std::vec::Vec::with_capacity, crate::verif_env::stub_vec_with_capacity))]
    #[cfg_attr(kani, kani::stub(std::vec::Vec::push, crate::verif_env::stub_vec_push))]
    #[cfg_attr(verif_replay, test)]
    fn $name() {
      crate::verif_vk::begin(stringify!($name));
      $body;
      crate::verif_vk::end();
    }
  };
}
// header only (any 20 bytes): Ok iff valid, no submessages
message_proof!(c06_msg_header_only, 14, message_case::<20>(&[], false, false, 0));
// INFO_DST + HEARTBEAT, both well framed
message_proof!(c06_msg_infodst_heartbeat, 14, message_case::<68>(&[(0x0e, 0x01, 12, 12), (0x07, 0x01, 28, 28)], true, false, 2));
// vendor-specific submessage in front of a HEARTBEAT: skipped, the HEARTBEAT still decodes
message_proof!(c06_msg_vendor_then_heartbeat, 14, message_case::<60>(&[(0x80, 0x01, 4, 4), (0x07, 0x01, 0, 28)], true, false, 1));
// HEARTBEAT followed by 3 stray bytes: the datagram is rejected as a whole (no panic)
message_proof!(c06_msg_heartbeat_trailing3, 14, message_case::<55>(&[(0x07, 0x01, 28, 28)], true, true, 1));
// second submessage's length points beyond the datagram
message_proof!(c06_msg_second_too_long, 14, message_case::<52>(&[(0x0e, 0x01, 12, 12), (0x06, 0x01, 28, 12)], true, true, 2));
