// Tier-O harnesses around the real rtps::reader::Reader — child module of that file.
// Serves C01 (hand-over order), C03 (ACKNACK truthfulness), C06 (hostile handlers),
// C11 (matched sets, reader side).
#![allow(dead_code, unused_imports, unused_variables, clippy::all)]
use std::sync::{Arc, Mutex};

use bytes::Bytes;

use super::*;
use crate::{
  dds::{
    statusevents::{sync_status_channel, StatusChannelReceiver},
    typedesc::TypeDesc,
  },
  network::udp_sender::verif_harness_env_udp as env_udp,
  rtps::submessage::{Submessage, SubmessageBody},
  messages::submessages::submessage::{ReaderSubmessage, WriterSubmessage},
  structure::guid::EntityKind,
  verif_env::{self, BTreeMap as VMap},
  verif_vk as vk,
  verif_vk::vk_cover,
  RepresentationIdentifier,
};

// ------------------------------------------------------------------ capture of sent messages
// What the oracles need from an emitted message: its ACKNACK / NACKFRAG submessages and the
// destination.  Under Kani the Message built by the real code is inspected in the stub and
// then leaked: running the drop glue of Message/Submessage/Bytes symbolically cost more
// than the handler under test (measured 440 s vs 118 s).
/// One emitted ACKNACK, flattened to scalars (no heap: cloning a NumberSet whose length is
/// symbolic is a symbolic-size allocation).  Windows in these harnesses are < 64 wide, so
/// two bitmap words are enough; `words_len` records the real bitmap length.
#[derive(Clone, Copy)]
pub(crate) struct AckRec {
  pub writer_id: EntityId,
  pub reader_id: EntityId,
  pub base: i64,
  pub num_bits: u32,
  pub words_len: usize,
  pub w0: u32,
  pub w1: u32,
  pub count: i32,
}
impl AckRec {
  pub fn of(a: &AckNack) -> Self {
    let (num_bits, words_len, w0, w1) =
      crate::structure::sequence_number::verif_harness_seqnum::ns_parts(&a.reader_sn_state);
    AckRec {
      writer_id: a.writer_id,
      reader_id: a.reader_id,
      base: i64::from(a.reader_sn_state.base()),
      num_bits,
      words_len,
      w0,
      w1,
      count: a.count,
    }
  }
  /// is SN base+off requested (bit set and inside num_bits)?
  pub fn requests(&self, off: i64) -> bool {
    if off < 0 || off >= self.num_bits as i64 || off >= 64 {
      return false;
    }
    let w = if off < 32 { self.w0 } else { self.w1 };
    w & (1u32 << (31 - (off % 32) as u32)) != 0
  }
  pub fn requested_count(&self) -> u32 {
    self.w0.count_ones() + self.w1.count_ones()
  }
}
#[derive(Clone, Copy)]
pub(crate) struct NackFragRec {
  pub writer_sn: i64,
  pub base: u32,
  pub num_bits: u32,
  pub w0: u32,
  pub count: i32,
}
impl NackFragRec {
  pub fn of(n: &NackFrag) -> Self {
    let (num_bits, _len, w0, _w1) =
      crate::structure::sequence_number::verif_harness_seqnum::ns_parts(&n.fragment_number_state);
    NackFragRec {
      writer_sn: i64::from(n.writer_sn),
      base: u32::from(n.fragment_number_state.base()),
      num_bits,
      w0,
      count: n.count,
    }
  }
  pub fn requests(&self, off: u32) -> bool {
    off < self.num_bits && off < 32 && self.w0 & (1u32 << (31 - off)) != 0
  }
}

pub(crate) const MAXREC: usize = 3;
pub(crate) struct Sent {
  pub acks: [Option<AckRec>; MAXREC],
  pub n_acks: usize,
  pub nackfrags: [Option<NackFragRec>; MAXREC],
  pub n_nackfrags: usize,
  pub messages: usize,
  pub info_dst_ok: bool, // every message started with INFO_DST(prefix of destination)
}
impl Sent {
  pub const fn new() -> Self {
    Sent {
      acks: [None; MAXREC],
      n_acks: 0,
      nackfrags: [None; MAXREC],
      n_nackfrags: 0,
      messages: 0,
      info_dst_ok: true,
    }
  }
  pub fn absorb(&mut self, m: &Message, destination: Option<GUID>) {
    self.messages += 1;
    let mut first = true;
    for s in &m.submessages {
      match &s.body {
        SubmessageBody::Reader(ReaderSubmessage::AckNack(a, _)) => {
          if self.n_acks < MAXREC {
            self.acks[self.n_acks] = Some(AckRec::of(a));
          }
          self.n_acks += 1;
        }
        SubmessageBody::Reader(ReaderSubmessage::NackFrag(a, _)) => {
          if self.n_nackfrags < MAXREC {
            self.nackfrags[self.n_nackfrags] = Some(NackFragRec::of(a));
          }
          self.n_nackfrags += 1;
        }
        SubmessageBody::Interpreter(crate::messages::submessages::submessages::InterpreterSubmessage::InfoDestination(d, _)) => {
          if let Some(g) = destination {
            if first && d.guid_prefix != g.prefix {
              self.info_dst_ok = false;
            }
          }
        }
        _ => {}
      }
      first = false;
    }
  }
}

#[cfg(kani)]
pub(crate) static mut SENT: Sent = Sent::new();

/// kani::stub target for Reader::encode_and_send: the Message value the real code built is
/// inspected; serialisation (C14's subject) and the socket are skipped.
#[cfg(kani)]
pub(crate) fn stub_encode_and_send(
  _this: &Reader,
  message: Message,
  destination_guid: GUID,
  _dst_locator_list: &[Locator],
) {
  unsafe {
    (*core::ptr::addr_of_mut!(SENT)).absorb(&message, Some(destination_guid));
  }
  core::mem::forget(message);
}

#[cfg(kani)]
pub(crate) static mut STATUS: Vec<DataReaderStatus> = Vec::new();
#[cfg(kani)]
pub(crate) static mut PSTATUS: Vec<DomainParticipantStatusEvent> = Vec::new();
pub(crate) static mut NOTIFIED: usize = 0;

/// kani::stub targets for the three places where the Reader talks to channels.  The real
/// bodies are 5-line wrappers around mio-extras `try_send`, whose error type carries an
/// io::Error: its recursive, dyn-dispatched drop glue is what made CBMC's symbolic
/// execution explode (measured).  The events themselves are recorded, so "which status
/// event is emitted with which counts" is still decided on the real code.
#[cfg(kani)]
pub(crate) fn stub_send_status_change(_this: &Reader, change: DataReaderStatus) {
  unsafe { (*core::ptr::addr_of_mut!(STATUS)).push(change) }
}
#[cfg(kani)]
pub(crate) fn stub_send_participant_status(_this: &Reader, event: DomainParticipantStatusEvent) {
  unsafe { (*core::ptr::addr_of_mut!(PSTATUS)).push(event) }
}
#[cfg(kani)]
pub(crate) fn stub_notify_cache_change(_this: &mut Reader) {
  unsafe { NOTIFIED += 1 }
}

// channel capacities: under Kani nothing travels through the channels (stubs above), and
// std's array channel initialises `capacity` slots in a loop
#[cfg(kani)]
const CHAN: usize = 1;
#[cfg(not(kani))]
const CHAN: usize = 32;

pub(crate) const TOPIC: &str = "t";

pub(crate) struct Rig {
  pub reader: Reader,
  pub topic_cache: Arc<Mutex<TopicCache>>,
  pub status_rx: StatusChannelReceiver<DataReaderStatus>,
  pub pstatus_rx: StatusChannelReceiver<DomainParticipantStatusEvent>,
  pub notif_rx: mio_channel::Receiver<()>,
  pub cmd_tx: mio_channel::SyncSender<ReaderCommand>,
  #[cfg(not(kani))]
  pub wire: std::net::UdpSocket,
}

pub(crate) fn prefix(n: u8) -> GuidPrefix {
  GuidPrefix {
    bytes: [n, 1, 2, 3, 4, 5, 6, 7, 8, 9, 10, 11],
  }
}
pub(crate) fn writer_eid(n: u8) -> EntityId {
  EntityId::new([0, 0, n], EntityKind::WRITER_WITH_KEY_USER_DEFINED)
}
pub(crate) fn writer_guid(n: u8) -> GUID {
  GUID::new(prefix(n), writer_eid(n))
}
pub(crate) fn reader_guid() -> GUID {
  GUID::new(
    prefix(100),
    EntityId::new([0, 0, 9], EntityKind::READER_WITH_KEY_USER_DEFINED),
  )
}

pub(crate) fn reliable_qos() -> QosPolicies {
  let mut q = QosPolicies::qos_none();
  q.reliability = Some(policy::Reliability::Reliable {
    max_blocking_time: Duration::ZERO,
  });
  q.history = Some(policy::History::KeepAll);
  q
}

pub(crate) fn make_rig(qos: QosPolicies, like_stateless: bool, my_guid: GUID) -> Rig {
  let topic_cache = Arc::new(Mutex::new(TopicCache::new(
    TOPIC.to_string(),
    TypeDesc::new("T".to_string()),
    &qos,
  )));
  let (notification_sender, notif_rx) = mio_channel::sync_channel::<()>(CHAN);
  let (_src, poll_event_sender) = crate::mio_source::verif_harness_env_mio::stub_make_poll_channel().unwrap();
  core::mem::forget(_src);
  let (status_sender, status_rx) = sync_status_channel::<DataReaderStatus>(CHAN).unwrap();
  let (participant_status_sender, pstatus_rx) =
    sync_status_channel::<DomainParticipantStatusEvent>(CHAN).unwrap();
  let (cmd_tx, data_reader_command_receiver) = mio_channel::sync_channel::<ReaderCommand>(1);
  let ing = ReaderIngredients {
    guid: my_guid,
    notification_sender,
    status_sender,
    topic_name: TOPIC.to_string(),
    topic_cache_handle: topic_cache.clone(),
    like_stateless,
    qos_policy: qos,
    data_reader_command_receiver,
    data_reader_waker: Arc::new(Mutex::new(None)),
    poll_event_sender,
    security_plugins: None,
  };
  // environment timer: the real mio-extras type with a small wheel (the default 256-slot
  // wheel only costs a 256-iteration initialisation loop)
  let timer = mio_extras::timer::Builder::default()
    .num_slots(2)
    .capacity(2)
    .build();
  let reader = Reader::new(
    ing,
    Rc::new(env_udp::dummy_udp_sender()),
    timer,
    participant_status_sender,
  );
  #[cfg(not(kani))]
  let wire = {
    let s = std::net::UdpSocket::bind("127.0.0.1:0").unwrap();
    s.set_nonblocking(true).unwrap();
    s
  };
  Rig {
    reader,
    topic_cache,
    status_rx,
    pstatus_rx,
    notif_rx,
    cmd_tx,
    #[cfg(not(kani))]
    wire,
  }
}

impl Rig {
  /// Locators the reader is told to reply to.
  pub fn reply_locators(&self) -> Vec<Locator> {
    #[cfg(kani)]
    {
      vec![Locator::from(std::net::SocketAddr::from((
        [127, 0, 0, 1],
        7400,
      )))]
    }
    #[cfg(not(kani))]
    {
      vec![Locator::from(self.wire.local_addr().unwrap())]
    }
  }

  pub fn mr_state(&self, writer: u8, src_ts: Option<Timestamp>) -> MessageReceiverState {
    MessageReceiverState {
      source_guid_prefix: prefix(writer),
      unicast_reply_locator_list: self.reply_locators(),
      multicast_reply_locator_list: Vec::new(),
      source_timestamp: src_ts,
      #[cfg(feature = "security")]
      secure_rtps_wrapped: None,
    }
  }

  /// What the reader emitted since the last call.
  #[cfg(kani)]
  pub fn take_sent(&self) -> Sent {
    unsafe { core::mem::replace(&mut *core::ptr::addr_of_mut!(SENT), Sent::new()) }
  }
  #[cfg(not(kani))]
  pub fn take_sent(&self) -> Sent {
    let mut out = Sent::new();
    let mut buf = [0u8; 65536];
    std::thread::sleep(std::time::Duration::from_millis(5));
    loop {
      match self.wire.recv_from(&mut buf) {
        Ok((n, _)) => {
          let b = Bytes::copy_from_slice(&buf[..n]);
          let m = Message::read_from_buffer(&b).expect("reader emitted an unparsable message");
          out.absorb(&m, None);
        }
        Err(_) => break,
      }
    }
    out
  }

  pub fn match_writer(&mut self, n: u8, qos: &QosPolicies) {
    let locs = self.reply_locators();
    let proxy = RtpsWriterProxy::new(writer_guid(n), locs, Vec::new(), EntityId::UNKNOWN);
    self.reader.update_writer_proxy(proxy, qos);
  }

  /// End of harness: the rig owns dummy file descriptors under Kani; closing them is a
  /// foreign call, so the whole rig is leaked instead of dropped.
  pub fn finish(self) {
    core::mem::forget(self);
  }
}

pub(crate) fn data_msg(writer: u8, sn: i64, payload: &[u8]) -> (Data, BitFlags<DATA_Flags>) {
  // serialized payload = 4 byte header (CDR_LE, options 0) + value
  // one byte of slack: see verif_env::shared_bytes
  let mut b = Vec::with_capacity(5 + payload.len());
  b.extend_from_slice(&RepresentationIdentifier::CDR_LE.bytes);
  b.extend_from_slice(&[0, 0]);
  b.extend_from_slice(payload);
  (
    Data {
      reader_id: EntityId::UNKNOWN,
      writer_id: writer_eid(writer),
      writer_sn: SequenceNumber::new(sn),
      inline_qos: None,
      serialized_payload: Some(Bytes::from(b)),
    },
    BitFlags::<DATA_Flags>::from_flag(DATA_Flags::Data) | DATA_Flags::Endianness,
  )
}

pub(crate) fn heartbeat(writer: u8, first: i64, last: i64, count: i32) -> Heartbeat {
  Heartbeat {
    reader_id: EntityId::UNKNOWN,
    writer_id: writer_eid(writer),
    first_sn: SequenceNumber::new(first),
    last_sn: SequenceNumber::new(last),
    count,
  }
}

// ==================================================================== harnesses

/// All Tier-O harnesses on the Reader share this environment (stubs listed in evidence).
macro_rules! reader_harness {
  ($(#[$m:meta])* fn $name:ident($unwind:expr) $body:block) => {
    $(#[$m])*
    #[cfg_attr(kani, kani::proof, kani::unwind($unwind))]
    #[cfg_attr(
      kani,
      kani::stub(Reader::encode_and_send, stub_encode_and_send),
      kani::stub(Reader::send_status_change, stub_send_status_change),
      kani::stub(Reader::send_participant_status, stub_send_participant_status),
      kani::stub(Reader::notify_cache_change, stub_notify_cache_change),
      kani::stub(crate::structure::time::Timestamp::now, crate::structure::time::verif_harness_env_time::stub_now),
      kani::stub(std::time::Instant::now, crate::structure::time::verif_harness_env_time::stub_instant_now),
      kani::stub(crate::mio_source::make_poll_channel, crate::mio_source::verif_harness_env_mio::stub_make_poll_channel),
      kani::stub(crate::mio_source::PollEventSender::send, crate::mio_source::verif_harness_env_mio::stub_send),
      kani::stub(crate::mio_source::PollEventSource::drain, crate::mio_source::verif_harness_env_mio::stub_drain),
      kani::stub(std::fmt::format, crate::verif_env::stub_format),
      kani::stub(std::vec::Vec::push, crate::verif_env::stub_vec_push),
      kani::stub(alloc::vec::from_elem, crate::verif_env::stub_vec_from_elem)
    )]
    #[cfg_attr(verif_replay, test)]
    fn $name() {
      vk::begin(stringify!($name));
      $body;
      vk::end();
    }
  };
}

reader_harness! {
/// First C03 obligation: a non-final HEARTBEAT is always answered and the answer is
/// truthful for a reader that has received nothing.
fn c03_reader_hb_fresh(7) {
  let mut rig = make_rig(reliable_qos(), false, reader_guid());
  rig.match_writer(1, &reliable_qos());
  let first = vk::range_i64(1, 4);
  let last = vk::range_i64(0, 4);
  vk::assume(last >= first - 1);
  let fin: bool = vk::any();
  let hb = heartbeat(1, first, last, 1);
  let st = rig.mr_state(1, None);
  rig.reader.handle_heartbeat_msg(&hb, fin, &st);
  let sent = rig.take_sent();
  if !fin || last >= first {
    assert!(sent.n_acks == 1, "HEARTBEAT that must be answered produced no single ACKNACK");
    let a = sent.acks[0].unwrap();
    // nothing received: the lowest unknown SN is `first` (everything below is unavailable)
    assert!(a.base <= first, "ACKNACK base acknowledges too much");
    assert!(a.base >= 1, "set base below 1 on the wire");
    let mut off = 0;
    while off < 6 {
      if a.requests(off) {
        let s = a.base + off;
        assert!(s >= first && s <= last, "requested SN outside advertised range");
      }
      off += 1;
    }
    if last >= first {
      assert!(a.base == first && a.requests(0), "lowest missing SN not requested");
      assert!(a.requested_count() as i64 == last - first + 1, "not exactly the missing SNs requested");
    }
    assert!(a.writer_id == writer_eid(1));
  } else {
    assert!(sent.n_acks == 0);
  }
  assert!(sent.info_dst_ok);
  vk_cover!(sent.n_acks == 1 && last >= first + 2, "three missing");
  vk_cover!(sent.n_acks == 0, "final heartbeat with nothing missing not answered");
  core::mem::forget(sent);
  core::mem::forget(st);
  rig.finish();
}
}

// ------------------------------------------------------------------ events and ghost
pub(crate) const W: i64 = crate::verif_cfg::SN_WINDOW;

#[derive(Clone, Copy)]
pub(crate) enum Ev {
  Data { sn: i64, byte: u8 },
  Gap { start: i64, base: i64, bits: u32 }, // 2-bit bitmap at `base`
  Hb { first: i64, last: i64, count: i32, fin: bool },
}

pub(crate) fn any_event() -> Ev {
  any_event_of(vk::range_u8(0, 2))
}

pub(crate) fn any_event_of(kind: u8) -> Ev {
  match kind {
    0 => Ev::Data {
      sn: vk::range_i64(1, W),
      byte: vk::any(),
    },
    1 => {
      let start = vk::range_i64(1, W);
      let base = vk::range_i64(1, W + 1);
      vk::assume(base >= start);
      Ev::Gap {
        start,
        base,
        bits: (vk::range_u8(0, 3) as u32) << 30,
      }
    }
    _ => {
      let first = vk::range_i64(1, W);
      let last = vk::range_i64(0, W);
      vk::assume(last >= first - 1);
      Ev::Hb {
        first,
        last,
        count: vk::range_u32(1, 3) as i32,
        fin: vk::any(),
      }
    }
  }
}

/// Ghost for one writer: bit i <=> SN i (i < 40) received or declared unavailable.
/// Loop-free (bit operations only) so that the oracle adds nothing to the unwind bound.
#[derive(Clone, Copy)]
pub(crate) struct Ghost {
  pub known: u64,
  pub hb_count: i32, // highest HEARTBEAT count processed
  pub last_ack_base: i64,
  pub last_ack_count: i32,
  pub any_ack: bool,
}
pub(crate) fn below(n: i64) -> u64 {
  // bits 0..n-1
  if n <= 0 {
    0
  } else if n >= 40 {
    (1u64 << 40) - 1
  } else {
    (1u64 << n) - 1
  }
}
pub(crate) fn range_mask(lo: i64, hi_incl: i64) -> u64 {
  // bits lo..=hi
  if hi_incl < lo {
    0
  } else {
    below(hi_incl + 1) & !below(lo)
  }
}
impl Ghost {
  pub fn new() -> Self {
    Ghost {
      known: 1, // SN 0 and below never exist
      hb_count: 0,
      last_ack_base: 0,
      last_ack_count: -1,
      any_ack: false,
    }
  }
  pub fn knows(&self, sn: i64) -> bool {
    sn < 1 || (sn < 40 && self.known & (1u64 << sn) != 0)
  }
  pub fn least_unknown(&self) -> i64 {
    (!self.known).trailing_zeros() as i64
  }
  /// what the event tells the reader (independent of the implementation)
  pub fn note(&mut self, ev: Ev) {
    match ev {
      Ev::Data { sn, .. } => self.known |= 1u64 << sn,
      Ev::Gap { start, base, bits } => {
        self.known |= range_mask(start, base - 1);
        if bits & (1 << 31) != 0 {
          self.known |= 1u64 << base;
        }
        if bits & (1 << 30) != 0 {
          self.known |= 1u64 << (base + 1);
        }
      }
      Ev::Hb { first, count, .. } => {
        if count > self.hb_count {
          self.hb_count = count;
          self.known |= below(first);
        }
      }
    }
  }
}

impl Rig {
  pub fn apply(&mut self, w: u8, ev: Ev) {
    match ev {
      Ev::Data { sn, byte } => {
        let (d, f) = data_msg(w, sn, &[byte, 0, 0, 0]);
        let st = self.mr_state(w, None);
        self.reader.handle_data_msg(d, f, &st);
        core::mem::forget(st);
      }
      Ev::Gap { start, base, bits } => {
        let g = Gap {
          reader_id: EntityId::UNKNOWN,
          writer_id: writer_eid(w),
          gap_start: SequenceNumber::new(start),
          gap_list: crate::structure::sequence_number::verif_harness_seqnum::sn_set_from_bits(base, 2, bits),
        };
        let st = self.mr_state(w, None);
        self.reader.handle_gap_msg(&g, &st);
        core::mem::forget(st);
        core::mem::forget(g);
      }
      Ev::Hb { first, last, count, fin } => {
        let hb = heartbeat(w, first, last, count);
        let st = self.mr_state(w, None);
        self.reader.handle_heartbeat_msg(&hb, fin, &st);
        core::mem::forget(st);
      }
    }
  }
}

/// The C03 oracle for whatever was emitted in response to one HEARTBEAT.
pub(crate) fn check_acknack_truthful(sent: &Sent, g: &mut Ghost, first: i64, last: i64, fin: bool, fresh_count: bool) {
  let lowest = g.least_unknown();
  let something_missing = lowest <= last && lowest >= first;
  if !fresh_count {
    // a HEARTBEAT whose count was already seen is a duplicate and is not answered
    assert!(sent.n_acks == 0, "duplicate HEARTBEAT answered");
    return;
  }
  if something_missing || !fin {
    assert!(sent.n_acks == 1, "HEARTBEAT that must be answered was not answered by exactly one ACKNACK");
  }
  if sent.n_acks >= 1 {
    let a = sent.acks[0].unwrap();
    assert!(a.base >= 1, "set base below 1 on the wire");
    assert!(a.base <= lowest, "ACKNACK base exceeds the lowest SN neither received nor unavailable");
    if g.any_ack {
      assert!(a.base >= g.last_ack_base, "ACKNACK base decreased during the match");
      assert!(a.count > g.last_ack_count, "ACKNACK count did not grow");
    }
    // requested SNs as a mask in SN space (windows here are < 32 wide)
    assert!(a.num_bits <= 32 && a.words_len <= 1, "window wider than the harness can judge");
    assert!(a.base < 32);
    let in_bits = if a.num_bits == 0 { 0 } else { !0u32 << (32 - a.num_bits) };
    let req: u64 = ((a.w0 & in_bits).reverse_bits() as u64) << a.base;
    assert!(req & g.known == 0, "a sequence number listed as missing is not missing");
    assert!(req & !range_mask(first, last) == 0, "requested SN outside the advertised range");
    assert!(a.num_bits <= 256);
    if something_missing {
      assert!(a.requests(lowest - a.base), "the lowest missing SN of the advertised range is not requested");
    }
    g.any_ack = true;
    g.last_ack_base = a.base;
    g.last_ack_count = a.count;
  }
}

/// C03: one arbitrary event of the given kind (DATA / GAP with bitmap / HEARTBEAT), then a
/// HEARTBEAT with arbitrary first/last/count/final: the ACKNACK is truthful w.r.t. an
/// independent ghost.  One harness per event kind (three solver queries in parallel are
/// cheaper than one merged query).
fn event_then_hb(kind: u8) {
  let mut rig = make_rig(reliable_qos(), false, reader_guid());
  rig.match_writer(1, &reliable_qos());
  let mut g = Ghost::new();
  let ev = any_event_of(kind);
  rig.apply(1, ev);
  g.note(ev);
  let sent0 = rig.take_sent();
  if let Ev::Hb { first, last, fin, .. } = ev {
    // first HEARTBEAT of the match: its own answer must be truthful too
    let mut g0 = Ghost::new();
    g0.note(ev);
    check_acknack_truthful(&sent0, &mut g0, first, last, fin, true);
    g.any_ack = g0.any_ack;
    g.last_ack_base = g0.last_ack_base;
    g.last_ack_count = g0.last_ack_count;
  } else {
    assert!(sent0.n_acks == 0, "DATA/GAP answered with an ACKNACK");
  }
  let first = vk::range_i64(1, W);
  let last = vk::range_i64(0, W);
  vk::assume(last >= first - 1);
  let fin: bool = vk::any();
  let count = vk::range_u32(1, 4) as i32;
  let fresh = count > g.hb_count;
  let hb = Ev::Hb { first, last, count, fin };
  rig.apply(1, hb);
  g.note(hb);
  let sent = rig.take_sent();
  check_acknack_truthful(&sent, &mut g, first, last, fin, fresh);
  vk_cover!(sent.n_acks == 1 && g.least_unknown() > 2, "frontier beyond 2 when answering");
  vk_cover!(!fresh || kind != 2, "duplicate heartbeat count");
  vk_cover!(sent.n_acks == 1 && sent.acks[0].unwrap().requested_count() >= 2, "two SNs requested");
  rig.finish();
}

reader_harness! {
fn c03_reader_data_then_hb(7) {
  event_then_hb(0);
}
}
reader_harness! {
fn c03_reader_gap_then_hb(7) {
  event_then_hb(1);
}
}
reader_harness! {
fn c03_reader_hb_then_hb(7) {
  event_then_hb(2);
}
}

reader_harness! {
/// C03 from ANY valid writer-proxy state: the real Reader's answer to one HEARTBEAT with
/// arbitrary first/last/final is truthful (base <= lowest unknown, requested SNs unknown and
/// advertised, lowest missing requested).  The proxy state (ack frontier + out-of-order map)
/// is symbolic, so this covers every history that leads to such a state.
fn c03_reader_hb_anystate(7) {
  let mut rig = make_rig(reliable_qos(), false, reader_guid());
  rig.match_writer(1, &reliable_qos());
  {
    let wp = rig.reader.matched_writers.get_mut(&writer_guid(1)).unwrap();
    crate::rtps::rtps_writer_proxy::verif_harness_wproxy::make_any_valid(wp, 0);
  }
  let mut g = Ghost::new();
  {
    let wp = rig.reader.matched_writers.get(&writer_guid(1)).unwrap();
    g.known = crate::rtps::rtps_writer_proxy::verif_harness_wproxy::known_mask(wp, W + 2) | 1;
  }
  let first = vk::range_i64(1, W);
  let last = vk::range_i64(0, W);
  vk::assume(last >= first - 1);
  let fin: bool = vk::any();
  let hb = Ev::Hb { first, last, count: 1, fin };
  rig.apply(1, hb);
  g.note(hb);
  let sent = rig.take_sent();
  check_acknack_truthful(&sent, &mut g, first, last, fin, true);
  vk_cover!(sent.n_acks == 1 && sent.acks[0].unwrap().base >= 3, "base beyond 2");
  vk_cover!(sent.n_acks == 1 && sent.acks[0].unwrap().requested_count() >= 2 && sent.acks[0].unwrap().num_bits >= 3, "hole between two requested SNs");
  rig.finish();
}
}

// ------------------------------------------------------------------ partially received fragmented sample
static FRAG_BYTES: [u8; 12] = [0, 1, 0, 0, 0xA1, 0xA2, 0xA3, 0xA4, 0xB1, 0xB2, 0xB3, 0xB4]; // CDR_LE header + 8 bytes

pub(crate) fn datafrag(w: u8, sn: i64, frag: u32) -> DataFrag {
  // one 4-byte fragment (number `frag` in 1..=3) of a 12-byte sample
  let from = ((frag - 1) * 4) as usize;
  DataFrag {
    reader_id: EntityId::UNKNOWN,
    writer_id: writer_eid(w),
    writer_sn: SequenceNumber::new(sn),
    fragment_starting_num: FragmentNumber::new(frag),
    fragments_in_submessage: 1,
    data_size: 12,
    fragment_size: 4,
    inline_qos: None,
    serialized_payload: Bytes::from_static(&FRAG_BYTES).slice(from..from + 4),
  }
}

reader_harness! {
/// C03, fragments: SN 1 of 3 advertised samples has arrived only in part (ONE of its three
/// fragments, chosen symbolically), SNs 2..3 not at all.  The answer to HEARTBEAT(1..3) must not
/// acknowledge SN 1 (ACKNACK base <= 1), must request the wholly missing SNs by ACKNACK, and must
/// request exactly the two missing fragments of SN 1 by NACKFRAG, with growing counts.
fn c03_reader_partial_fragment_hb(7) {
  let mut rig = make_rig(reliable_qos(), false, reader_guid());
  rig.match_writer(1, &reliable_qos());
  let got = vk::range_u32(1, 3);
  let st = rig.mr_state(1, None);
  let flags = BitFlags::<DATAFRAG_Flags>::from_flag(DATAFRAG_Flags::Endianness);
  match got {
    1 => {
      let d = datafrag(1, 1, 1);
      rig.reader.handle_datafrag_msg(&d, flags, &st);
      core::mem::forget(d);
    }
    2 => {
      let d = datafrag(1, 1, 2);
      rig.reader.handle_datafrag_msg(&d, flags, &st);
      core::mem::forget(d);
    }
    _ => {
      let d = datafrag(1, 1, 3);
      rig.reader.handle_datafrag_msg(&d, flags, &st);
      core::mem::forget(d);
    }
  }
  let s0 = rig.take_sent();
  assert!(s0.n_acks == 0 && s0.n_nackfrags == 0, "DATAFRAG answered");
  let hb = heartbeat(1, 1, 3, 1);
  rig.reader.handle_heartbeat_msg(&hb, false, &st);
  let sent = rig.take_sent();
  assert!(sent.n_acks == 1, "HEARTBEAT not answered by exactly one ACKNACK");
  let a = sent.acks[0].unwrap();
  assert!(a.base >= 1 && a.base <= 1, "ACKNACK acknowledges a sample of which only one fragment arrived");
  assert!(a.requests(2 - a.base) && a.requests(3 - a.base), "wholly missing samples not requested");
  assert!(!a.requests(1 - a.base) || sent.n_nackfrags == 0, "partially received sample requested twice");
  assert!(sent.n_nackfrags == 1, "no NACKFRAG for the partially received sample");
  let nf = sent.nackfrags[0].unwrap();
  assert!(nf.writer_sn == 1);
  // exactly the two fragments that did not arrive
  let mut f = 1u32;
  while f <= 3 {
    let requested = f >= nf.base && nf.requests(f - nf.base);
    assert!(requested == (f != got), "NACKFRAG does not name exactly the missing fragments");
    f += 1;
  }
  assert!(nf.count != a.count, "ACKNACK and NACKFRAG share a count");
  vk_cover!(got == 2, "middle fragment arrived");
  core::mem::forget(st);
  rig.finish();
}
}

/// Same situation with a CONCRETE prefix (which of the three fragments arrived is fixed per
/// instance) and a symbolic HEARTBEAT(1..last, final flag free): "concrete prefix + one symbolic
/// step".  The glue of handle_heartbeat_msg that combines missing_seqnums with
/// is_frag_partially_received is what this decides.
fn partial_fragment_then_hb(got: u32) {
  let mut rig = make_rig(reliable_qos(), false, reader_guid());
  rig.match_writer(1, &reliable_qos());
  let st = rig.mr_state(1, None);
  let flags = BitFlags::<DATAFRAG_Flags>::from_flag(DATAFRAG_Flags::Endianness);
  let d = datafrag(1, 1, got);
  rig.reader.handle_datafrag_msg(&d, flags, &st);
  core::mem::forget(d);
  let s0 = rig.take_sent();
  assert!(s0.n_acks == 0 && s0.n_nackfrags == 0, "DATAFRAG answered");
  let last = vk::range_i64(1, 3);
  let fin: bool = vk::any();
  let hb = heartbeat(1, 1, last, 1);
  rig.reader.handle_heartbeat_msg(&hb, fin, &st);
  let sent = rig.take_sent();
  // SN 1 is missing (only one of its fragments arrived): the HEARTBEAT must be answered
  assert!(sent.n_acks == 1, "HEARTBEAT not answered by exactly one ACKNACK");
  let a = sent.acks[0].unwrap();
  assert!(a.base == 1, "ACKNACK base is not the sample of which only one fragment arrived");
  let mut s = 2i64;
  while s <= 3 {
    assert!(a.requests(s - a.base) == (s <= last), "wholly missing samples of the advertised range not requested exactly");
    s += 1;
  }
  assert!(!a.requests(0) || sent.n_nackfrags == 0, "partially received sample requested twice");
  assert!(sent.n_nackfrags == 1, "no NACKFRAG for the partially received sample");
  let nf = sent.nackfrags[0].unwrap();
  assert!(nf.writer_sn == 1);
  let mut f = 1u32;
  while f <= 3 {
    let requested = f >= nf.base && nf.requests(f - nf.base);
    assert!(requested == (f != got), "NACKFRAG does not name exactly the missing fragments");
    f += 1;
  }
  assert!(nf.count != a.count, "ACKNACK and NACKFRAG share a count");
  vk_cover!(last == 3, "three advertised");
  core::mem::forget(sent);
  core::mem::forget(st);
  rig.finish();
}
reader_harness! {
fn c03_reader_partial_fragment_g1_hb(7) { partial_fragment_then_hb(1) }
}
reader_harness! {
fn c03_reader_partial_fragment_g2_hb(7) { partial_fragment_then_hb(2) }
}
reader_harness! {
fn c03_reader_partial_fragment_g3_hb(7) { partial_fragment_then_hb(3) }
}

// ------------------------------------------------------------------ extreme numeric fields (C03 "any first/last", C06)
reader_harness! {
/// C06 on the real Reader: one HEARTBEAT whose firstSN / lastSN sit at the top of the i64 range
/// (what a hostile peer can put on the wire), fresh matched proxy.  No panic, and the answer is
/// still truthful: base == first, only advertised SNs requested.
fn c03_reader_hb_extreme_top(7) {
  let mut rig = make_rig(reliable_qos(), false, reader_guid());
  rig.match_writer(1, &reliable_qos());
  let a = vk::range_i64(0, 3);
  let w = vk::range_i64(0, 3);
  vk::assume(w <= a);
  let first = i64::MAX - a;
  let last = first + w; // <= i64::MAX
  let fin: bool = vk::any();
  let hb = heartbeat(1, first, last, 1);
  let st = rig.mr_state(1, None);
  rig.reader.handle_heartbeat_msg(&hb, fin, &st);
  let sent = rig.take_sent();
  assert!(sent.n_acks == 1, "HEARTBEAT advertising missing samples produced no single ACKNACK");
  let ack = sent.acks[0].unwrap();
  assert!(ack.base == first, "ACKNACK base is not the lowest missing SN");
  assert!(ack.requests(0), "lowest missing SN not requested");
  assert!(ack.requested_count() as i64 <= w + 1, "more SNs requested than advertised");
  vk_cover!(last == i64::MAX, "lastSN = i64::MAX");
  vk_cover!(a == 3 && w == 0, "single SN below the top");
  core::mem::forget(sent);
  core::mem::forget(st);
  rig.finish();
}
}

// ------------------------------------------------------------------ experiments (tier "experimental"): where does the
// partial-fragment harness spend its time?
reader_harness! {
/// prefix only: one concrete DATAFRAG into the real Reader, nothing else
fn c03x_partial_prefix_only(7) {
  let mut rig = make_rig(reliable_qos(), false, reader_guid());
  rig.match_writer(1, &reliable_qos());
  let st = rig.mr_state(1, None);
  let flags = BitFlags::<DATAFRAG_Flags>::from_flag(DATAFRAG_Flags::Endianness);
  let d = datafrag(1, 1, 2);
  rig.reader.handle_datafrag_msg(&d, flags, &st);
  core::mem::forget(d);
  let s0 = rig.take_sent();
  assert!(s0.n_acks == 0 && s0.n_nackfrags == 0, "DATAFRAG answered");
  assert!(rig.reader.is_frag_partially_received(writer_guid(1), SequenceNumber::new(1)));
  vk_cover!(true, "reached");
  core::mem::forget(st);
  rig.finish();
}
}
reader_harness! {
/// the assembler state is put in place directly (FragmentAssembler's own API on a concrete
/// fragment), then the symbolic HEARTBEAT
fn c03x_partial_direct_then_hb(7) {
  let mut rig = make_rig(reliable_qos(), false, reader_guid());
  rig.match_writer(1, &reliable_qos());
  let st = rig.mr_state(1, None);
  let flags = BitFlags::<DATAFRAG_Flags>::from_flag(DATAFRAG_Flags::Endianness);
  let d = datafrag(1, 1, 2);
  let mut fa = FragmentAssembler::new(4);
  let r = fa.new_datafrag(&d, flags);
  assert!(r.is_none());
  core::mem::forget(r);
  core::mem::forget(d);
  let old = rig.reader.fragment_assemblers.insert(writer_guid(1), fa);
  core::mem::forget(old);
  let last = vk::range_i64(1, 3);
  let fin: bool = vk::any();
  let hb = heartbeat(1, 1, last, 1);
  rig.reader.handle_heartbeat_msg(&hb, fin, &st);
  let sent = rig.take_sent();
  assert!(sent.n_acks == 1, "HEARTBEAT not answered by exactly one ACKNACK");
  let a = sent.acks[0].unwrap();
  assert!(a.base == 1, "ACKNACK base is not the sample of which only one fragment arrived");
  assert!(sent.n_nackfrags == 1, "no NACKFRAG for the partially received sample");
  vk_cover!(last == 3, "three advertised");
  core::mem::forget(sent);
  core::mem::forget(st);
  rig.finish();
}
}

// ------------------------------------------------------------------ partially received sample: the ACKNACK half
/// kani::stub target for Reader::missing_frags_for: no fragment numbers.  The real code then
/// builds no NACKFRAG ("The dog ate my missing fragments") and goes on to the ACKNACK, which is
/// what the harness below judges; building the NACKFRAG (Box<dyn Iterator> chain, BTreeSet,
/// FragmentNumberSet) is the half of handle_heartbeat_msg that did not finish (bisected), and
/// its content is decided on the FragmentAssembler (c05_missing_frags_*).  Natively the real
/// function runs and a NACKFRAG is sent as well; the oracle does not look at it.
#[cfg(kani)]
pub(crate) fn stub_missing_frags_for<'a>(
  _this: &'a Reader,
  _writer_guid: GUID,
  _seq: SequenceNumber,
) -> Box<dyn 'a + Iterator<Item = FragmentNumber>> {
  Box::new(core::iter::empty())
}

macro_rules! reader_harness_no_nackfrag {
  ($(#[$m:meta])* fn $name:ident($unwind:expr) $body:block) => {
    $(#[$m])*
    #[cfg_attr(kani, kani::proof, kani::unwind($unwind))]
    #[cfg_attr(
      kani,
      kani::stub(Reader::missing_frags_for, stub_missing_frags_for),
      kani::stub(Reader::encode_and_send, stub_encode_and_send),
      kani::stub(Reader::send_status_change, stub_send_status_change),
      kani::stub(Reader::send_participant_status, stub_send_participant_status),
      kani::stub(Reader::notify_cache_change, stub_notify_cache_change),
      kani::stub(crate::structure::time::Timestamp::now, crate::structure::time::verif_harness_env_time::stub_now),
      kani::stub(std::time::Instant::now, crate::structure::time::verif_harness_env_time::stub_instant_now),
      kani::stub(crate::mio_source::make_poll_channel, crate::mio_source::verif_harness_env_mio::stub_make_poll_channel),
      kani::stub(crate::mio_source::PollEventSender::send, crate::mio_source::verif_harness_env_mio::stub_send),
      kani::stub(crate::mio_source::PollEventSource::drain, crate::mio_source::verif_harness_env_mio::stub_drain),
      kani::stub(std::fmt::format, crate::verif_env::stub_format),
      kani::stub(std::vec::Vec::push, crate::verif_env::stub_vec_push),
      kani::stub(alloc::vec::from_elem, crate::verif_env::stub_vec_from_elem)
    )]
    #[cfg_attr(verif_replay, test)]
    fn $name() {
      vk::begin(stringify!($name));
      $body;
      vk::end();
    }
  };
}

/// C03, partially received sample, ACKNACK half: fragment `got` of 3 of SN 1 arrived (concrete
/// prefix through the real handle_datafrag_msg), then a symbolic HEARTBEAT(1..last, final flag
/// free).  SN 1 is neither received nor unavailable, so the ACKNACK must not acknowledge it
/// (base == 1), must not list it (it is requested by NACKFRAG), and must list exactly the wholly
/// missing SNs 2..last.
fn partial_fragment_then_hb_acknack(got: u32) {
  let mut rig = make_rig(reliable_qos(), false, reader_guid());
  rig.match_writer(1, &reliable_qos());
  let st = rig.mr_state(1, None);
  let flags = BitFlags::<DATAFRAG_Flags>::from_flag(DATAFRAG_Flags::Endianness);
  let d = datafrag(1, 1, got);
  rig.reader.handle_datafrag_msg(&d, flags, &st);
  core::mem::forget(d);
  let s0 = rig.take_sent();
  assert!(s0.n_acks == 0 && s0.n_nackfrags == 0, "DATAFRAG answered");
  assert!(rig.reader.is_frag_partially_received(writer_guid(1), SequenceNumber::new(1)), "fragment not in assembly");
  let last = vk::range_i64(1, 3);
  let fin: bool = vk::any();
  let hb = heartbeat(1, 1, last, 1);
  rig.reader.handle_heartbeat_msg(&hb, fin, &st);
  let sent = rig.take_sent();
  assert!(sent.n_acks == 1, "HEARTBEAT with a missing sample not answered by exactly one ACKNACK");
  let a = sent.acks[0].unwrap();
  assert!(a.base == 1, "ACKNACK acknowledges a sample of which only one fragment arrived");
  assert!(!a.requests(0), "partially received sample listed in the ACKNACK as well");
  let mut s = 2i64;
  while s <= 3 {
    assert!(a.requests(s - a.base) == (s <= last), "ACKNACK does not list exactly the wholly missing samples of the advertised range");
    s += 1;
  }
  vk_cover!(last == 3, "three advertised");
  vk_cover!(last == 1, "only the partial sample advertised");
  core::mem::forget(sent);
  core::mem::forget(st);
  rig.finish();
}
reader_harness_no_nackfrag! {
fn c03_reader_partial_fragment_g2_acknack(7) { partial_fragment_then_hb_acknack(2) }
}
reader_harness_no_nackfrag! {
fn c03_reader_partial_fragment_g1_acknack(7) { partial_fragment_then_hb_acknack(1) }
}
