// Tier-O harnesses around the real rtps::reader::Reader — child module of that file.
// Serves C01 (hand-over order), C03 (ACKNACK truthfulness), C06 (hostile handlers),
// C11 (matched sets, reader side).
#![allow(dead_code, unused_imports, unused_variables, clippy::all)]
use std::sync::{Arc, Mutex};

use bytes::Bytes;

use super::*;
use crate::{
  dds::{
    statusevents::{sync_status_channel, StatusChannelReceiver},
    typedesc::TypeDesc,
  },
  network::udp_sender::verif_harness_env_udp as env_udp,
  rtps::submessage::{Submessage, SubmessageBody},
  messages::submessages::submessage::{ReaderSubmessage, WriterSubmessage},
  structure::guid::EntityKind,
  verif_env::{self, BTreeMap as VMap},
  verif_vk as vk,
  verif_vk::vk_cover,
  RepresentationIdentifier,
};

// ------------------------------------------------------------------ capture of sent messages
// What the oracles need from an emitted message: its ACKNACK / NACKFRAG submessages and the
// destination.  Under Kani the Message built by the real code is inspected in the stub and
// then leaked: running the drop glue of Message/Submessage/Bytes symbolically cost more
// than the handler under test (measured 440 s vs 118 s).
pub(crate) struct Sent {
  pub acknacks: Vec<AckNack>,
  pub nackfrags: Vec<NackFrag>,
  pub messages: usize,
  pub info_dst_ok: bool, // every message started with INFO_DST(prefix of destination)
}
impl Sent {
  pub const fn new() -> Self {
    Sent {
      acknacks: Vec::new(),
      nackfrags: Vec::new(),
      messages: 0,
      info_dst_ok: true,
    }
  }
  pub fn absorb(&mut self, m: &Message, destination: Option<GUID>) {
    self.messages += 1;
    let mut first = true;
    for s in &m.submessages {
      match &s.body {
        SubmessageBody::Reader(ReaderSubmessage::AckNack(a, _)) => self.acknacks.push(a.clone()),
        SubmessageBody::Reader(ReaderSubmessage::NackFrag(a, _)) => self.nackfrags.push(a.clone()),
        SubmessageBody::Interpreter(crate::messages::submessages::submessages::InterpreterSubmessage::InfoDestination(d, _)) => {
          if let Some(g) = destination {
            if first && d.guid_prefix != g.prefix {
              self.info_dst_ok = false;
            }
          }
        }
        _ => {}
      }
      first = false;
    }
  }
}

#[cfg(kani)]
pub(crate) static mut SENT: Sent = Sent::new();

/// kani::stub target for Reader::encode_and_send: the Message value the real code built is
/// inspected; serialisation (C14's subject) and the socket are skipped.
#[cfg(kani)]
pub(crate) fn stub_encode_and_send(
  _this: &Reader,
  message: Message,
  destination_guid: GUID,
  _dst_locator_list: &[Locator],
) {
  unsafe {
    (*core::ptr::addr_of_mut!(SENT)).absorb(&message, Some(destination_guid));
  }
  core::mem::forget(message);
}

#[cfg(kani)]
pub(crate) static mut STATUS: Vec<DataReaderStatus> = Vec::new();
#[cfg(kani)]
pub(crate) static mut PSTATUS: Vec<DomainParticipantStatusEvent> = Vec::new();
pub(crate) static mut NOTIFIED: usize = 0;

/// kani::stub targets for the three places where the Reader talks to channels.  The real
/// bodies are 5-line wrappers around mio-extras `try_send`, whose error type carries an
/// io::Error: its recursive, dyn-dispatched drop glue is what made CBMC's symbolic
/// execution explode (measured).  The events themselves are recorded, so "which status
/// event is emitted with which counts" is still decided on the real code.
#[cfg(kani)]
pub(crate) fn stub_send_status_change(_this: &Reader, change: DataReaderStatus) {
  unsafe { (*core::ptr::addr_of_mut!(STATUS)).push(change) }
}
#[cfg(kani)]
pub(crate) fn stub_send_participant_status(_this: &Reader, event: DomainParticipantStatusEvent) {
  unsafe { (*core::ptr::addr_of_mut!(PSTATUS)).push(event) }
}
#[cfg(kani)]
pub(crate) fn stub_notify_cache_change(_this: &mut Reader) {
  unsafe { NOTIFIED += 1 }
}

// channel capacities: under Kani nothing travels through the channels (stubs above), and
// std's array channel initialises `capacity` slots in a loop
#[cfg(kani)]
const CHAN: usize = 1;
#[cfg(not(kani))]
const CHAN: usize = 32;

pub(crate) const TOPIC: &str = "t";

pub(crate) struct Rig {
  pub reader: Reader,
  pub topic_cache: Arc<Mutex<TopicCache>>,
  pub status_rx: StatusChannelReceiver<DataReaderStatus>,
  pub pstatus_rx: StatusChannelReceiver<DomainParticipantStatusEvent>,
  pub notif_rx: mio_channel::Receiver<()>,
  pub cmd_tx: mio_channel::SyncSender<ReaderCommand>,
  #[cfg(not(kani))]
  pub wire: std::net::UdpSocket,
}

pub(crate) fn prefix(n: u8) -> GuidPrefix {
  GuidPrefix {
    bytes: [n, 1, 2, 3, 4, 5, 6, 7, 8, 9, 10, 11],
  }
}
pub(crate) fn writer_eid(n: u8) -> EntityId {
  EntityId::new([0, 0, n], EntityKind::WRITER_WITH_KEY_USER_DEFINED)
}
pub(crate) fn writer_guid(n: u8) -> GUID {
  GUID::new(prefix(n), writer_eid(n))
}
pub(crate) fn reader_guid() -> GUID {
  GUID::new(
    prefix(100),
    EntityId::new([0, 0, 9], EntityKind::READER_WITH_KEY_USER_DEFINED),
  )
}

pub(crate) fn reliable_qos() -> QosPolicies {
  let mut q = QosPolicies::qos_none();
  q.reliability = Some(policy::Reliability::Reliable {
    max_blocking_time: Duration::ZERO,
  });
  q.history = Some(policy::History::KeepAll);
  q
}

pub(crate) fn make_rig(qos: QosPolicies, like_stateless: bool, my_guid: GUID) -> Rig {
  let topic_cache = Arc::new(Mutex::new(TopicCache::new(
    TOPIC.to_string(),
    TypeDesc::new("T".to_string()),
    &qos,
  )));
  let (notification_sender, notif_rx) = mio_channel::sync_channel::<()>(CHAN);
  let (_src, poll_event_sender) = crate::mio_source::verif_harness_env_mio::stub_make_poll_channel().unwrap();
  core::mem::forget(_src);
  let (status_sender, status_rx) = sync_status_channel::<DataReaderStatus>(CHAN).unwrap();
  let (participant_status_sender, pstatus_rx) =
    sync_status_channel::<DomainParticipantStatusEvent>(CHAN).unwrap();
  let (cmd_tx, data_reader_command_receiver) = mio_channel::sync_channel::<ReaderCommand>(1);
  let ing = ReaderIngredients {
    guid: my_guid,
    notification_sender,
    status_sender,
    topic_name: TOPIC.to_string(),
    topic_cache_handle: topic_cache.clone(),
    like_stateless,
    qos_policy: qos,
    data_reader_command_receiver,
    data_reader_waker: Arc::new(Mutex::new(None)),
    poll_event_sender,
    security_plugins: None,
  };
  // environment timer: the real mio-extras type with a small wheel (the default 256-slot
  // wheel only costs a 256-iteration initialisation loop)
  let timer = mio_extras::timer::Builder::default()
    .num_slots(2)
    .capacity(2)
    .build();
  let reader = Reader::new(
    ing,
    Rc::new(env_udp::dummy_udp_sender()),
    timer,
    participant_status_sender,
  );
  #[cfg(not(kani))]
  let wire = {
    let s = std::net::UdpSocket::bind("127.0.0.1:0").unwrap();
    s.set_nonblocking(true).unwrap();
    s
  };
  Rig {
    reader,
    topic_cache,
    status_rx,
    pstatus_rx,
    notif_rx,
    cmd_tx,
    #[cfg(not(kani))]
    wire,
  }
}

impl Rig {
  /// Locators the reader is told to reply to.
  pub fn reply_locators(&self) -> Vec<Locator> {
    #[cfg(kani)]
    {
      vec![Locator::from(std::net::SocketAddr::from((
        [127, 0, 0, 1],
        7400,
      )))]
    }
    #[cfg(not(kani))]
    {
      vec![Locator::from(self.wire.local_addr().unwrap())]
    }
  }

  pub fn mr_state(&self, writer: u8, src_ts: Option<Timestamp>) -> MessageReceiverState {
    MessageReceiverState {
      source_guid_prefix: prefix(writer),
      unicast_reply_locator_list: self.reply_locators(),
      multicast_reply_locator_list: Vec::new(),
      source_timestamp: src_ts,
      #[cfg(feature = "security")]
      secure_rtps_wrapped: None,
    }
  }

  /// What the reader emitted since the last call.
  #[cfg(kani)]
  pub fn take_sent(&self) -> Sent {
    unsafe { core::mem::replace(&mut *core::ptr::addr_of_mut!(SENT), Sent::new()) }
  }
  #[cfg(not(kani))]
  pub fn take_sent(&self) -> Sent {
    let mut out = Sent::new();
    let mut buf = [0u8; 65536];
    std::thread::sleep(std::time::Duration::from_millis(5));
    loop {
      match self.wire.recv_from(&mut buf) {
        Ok((n, _)) => {
          let b = Bytes::copy_from_slice(&buf[..n]);
          let m = Message::read_from_buffer(&b).expect("reader emitted an unparsable message");
          out.absorb(&m, None);
        }
        Err(_) => break,
      }
    }
    out
  }

  pub fn match_writer(&mut self, n: u8, qos: &QosPolicies) {
    let locs = self.reply_locators();
    let proxy = RtpsWriterProxy::new(writer_guid(n), locs, Vec::new(), EntityId::UNKNOWN);
    self.reader.update_writer_proxy(proxy, qos);
  }

  /// End of harness: the rig owns dummy file descriptors under Kani; closing them is a
  /// foreign call, so the whole rig is leaked instead of dropped.
  pub fn finish(self) {
    core::mem::forget(self);
  }
}

pub(crate) fn data_msg(writer: u8, sn: i64, payload: &[u8]) -> (Data, BitFlags<DATA_Flags>) {
  // serialized payload = 4 byte header (CDR_LE, options 0) + value
  let mut b = Vec::with_capacity(4 + payload.len());
  b.extend_from_slice(&RepresentationIdentifier::CDR_LE.bytes);
  b.extend_from_slice(&[0, 0]);
  b.extend_from_slice(payload);
  (
    Data {
      reader_id: EntityId::UNKNOWN,
      writer_id: writer_eid(writer),
      writer_sn: SequenceNumber::new(sn),
      inline_qos: None,
      serialized_payload: Some(Bytes::from(b)),
    },
    BitFlags::<DATA_Flags>::from_flag(DATA_Flags::Data) | DATA_Flags::Endianness,
  )
}

pub(crate) fn heartbeat(writer: u8, first: i64, last: i64, count: i32) -> Heartbeat {
  Heartbeat {
    reader_id: EntityId::UNKNOWN,
    writer_id: writer_eid(writer),
    first_sn: SequenceNumber::new(first),
    last_sn: SequenceNumber::new(last),
    count,
  }
}

// ==================================================================== harnesses

/// Smoke/cost probe and first C03 obligation: a non-final HEARTBEAT is always answered and
/// the answer is truthful for a reader that has received nothing.
#[cfg_attr(kani, kani::proof, kani::unwind(7))]
#[cfg_attr(
  kani,
  kani::stub(Reader::encode_and_send, stub_encode_and_send),
  kani::stub(Reader::send_status_change, stub_send_status_change),
  kani::stub(Reader::send_participant_status, stub_send_participant_status),
  kani::stub(Reader::notify_cache_change, stub_notify_cache_change),
  kani::stub(crate::structure::time::Timestamp::now, crate::structure::time::verif_harness_env_time::stub_now),
  kani::stub(std::time::Instant::now, crate::structure::time::verif_harness_env_time::stub_instant_now),
  kani::stub(crate::mio_source::make_poll_channel, crate::mio_source::verif_harness_env_mio::stub_make_poll_channel),
  kani::stub(crate::mio_source::PollEventSender::send, crate::mio_source::verif_harness_env_mio::stub_send),
  kani::stub(crate::mio_source::PollEventSource::drain, crate::mio_source::verif_harness_env_mio::stub_drain),
  kani::stub(std::fmt::format, crate::verif_env::stub_format)
)]
#[cfg_attr(verif_replay, test)]
fn c03_reader_hb_fresh() {
  vk::begin("c03_reader_hb_fresh");
  let mut rig = make_rig(reliable_qos(), false, reader_guid());
  rig.match_writer(1, &reliable_qos());
  let first = vk::range_i64(1, 4);
  let last = vk::range_i64(0, 4);
  vk::assume(last >= first - 1);
  let fin: bool = vk::any();
  let hb = heartbeat(1, first, last, 1);
  let st = rig.mr_state(1, None);
  rig.reader.handle_heartbeat_msg(&hb, fin, &st);
  let sent = rig.take_sent();
  let acks = &sent.acknacks;
  if !fin || last >= first {
    assert!(acks.len() == 1, "HEARTBEAT that must be answered produced no single ACKNACK");
    let a = &acks[0];
    // nothing received: the lowest unknown SN is `first` (everything below is unavailable)
    assert!(a.reader_sn_state.base() <= SequenceNumber::new(first), "ACKNACK base acknowledges too much");
    assert!(a.reader_sn_state.base() >= SequenceNumber::new(1));
    let mut n = 0;
    for s in a.reader_sn_state.iter() {
      assert!(s >= SequenceNumber::new(first) && s <= SequenceNumber::new(last), "requested SN outside advertised range");
      n += 1;
    }
    if last >= first {
      assert!(a.reader_sn_state.iter().next() == Some(SequenceNumber::new(first)), "lowest missing SN not requested");
    }
  } else {
    assert!(acks.is_empty());
  }
  vk_cover!(acks.len() == 1 && last >= first + 2, "three missing");
  vk_cover!(acks.is_empty(), "final heartbeat with nothing missing not answered");
  core::mem::forget(sent);
  core::mem::forget(st);
  rig.finish();
  vk::end();
}
