// C18 harnesses (decision clause) — injected as a child module of
// crate::security::access_control::access_control_builtin::domain_participant_permissions_document
// (so `super::*` sees the private fields of Criterion / DomainParticipantPermissions, and
// `super::super` is access_control_builtin with its private check_entity and maps).
//
// Structure (assume-guarantee, because ONE real glob match costs ~20 s of symbolic execution:
// glob keeps its tokens in a heap Vec, CBMC loses their constness and explores the recursive
// matcher to the unwind bound):
//   * c18_glob_<pattern>_n<k>  : the REAL glob::Pattern::new + Pattern::matches against the POSIX
//                            fnmatch truth table FNMATCH, for every (pattern, name) pair of the menus.
//   * all other harnesses  : the REAL RustDDS decision code; under Kani `glob::Pattern::matches` is
//                            replaced by `glob_contract` (a lookup in the same FNMATCH table that
//                            ASSERTS pattern and name are menu members, i.e. that the contract
//                            proved above covers the call).  Natively (replay) nothing is stubbed.
#![allow(dead_code, unused_imports, unused_variables, clippy::all)]
use super::{
  super::{
    domain_governance_document::{BasicProtectionKind, DomainRule, ProtectionKind, TopicRule},
    types::Entity,
    AccessControlBuiltin,
  },
  *,
};
use crate::{
  dds::qos::QosPolicies,
  rtps::constant::builtin_topic_names,
  security::access_control::{LocalEntityAccessControl, PermissionsHandle},
  verif_vk as vk,
  verif_vk::vk_cover,
};

// =========================================================================================
// Menus and the fnmatch truth table
// =========================================================================================
const N_PAT: u8 = 5;
const N_NAME: u8 = 4;
/// POSIX fnmatch(pattern, name, 0), tabulated by hand: rows = patterns, columns = names
///                         "Ab"   "Bb"   "A"    "Abc"
const FNMATCH: [[bool; 4]; 5] = [
  /* "*"     */ [true, true, true, true],
  /* "A*"    */ [true, false, true, true],
  /* "?b"    */ [true, true, false, false],
  /* "Ab"    */ [true, false, false, false],
  /* "[AB]b" */ [true, true, false, false],
];

/// The i-th menu pattern.  Every arm parses a CONCRETE string.
fn mk_pat(i: u8) -> Pattern {
  match i {
    0 => Pattern::new("*").unwrap(),
    1 => Pattern::new("A*").unwrap(),
    2 => Pattern::new("?b").unwrap(),
    3 => Pattern::new("Ab").unwrap(),
    _ => Pattern::new("[AB]b").unwrap(),
  }
}
fn name(i: u8) -> &'static str {
  match i {
    0 => "Ab",
    1 => "Bb",
    2 => "A",
    _ => "Abc",
  }
}
fn fnm(p: u8, n: u8) -> bool {
  FNMATCH[p as usize][n as usize]
}

// --- contract stub (Kani world only) -------------------------------------------------------
fn byte_at(s: &[u8], i: usize) -> u8 {
  if i < s.len() {
    s[i]
  } else {
    0
  }
}
fn pat_index(s: &str) -> u8 {
  let a = s.as_bytes();
  match (a.len(), byte_at(a, 0), byte_at(a, 1), byte_at(a, 2), byte_at(a, 3), byte_at(a, 4)) {
    (1, b'*', ..) => 0,
    (2, b'A', b'*', ..) => 1,
    (2, b'?', b'b', ..) => 2,
    (2, b'A', b'b', ..) => 3,
    (5, b'[', b'A', b'B', b']', b'b') => 4,
    _ => 255,
  }
}
fn name_index(s: &str) -> u8 {
  let a = s.as_bytes();
  match (a.len(), byte_at(a, 0), byte_at(a, 1), byte_at(a, 2)) {
    (2, b'A', b'b', _) => 0,
    (2, b'B', b'b', _) => 1,
    (1, b'A', ..) => 2,
    (3, b'A', b'b', b'c') => 3,
    _ => 255,
  }
}
/// kani::stub target for glob::Pattern::matches in the composite harnesses.
fn glob_contract(p: &Pattern, s: &str) -> bool {
  let pi = pat_index(p.as_str());
  let ni = name_index(s);
  assert!(pi < N_PAT && ni < N_NAME, "glob contract used outside the menus it was proved for");
  fnm(pi, ni)
}

// =========================================================================================
// (0) The contract itself: real glob against the fnmatch table
// =========================================================================================
// One harness per (pattern, name) pair, both CONCRETE: with the name chosen by a symbolic index
// a single harness per pattern did not finish in 600 s (Chars over a symbolic slice inside the
// recursive matcher); a concrete pair takes seconds.  The 20 instances are the whole table.
macro_rules! glob_pair {
  ($fname:ident, $unwind:expr, $pi:expr, $pat:expr, $ni:expr, $name:expr) => {
    #[cfg_attr(kani, kani::proof, kani::unwind($unwind))]
    #[cfg_attr(verif_replay, test)]
    fn $fname() {
      vk::begin(stringify!($fname));
      let p = Pattern::new($pat).unwrap();
      assert!(pat_index(p.as_str()) == $pi, "menu index of the pattern");
      assert!(name_index($name) == $ni && name($ni) == $name, "menu index of the name");
      let got = p.matches($name);
      assert!(got == fnm($pi, $ni), "glob::Pattern::matches differs from POSIX fnmatch on a menu pair");
      vk_cover!(got == fnm($pi, $ni), "pair evaluated");
      core::mem::forget(p);
      vk::end();
    }
  };
}
macro_rules! glob_row {
  ($unwind:expr, $pi:expr, $pat:expr, $f0:ident, $f1:ident, $f2:ident, $f3:ident) => {
    glob_pair!($f0, $unwind, $pi, $pat, 0, "Ab");
    glob_pair!($f1, $unwind, $pi, $pat, 1, "Bb");
    glob_pair!($f2, $unwind, $pi, $pat, 2, "A");
    glob_pair!($f3, $unwind, $pi, $pat, 3, "Abc");
  };
}
glob_row!(5, 0, "*", c18_glob_star_n0, c18_glob_star_n1, c18_glob_star_n2, c18_glob_star_n3);
glob_row!(5, 1, "A*", c18_glob_prefix_n0, c18_glob_prefix_n1, c18_glob_prefix_n2, c18_glob_prefix_n3);
glob_row!(5, 2, "?b", c18_glob_qmark_n0, c18_glob_qmark_n1, c18_glob_qmark_n2, c18_glob_qmark_n3);
glob_row!(5, 3, "Ab", c18_glob_literal_n0, c18_glob_literal_n1, c18_glob_literal_n2, c18_glob_literal_n3);
glob_row!(7, 4, "[AB]b", c18_glob_class_n0, c18_glob_class_n1, c18_glob_class_n2, c18_glob_class_n3);

// =========================================================================================
// (1) Domain id sets
// =========================================================================================
#[derive(Clone, Copy)]
struct DomSpec {
  form: u8, // 0 <id>a</id>, 1 <id_range><min>a<max>b, 2 <id_range><min>a only, 3 <id_range><max>a only
  a: u16,
  b: u16,
}
fn any_dom() -> DomSpec {
  DomSpec {
    form: vk::range_u8(0, 3),
    a: vk::any(),
    b: vk::any(),
  }
}
fn mk_dom(s: DomSpec) -> DomainIds {
  match s.form {
    0 => DomainIds::Value(s.a),
    1 => DomainIds::Range(s.a, s.b),
    2 => DomainIds::Min(s.a),
    _ => DomainIds::Max(s.a),
  }
}
/// DDS Security 1.1, 9.4.1.3.2.3.1.1 / XSD DomainIdSet: a single id, or a range with min and/or
/// max, both inclusive; a missing bound is open.
fn ref_dom(s: DomSpec, d: u16) -> bool {
  let (a, b, d) = (s.a as i32, s.b as i32, d as i32);
  match s.form {
    0 => d - a == 0,
    1 => d - a >= 0 && b - d >= 0,
    2 => d - a >= 0,
    _ => a - d >= 0,
  }
}

#[cfg_attr(kani, kani::proof, kani::unwind(3))]
#[cfg_attr(verif_replay, test)]
fn c18_domain_ids_matches() {
  vk::begin("c18_domain_ids_matches");
  let s = any_dom();
  let d: u16 = vk::any();
  let got = mk_dom(s).matches(d);
  assert!(got == ref_dom(s, d), "DomainIds::matches differs from value / inclusive range semantics");
  vk_cover!(got && s.form == 1 && d == s.b && s.a < s.b, "upper range bound is inside");
  vk_cover!(got && s.form == 1 && d == s.a && s.a < s.b, "lower range bound is inside");
  vk_cover!(!got && s.form == 1 && s.a > s.b, "inverted range matches nothing");
  vk_cover!(got && s.form == 3 && d == 0, "open lower end");
  vk_cover!(got && s.form == 2 && d == u16::MAX, "open upper end");
  vk::end();
}

/// The XML element -> DomainIds mapping (from_xml) composed with matches.
#[cfg_attr(kani, kani::proof, kani::unwind(3))]
#[cfg_attr(kani, kani::stub(std::fmt::format, crate::verif_env::stub_format))]
#[cfg_attr(verif_replay, test)]
fn c18_domain_ids_from_xml() {
  vk::begin("c18_domain_ids_from_xml");
  let s = any_dom();
  let no_bound = vk::any::<bool>(); // <id_range> with neither min nor max
  let d: u16 = vk::any();
  let member = match s.form {
    0 => xml::DomainIdSetMember::DomainId(xml::DomainId { id: s.a }),
    _ => {
      let min = if !no_bound && (s.form == 1 || s.form == 2) {
        Some(xml::DomainId { id: s.a })
      } else {
        None
      };
      let max = if !no_bound && s.form == 1 {
        Some(xml::DomainId { id: s.b })
      } else if !no_bound && s.form == 3 {
        Some(xml::DomainId { id: s.a })
      } else {
        None
      };
      xml::DomainIdSetMember::DomainIdRange(xml::DomainIdRange { min, max })
    }
  };
  let r = DomainIds::from_xml(&member);
  match &r {
    Ok(ids) => {
      assert!(s.form == 0 || !no_bound, "a range without any bound was accepted");
      assert!(ids.matches(d) == ref_dom(s, d), "parsed domain id element matches differently from the schema");
    }
    Err(_) => assert!(s.form != 0 && no_bound, "a well-formed domain id element was rejected"),
  }
  vk_cover!(r.is_ok() && s.form == 3 && ref_dom(s, d), "max-only range parsed and matched");
  vk_cover!(r.is_err(), "boundless range rejected");
  core::mem::forget(r);
  vk::end();
}

// =========================================================================================
// (2) Criterion / Rule / Grant
// =========================================================================================
#[derive(Clone, Copy)]
struct CritSpec {
  topic: [u8; 2], // pattern menu indices
  nt: usize,      // how many topic patterns (concrete)
  part: [u8; 2],
  np: usize, // how many partition patterns (concrete)
}
/// `pmax`: largest pattern index used (4 = full menu, 3 = without the 5-character class pattern,
/// which lets composite harnesses keep a small unwind bound).
fn any_crit(nt: usize, np: usize, pmax: u8) -> CritSpec {
  CritSpec {
    topic: [vk::range_u8(0, pmax), vk::range_u8(0, pmax)],
    nt,
    part: [vk::range_u8(0, pmax), vk::range_u8(0, pmax)],
    np,
  }
}
fn pat_vec(idx: [u8; 2], n: usize) -> Vec<Pattern> {
  match n {
    0 => Vec::new(),
    1 => vec![mk_pat(idx[0])],
    _ => vec![mk_pat(idx[0]), mk_pat(idx[1])],
  }
}
fn mk_crit(s: &CritSpec) -> Criterion {
  Criterion {
    topics: pat_vec(s.topic, s.nt),
    partitions: pat_vec(s.part, s.np),
    data_tags: Vec::new(),
  }
}
/// Reference: some topic expression matches the topic AND every queried partition is matched by
/// some partition expression (9.4.1.3.2.3.1.2-4); no data tags are queried.
fn ref_crit(s: &CritSpec, topic: u8, qparts: &[u8]) -> bool {
  let mut topic_ok = false;
  let mut i = 0;
  while i < s.nt {
    topic_ok = topic_ok || fnm(s.topic[i], topic);
    i += 1;
  }
  let mut parts_ok = true;
  let mut q = 0;
  while q < qparts.len() {
    let mut some = false;
    let mut j = 0;
    while j < s.np {
      some = some || fnm(s.part[j], qparts[q]);
      j += 1;
    }
    parts_ok = parts_ok && some;
    q += 1;
  }
  topic_ok && parts_ok
}

macro_rules! criterion_harness {
  ($fname:ident, $nt:expr, $np:expr, $nq:expr) => {
    #[cfg_attr(kani, kani::proof, kani::unwind(7))]
    #[cfg_attr(kani, kani::stub(glob::Pattern::matches, glob_contract))]
    #[cfg_attr(verif_replay, test)]
    fn $fname() {
      vk::begin(stringify!($fname));
      let s = any_crit($nt, $np, N_PAT - 1);
      let c = mk_crit(&s);
      let topic = vk::range_u8(0, N_NAME - 1);
      let qi: [u8; 2] = [vk::range_u8(0, N_NAME - 1), vk::range_u8(0, N_NAME - 1)];
      let qn: [&str; 2] = [name(qi[0]), name(qi[1])];
      let got = c.is_applicable(name(topic), qn[..$nq].iter(), [].iter());
      let want = ref_crit(&s, topic, &qi[..$nq]);
      assert!(got == want, "Criterion::is_applicable differs from the reference");
      // a criterion without partition expressions never applies to an explicitly queried partition
      vk_cover!(got || ($np == 0 && $nq > 0), "applicable");
      vk_cover!(!got, "not applicable");
      core::mem::forget(c);
      vk::end();
    }
  };
}
criterion_harness!(c18_criterion_t1_p0_q0, 1, 0, 0);
criterion_harness!(c18_criterion_t2_p0_q1, 2, 0, 1);
criterion_harness!(c18_criterion_t1_p1_q1, 1, 1, 1);
criterion_harness!(c18_criterion_t2_p2_q0, 2, 2, 0);
criterion_harness!(c18_criterion_t2_p2_q2, 2, 2, 2);
criterion_harness!(c18_criterion_t1_p1_q2, 1, 1, 2);

/// Shape of one rule.  The pattern ASSIGNMENT is concrete per harness instance (menu indices;
/// X = slot absent) — one `Pattern::new` costs ~15k symex steps, so the composite harnesses do
/// not multiply it by a symbolic choice per slot; the full pattern x name product is symbolic at
/// the Criterion level above.  Verdict, domain set, action, queried domain / topic / partition
/// stay symbolic.
const X: u8 = 255;
#[derive(Clone, Copy)]
struct RuleShape {
  topic: [[u8; 2]; 3], // [action][criterion] -> topic pattern index, X = no such criterion
  part: [[u8; 2]; 3],  // partition pattern of that criterion, X = criterion lists no partitions
}
#[derive(Clone, Copy)]
struct RuleSpec {
  allow: bool,
  dom: [DomSpec; 2],
  shape: RuleShape,
}
fn any_rule(shape: RuleShape) -> RuleSpec {
  RuleSpec {
    allow: vk::any(),
    dom: [any_dom(), any_dom()],
    shape,
  }
}
fn crit_vec(tp: [u8; 2], pp: [u8; 2]) -> Vec<Criterion> {
  let mk = |k: usize| Criterion {
    topics: vec![mk_pat(tp[k])],
    partitions: if pp[k] == X { Vec::new() } else { vec![mk_pat(pp[k])] },
    data_tags: Vec::new(),
  };
  if tp[0] == X {
    Vec::new()
  } else if tp[1] == X {
    vec![mk(0)]
  } else {
    vec![mk(0), mk(1)]
  }
}
fn verdict(allow: bool) -> AllowOrDeny {
  if allow {
    AllowOrDeny::Allow
  } else {
    AllowOrDeny::Deny
  }
}
fn mk_rule(s: &RuleSpec) -> Rule {
  Rule {
    verdict: verdict(s.allow),
    domains: vec![mk_dom(s.dom[0]), mk_dom(s.dom[1])],
    publish: crit_vec(s.shape.topic[0], s.shape.part[0]),
    subscribe: crit_vec(s.shape.topic[1], s.shape.part[1]),
    relay: crit_vec(s.shape.topic[2], s.shape.part[2]),
  }
}
fn any_action() -> (u8, Action) {
  let a = vk::range_u8(0, 2);
  (
    a,
    match a {
      0 => Action::Publish,
      1 => Action::Subscribe,
      _ => Action::Relay,
    },
  )
}
/// one criterion: topic expression matches and the queried partition (if any) is matched by the
/// criterion's partition expression (a criterion without partition expressions matches no
/// explicitly queried partition)
fn ref_one(tp: u8, pp: u8, topic: u8, qpart: Option<u8>) -> bool {
  if tp == X {
    return false;
  }
  let part_ok = match qpart {
    None => true,
    Some(q) => pp != X && fnm(pp, q),
  };
  fnm(tp, topic) && part_ok
}
/// Reference: the rule covers the domain AND one of the criteria listed for THIS action applies.
fn ref_rule(s: &RuleSpec, action: u8, d: u16, topic: u8, qpart: Option<u8>) -> bool {
  let dom_ok = ref_dom(s.dom[0], d) || ref_dom(s.dom[1], d);
  let (tp, pp) = match action {
    0 => (s.shape.topic[0], s.shape.part[0]),
    1 => (s.shape.topic[1], s.shape.part[1]),
    _ => (s.shape.topic[2], s.shape.part[2]),
  };
  dom_ok && (ref_one(tp[0], pp[0], topic, qpart) || ref_one(tp[1], pp[1], topic, qpart))
}

/// One rule, uneven criteria lists (2 publish, 1 subscribe, 0 relay): right list consulted,
/// "any criterion", domain set.
#[cfg_attr(kani, kani::proof, kani::unwind(3))]
#[cfg_attr(kani, kani::stub(glob::Pattern::matches, glob_contract))]
#[cfg_attr(verif_replay, test)]
fn c18_rule_is_applicable() {
  vk::begin("c18_rule_is_applicable");
  // publish: {"Ab" in partition "A*"} or {"?b" in partition "*"}; subscribe: {"A*" in "?b"}; relay: none
  let s = any_rule(RuleShape {
    topic: [[3, 2], [1, X], [X, X]],
    part: [[1, 0], [2, X], [X, X]],
  });
  let r = mk_rule(&s);
  let (ai, action) = any_action();
  let d: u16 = vk::any();
  let topic = vk::range_u8(0, N_NAME - 1);
  let qi = vk::range_u8(0, N_NAME - 1);
  let qn = [name(qi)];
  let got = r.is_applicable(action, d, name(topic), &qn, &[]);
  let want = ref_rule(&s, ai, d, topic, Some(qi));
  assert!(got == want, "Rule::is_applicable differs from the reference");
  vk_cover!(got && ai == 0, "publish applicable");
  vk_cover!(got && ai == 1, "subscribe applicable");
  vk_cover!(!got && ai == 2, "empty relay list never applies");
  vk_cover!(got && ai == 0 && !ref_one(3, 1, topic, Some(qi)), "second publish criterion decides");
  vk_cover!(!got && ai == 1 && fnm(1, topic) && (ref_dom(s.dom[0], d) || ref_dom(s.dom[1], d)), "partition decides");
  core::mem::forget(r);
  vk::end();
}

struct GrantSpec {
  rules: [RuleSpec; 2],
  n_rules: usize, // concrete
  default_allow: bool,
}
fn mk_rules(g: &GrantSpec) -> Vec<Rule> {
  match g.n_rules {
    0 => Vec::new(),
    1 => vec![mk_rule(&g.rules[0])],
    _ => vec![mk_rule(&g.rules[0]), mk_rule(&g.rules[1])],
  }
}
/// Reference, independent of the implementation: the FIRST applicable rule decides, otherwise
/// the grant's default (DDS Security 1.1, 9.4.1.3.2.3 "Rules section").
fn ref_grant(g: &GrantSpec, action: u8, d: u16, topic: u8, qpart: Option<u8>) -> bool {
  if g.n_rules >= 1 && ref_rule(&g.rules[0], action, d, topic, qpart) {
    g.rules[0].allow
  } else if g.n_rules >= 2 && ref_rule(&g.rules[1], action, d, topic, qpart) {
    g.rules[1].allow
  } else {
    g.default_allow
  }
}

const NO_PART: [[u8; 2]; 3] = [[X, X], [X, X], [X, X]];
macro_rules! grant_harness {
  ($fname:ident, $n_rules:expr, $shape0:expr, $shape1:expr, $with_part:expr) => {
    #[cfg_attr(kani, kani::proof, kani::unwind(3))]
    #[cfg_attr(kani, kani::stub(glob::Pattern::matches, glob_contract))]
    #[cfg_attr(verif_replay, test)]
    fn $fname() {
      vk::begin(stringify!($fname));
      let gs = GrantSpec {
        rules: [any_rule($shape0), any_rule($shape1)],
        n_rules: $n_rules,
        default_allow: vk::any(),
      };
      let g = Grant {
        subject_name: dn_lit(b'a'),
        validity: instant(1)..instant(3),
        rules: mk_rules(&gs),
        default_action: verdict(gs.default_allow),
      };
      let (ai, action) = any_action();
      let d: u16 = vk::any();
      let topic = vk::range_u8(0, N_NAME - 1);
      let qi = vk::range_u8(0, N_NAME - 1);
      let qn = [name(qi)];
      let (qparts, qref): (&[&str], Option<u8>) = if $with_part { (&qn[..], Some(qi)) } else { (&[], None) };
      let got: bool = g.check_action(action, d, name(topic), qparts, &[]).into();
      let want = ref_grant(&gs, ai, d, topic, qref);
      assert!(got == want, "Grant::check_action: not 'first applicable rule, else default'");
      let a0 = $n_rules >= 1 && ref_rule(&gs.rules[0], ai, d, topic, qref);
      let a1 = $n_rules >= 2 && ref_rule(&gs.rules[1], ai, d, topic, qref);
      vk_cover!($n_rules < 2 || (a0 && a1 && gs.rules[0].allow != gs.rules[1].allow), "overlapping rules with opposite verdicts");
      vk_cover!($n_rules < 2 || (!a0 && a1 && gs.rules[1].allow != gs.default_allow), "second rule decides against the default");
      vk_cover!($n_rules < 1 || (a0 && !gs.rules[0].allow && gs.default_allow), "deny rule overrides allow default");
      vk_cover!(!a0 && !a1 && got == gs.default_allow, "default decides");
      core::mem::forget(g);
      vk::end();
    }
  };
}
const SHAPE_A: RuleShape = RuleShape { topic: [[1, X], [2, X], [3, X]], part: NO_PART }; // pub "A*", sub "?b", relay "Ab"
const SHAPE_ALL: RuleShape = RuleShape { topic: [[0, X], [0, X], [0, X]], part: NO_PART }; // "*" everywhere
const SHAPE_B: RuleShape = RuleShape { topic: [[2, X], [3, X], [1, X]], part: NO_PART };
const SHAPE_C: RuleShape = RuleShape { topic: [[3, X], [1, X], [2, X]], part: NO_PART };
const SHAPE_P: RuleShape = RuleShape { topic: [[1, X], [2, X], [0, X]], part: [[2, X], [0, X], [3, X]] };
grant_harness!(c18_grant_check_action_r0, 0, SHAPE_A, SHAPE_A, false);
grant_harness!(c18_grant_check_action_r1_part, 1, SHAPE_P, SHAPE_P, true);
grant_harness!(c18_grant_check_action_r2_specific_then_general, 2, SHAPE_A, SHAPE_ALL, false);
grant_harness!(c18_grant_check_action_r2_overlapping, 2, SHAPE_B, SHAPE_C, false);

// =========================================================================================
// (3) find_grant: subject and validity window
// =========================================================================================
/// CN=<v> built by literal (DistinguishedName::parse walks the whole OID database).
fn dn_lit(v: u8) -> DistinguishedName {
  use der::{
    asn1::{Any, SetOfVec},
    Tag,
  };
  use x509_cert::{
    attr::AttributeTypeAndValue,
    name::{RdnSequence, RelativeDistinguishedName},
  };
  let atv = AttributeTypeAndValue {
    oid: const_oid::db::rfc4519::CN,
    value: Any::new(Tag::Utf8String, vec![v]).unwrap(),
  };
  let mut set = SetOfVec::new();
  set.insert_ordered(atv).unwrap();
  RdnSequence(vec![RelativeDistinguishedName(set)]).into()
}
fn subject(second: bool) -> DistinguishedName {
  dn_lit(if second { b'b' } else { b'a' })
}

/// Five strictly increasing concrete instants (index order == time order).
fn instant(i: u8) -> DateTime<Utc> {
  let s = 1_577_836_800i64; // 2020-01-01T00:00:00Z
  let secs = match i {
    0 => s - 1,
    1 => s,
    2 => s + 500,
    3 => s + 1000,
    _ => s + 1001,
  };
  DateTime::from_timestamp(secs, 0).unwrap()
}

#[derive(Clone, Copy)]
struct GrantHead {
  second_subject: bool,
  start: u8, // instant index
  end: u8,
}
fn any_head() -> GrantHead {
  GrantHead {
    second_subject: vk::any(),
    start: vk::range_u8(0, 4),
    end: vk::range_u8(0, 4),
  }
}
fn mk_head_grant(h: GrantHead) -> Grant {
  Grant {
    subject_name: subject(h.second_subject),
    validity: instant(h.start)..instant(h.end),
    rules: Vec::new(),
    default_action: AllowOrDeny::Deny,
  }
}
/// valid at `now` <=> not_before <= now < not_after   (see "assumptions" in the table entry)
fn ref_head(h: GrantHead, second_subject: bool, now: u8) -> bool {
  h.second_subject == second_subject && h.start <= now && now < h.end
}

#[cfg_attr(kani, kani::proof, kani::unwind(7))]
#[cfg_attr(verif_replay, test)]
fn c18_find_grant() {
  vk::begin("c18_find_grant");
  let h = [any_head(), any_head()];
  let perms = DomainParticipantPermissions {
    grants: vec![mk_head_grant(h[0]), mk_head_grant(h[1])],
    original_string: String::new(),
  };
  let q_second: bool = vk::any();
  let q = subject(q_second);
  let now_i = vk::range_u8(0, 4);
  let now = instant(now_i);
  let got = perms.find_grant(&q, &now);
  let v0 = ref_head(h[0], q_second, now_i);
  let v1 = ref_head(h[1], q_second, now_i);
  match got {
    None => assert!(!v0 && !v1, "a currently valid grant of the subject was not found"),
    Some(g) => {
      let is0 = core::ptr::eq(g, &perms.grants[0]);
      let is1 = core::ptr::eq(g, &perms.grants[1]);
      assert!(is0 || is1, "returned grant is not from the document");
      assert!(!is0 || v0, "first grant returned although subject or validity does not fit");
      assert!(!is1 || (v1 && !v0), "second grant returned although not valid or the first one applies");
    }
  }
  vk_cover!(got.is_some() && now_i == h[0].start && v0, "valid exactly at not_before");
  vk_cover!(
    got.is_none() && now_i == h[0].end && h[0].start < h[0].end && h[0].second_subject == q_second && !v1,
    "not valid at not_after"
  );
  vk_cover!(got.is_some() && !v0 && v1, "second grant selected");
  vk_cover!(
    got.is_none() && h[0].second_subject != q_second && h[0].start <= now_i && now_i < h[0].end && !v1,
    "other subject's grant is not used"
  );
  core::mem::forget((perms, q));
  vk::end();
}

// =========================================================================================
// (4) Governance: first matching topic rule
// =========================================================================================
#[derive(Clone, Copy)]
struct TopicRuleSpec {
  pat: u8,
  read: bool,
  write: bool,
}
fn any_topic_rule(pmax: u8) -> TopicRuleSpec {
  TopicRuleSpec {
    pat: vk::range_u8(0, pmax),
    read: vk::any(),
    write: vk::any(),
  }
}
fn mk_topic_rule(s: TopicRuleSpec) -> TopicRule {
  TopicRule {
    topic_expression: mk_pat(s.pat),
    enable_discovery_protection: false,
    enable_liveliness_protection: false,
    enable_read_access_control: s.read,
    enable_write_access_control: s.write,
    metadata_protection_kind: ProtectionKind::None,
    data_protection_kind: BasicProtectionKind::None,
  }
}
fn mk_domain_rule(s: &[TopicRuleSpec; 2]) -> DomainRule {
  DomainRule {
    domains: Vec::new(),
    allow_unauthenticated_participants: false,
    enable_join_access_control: true,
    discovery_protection_kind: ProtectionKind::None,
    liveliness_protection_kind: ProtectionKind::None,
    rtps_protection_kind: ProtectionKind::None,
    topic_access_rules: vec![mk_topic_rule(s[0]), mk_topic_rule(s[1])],
  }
}
/// index of the first topic rule whose expression matches, 9.4.1.2.7
fn ref_topic_rule(s: &[TopicRuleSpec; 2], topic: u8) -> Option<usize> {
  if fnm(s[0].pat, topic) {
    Some(0)
  } else if fnm(s[1].pat, topic) {
    Some(1)
  } else {
    None
  }
}

#[cfg_attr(kani, kani::proof, kani::unwind(7))]
#[cfg_attr(kani, kani::stub(glob::Pattern::matches, glob_contract))]
#[cfg_attr(verif_replay, test)]
fn c18_governance_find_topic_rule() {
  vk::begin("c18_governance_find_topic_rule");
  let s = [any_topic_rule(N_PAT - 1), any_topic_rule(N_PAT - 1)];
  let dr = mk_domain_rule(&s);
  let topic = vk::range_u8(0, N_NAME - 1);
  let got = dr.find_topic_rule(name(topic));
  match (got, ref_topic_rule(&s, topic)) {
    (None, None) => {}
    (Some(r), Some(k)) => {
      assert!(core::ptr::eq(r, &dr.topic_access_rules[k]), "not the FIRST matching topic rule");
      assert!(
        r.enable_read_access_control == s[k].read && r.enable_write_access_control == s[k].write,
        "flags of another rule"
      );
    }
    _ => panic!("find_topic_rule: found / not found differs from the reference"),
  }
  vk_cover!(got.is_none(), "no rule matches");
  vk_cover!(fnm(s[0].pat, topic) && fnm(s[1].pat, topic) && s[0].read != s[1].read, "two rules overlap");
  vk_cover!(!fnm(s[0].pat, topic) && got.is_some(), "second rule found");
  core::mem::forget(dr);
  vk::end();
}

// =========================================================================================
// (5) Top level: check_create_datawriter / _datareader / _topic  (= check_entity, which
//     check_remote_datawriter / check_remote_topic call with the same arguments)
// =========================================================================================
/// Stand-in for chrono::Utc::now under Kani (the real one is a clock_gettime FFI call).
/// Natively the real clock is used: the windows below are placed decades away from it.
#[cfg(kani)]
fn fixed_now() -> DateTime<Utc> {
  DateTime::from_timestamp(1_790_000_000, 0).unwrap() // 2026-09-21
}
/// validity windows relative to "now" (both worlds): 0 expired, 1 valid, 2 not yet valid
fn window(k: u8) -> std::ops::Range<DateTime<Utc>> {
  let y2000 = DateTime::from_timestamp(946_684_800, 0).unwrap();
  let y2001 = DateTime::from_timestamp(978_307_200, 0).unwrap();
  let y2100 = DateTime::from_timestamp(4_102_444_800, 0).unwrap();
  let y2101 = DateTime::from_timestamp(4_133_980_800, 0).unwrap();
  match k {
    0 => y2000..y2001,
    1 => y2000..y2100,
    _ => y2100..y2101,
  }
}

struct EntityWorld {
  acb: AccessControlBuiltin,
  handle: PermissionsHandle,
  gov: [TopicRuleSpec; 2],
  grant: GrantSpec,
  grant_valid: bool,
}
fn any_entity_world() -> EntityWorld {
  // governance: "Ab" then "?b"  (names: "Ab" -> rule 0, "Bb" -> rule 1, "A"/"Abc" -> no rule)
  let gov = [
    TopicRuleSpec { pat: 3, read: vk::any(), write: vk::any() },
    TopicRuleSpec { pat: 2, read: vk::any(), write: vk::any() },
  ];
  // rules: one publish and one subscribe criterion each, no relay, no partitions
  // (RustDDS passes no partitions and no data tags to the check: "currently unsupported")
  let grant = GrantSpec {
    rules: [
      any_rule(RuleShape { topic: [[1, X], [2, X], [X, X]], part: NO_PART }), // publish "A*", subscribe "?b"
      any_rule(RuleShape { topic: [[X, X], [X, X], [X, X]], part: NO_PART }), // unused (n_rules = 1)
    ],
    n_rules: 1,
    default_allow: vk::any(),
  };
  let grant_second_subject: bool = vk::any();
  let win = vk::range_u8(0, 2);
  let g = Grant {
    subject_name: subject(grant_second_subject),
    validity: window(win),
    rules: mk_rules(&grant),
    default_action: verdict(grant.default_allow),
  };
  let perms = DomainParticipantPermissions {
    grants: vec![g],
    original_string: String::new(),
  };
  let handle: PermissionsHandle = 1;
  let mut acb = AccessControlBuiltin::new();
  acb.domain_rules.insert(handle, mk_domain_rule(&gov));
  acb
    .domain_participant_permissions
    .insert(handle, (subject(false), perms));
  EntityWorld {
    acb,
    handle,
    gov,
    grant,
    grant_valid: !grant_second_subject && win == 1,
  }
}
/// 0 writer, 1 reader, 2 topic — through the public LocalEntityAccessControl API.
/// The topic name is passed as a CONCRETE literal on every path (case split on the menu index):
/// check_entity first compares it with 11 builtin names, and a string comparison on a name that
/// is a symbolic choice unrolls memcmp to its bound for each of them (measured: out of memory).
fn check_create(w: &EntityWorld, kind: u8, d: u16, topic: u8) -> bool {
  match topic {
    0 => check_create_named(w, kind, d, "Ab"),
    1 => check_create_named(w, kind, d, "Bb"),
    2 => check_create_named(w, kind, d, "A"),
    _ => check_create_named(w, kind, d, "Abc"),
  }
}
fn check_create_named(w: &EntityWorld, kind: u8, d: u16, topic: &'static str) -> bool {
  let qos = QosPolicies::qos_none();
  let r = match kind {
    0 => w.acb.check_create_datawriter(w.handle, d, topic.to_string(), &qos),
    1 => w.acb.check_create_datareader(w.handle, d, topic.to_string(), &qos),
    _ => w.acb.check_create_topic(w.handle, d, topic.to_string(), &qos),
  };
  let allowed = matches!(r, Ok(true)); // Err(_) makes the caller refuse the creation as well
  core::mem::forget((r, qos));
  allowed
}
/// "the governance document leaves that access unprotected for the topic":
/// the first matching topic rule has the access control of the requested kind disabled
/// (for a Topic: read or write disabled, DDS Security 1.1 table 63 check_create_topic).
fn ref_unprotected(gov: &[TopicRuleSpec; 2], kind: u8, topic: u8) -> bool {
  match ref_topic_rule(gov, topic) {
    None => false,
    Some(k) => match kind {
      0 => !gov[k].write,
      1 => !gov[k].read,
      _ => !gov[k].write || !gov[k].read,
    },
  }
}
fn ref_granted(g: &GrantSpec, kind: u8, d: u16, topic: u8) -> bool {
  match kind {
    0 => ref_grant(g, 0, d, topic, None),
    1 => ref_grant(g, 1, d, topic, None),
    _ => ref_grant(g, 0, d, topic, None) || ref_grant(g, 1, d, topic, None),
  }
}

/// With a currently valid grant of the subject: allowed <=> unprotected OR granted.
/// Without one and protected: refused.
#[cfg_attr(kani, kani::proof, kani::unwind(3))]
#[cfg_attr(kani, kani::stub(glob::Pattern::matches, glob_contract))]
#[cfg_attr(kani, kani::stub(chrono::Utc::now, fixed_now))]
#[cfg_attr(kani, kani::stub(std::fmt::format, crate::verif_env::stub_format))]
#[cfg_attr(verif_replay, test)]
fn c18_entity_decision() {
  vk::begin("c18_entity_decision");
  let w = any_entity_world();
  let kind = vk::range_u8(0, 2);
  let d: u16 = vk::any();
  let topic = vk::range_u8(0, N_NAME - 1);
  let allowed = check_create(&w, kind, d, topic);
  let unprot = ref_unprotected(&w.gov, kind, topic);
  let granted = ref_granted(&w.grant, kind, d, topic);
  if w.grant_valid {
    assert!(
      allowed == (unprot || granted),
      "decision differs from: governance-unprotected OR first applicable rule (else default) allows"
    );
  } else if !unprot {
    assert!(!allowed, "protected access allowed without a currently valid grant of the subject");
  }
  vk_cover!(w.grant_valid && allowed && !unprot, "allowed by the grant alone");
  vk_cover!(w.grant_valid && allowed && !granted, "allowed by governance alone");
  vk_cover!(w.grant_valid && !allowed && kind == 2, "topic creation refused");
  vk_cover!(!w.grant_valid && !allowed, "refused without valid grant");
  core::mem::forget(w);
  vk::end();
}

/// The remaining case of the statement: no currently valid grant, but governance leaves the
/// access unprotected => allowed (the second disjunct is false, the first is true).
#[cfg_attr(kani, kani::proof, kani::unwind(3))]
#[cfg_attr(kani, kani::stub(glob::Pattern::matches, glob_contract))]
#[cfg_attr(kani, kani::stub(chrono::Utc::now, fixed_now))]
#[cfg_attr(kani, kani::stub(std::fmt::format, crate::verif_env::stub_format))]
#[cfg_attr(verif_replay, test)]
fn c18_entity_unprotected_without_valid_grant() {
  vk::begin("c18_entity_unprotected_without_valid_grant");
  let w = any_entity_world();
  let kind = vk::range_u8(0, 2);
  let d: u16 = vk::any();
  let topic = vk::range_u8(0, N_NAME - 1);
  let allowed = check_create(&w, kind, d, topic);
  let unprot = ref_unprotected(&w.gov, kind, topic);
  if !w.grant_valid && unprot {
    assert!(
      allowed,
      "governance leaves the access unprotected, yet it is refused because no grant is currently valid"
    );
  }
  vk_cover!(!w.grant_valid && unprot, "unprotected access without a valid grant");
  core::mem::forget(w);
  vk::end();
}

/// Builtin (discovery / liveliness / key exchange) topics are always allowed — even with no
/// documents loaded at all.
#[cfg_attr(kani, kani::proof, kani::unwind(3))]
#[cfg_attr(kani, kani::stub(glob::Pattern::matches, glob_contract))]
#[cfg_attr(kani, kani::stub(chrono::Utc::now, fixed_now))]
#[cfg_attr(kani, kani::stub(std::fmt::format, crate::verif_env::stub_format))]
#[cfg_attr(verif_replay, test)]
fn c18_entity_builtin_topics() {
  vk::begin("c18_entity_builtin_topics");
  let acb = AccessControlBuiltin::new();
  let t = vk::range_u8(0, 10);
  let entity = match vk::range_u8(0, 2) {
    0 => Entity::Datawriter,
    1 => Entity::Datareader,
    _ => Entity::Topic,
  };
  let h: PermissionsHandle = vk::any();
  let d: u16 = vk::any();
  let go = |topic: &'static str| {
    let r = acb.check_entity(h, d, topic, &[], &[], &entity);
    let ok = matches!(r, Ok(true));
    core::mem::forget(r);
    ok
  };
  let allowed = match t {
    0 => go(builtin_topic_names::DCPS_PARTICIPANT),
    1 => go(builtin_topic_names::DCPS_PARTICIPANT_MESSAGE),
    2 => go(builtin_topic_names::DCPS_PARTICIPANT_MESSAGE_SECURE),
    3 => go(builtin_topic_names::DCPS_PARTICIPANT_SECURE),
    4 => go(builtin_topic_names::DCPS_PARTICIPANT_STATELESS_MESSAGE),
    5 => go(builtin_topic_names::DCPS_PARTICIPANT_VOLATILE_MESSAGE_SECURE),
    6 => go(builtin_topic_names::DCPS_PUBLICATION),
    7 => go(builtin_topic_names::DCPS_PUBLICATIONS_SECURE),
    8 => go(builtin_topic_names::DCPS_SUBSCRIPTION),
    9 => go(builtin_topic_names::DCPS_SUBSCRIPTIONS_SECURE),
    _ => go(builtin_topic_names::DCPS_TOPIC),
  };
  assert!(allowed, "a builtin topic was refused");
  vk_cover!(t == 10, "last builtin name reached");
  core::mem::forget(acb);
  vk::end();
}
