// C14 body round trips of the submessage kinds other than HEARTBEAT / DATA / DATA_FRAG and of
// the RTPS Header — child module of crate::rtps::submessage (second C14 file there).
//
// Pattern (as c14_heartbeat_roundtrip): value with every field symbolic -> real Writable impl
// -> bytes of the expected size -> real Readable impl -> equal value; re-serialising the
// PARSED value reproduces the bytes (write(read(b)) == b for canonical b); where RustDDS has a
// create_submessage for the kind: content_length == body bytes written, multiple of 4 (the
// framed form is decided by the whole-message harnesses of c14_msg.rs).
// Number sets: num_bits concrete per instance (grid 0, 1, 32, 33), byte order concrete per
// instance (numBits travels through the bytes); fixed-size bodies: byte order symbolic.
#![allow(dead_code, unused_imports, unused_macros, clippy::all)]
use super::*;
use crate::{
  messages::{header::Header, protocol_version::ProtocolVersion, vendor_id::VendorId},
  rtps::submessage::verif_harness_c14_submsg::{
    any_endianness, any_entity_id, any_fn, any_guid_prefix, any_sn, frame_and_check, must,
  },
  structure::{
    guid::GuidPrefix,
    sequence_number::verif_harness_c14_numset::{any_fn_set, any_sn_set, bytes_eq, fn_set_eq, sn_set_eq},
  },
  verif_vk as vk,
  verif_vk::vk_cover,
};
use speedy::Endianness;

fn flag_of(e: Endianness) -> u8 {
  if e == Endianness::LittleEndian {
    1
  } else {
    0
  }
}

// ------------------------------------------------------------------------- number-set bodies

fn gap_case(nb: u32, e: Endianness) {
  let g = Gap {
    reader_id: any_entity_id(),
    writer_id: any_entity_id(),
    gap_start: any_sn(),
    gap_list: any_sn_set(nb),
  };
  let words = ((nb + 31) / 32) as usize;
  let bytes = must!(g.write_to_vec_with_ctx(e), "Gap does not serialise");
  assert!(bytes.len() == 28 + 4 * words, "GAP body is 28 + 4*ceil(num_bits/32) bytes");
  let back = must!(Gap::read_from_buffer_with_ctx(e, &bytes), "Gap body does not parse back");
  assert!(
    back.reader_id == g.reader_id
      && back.writer_id == g.writer_id
      && back.gap_start == g.gap_start
      && sn_set_eq(&back.gap_list, &g.gap_list),
    "Gap differs after write/read"
  );
  let again = must!(back.write_to_vec_with_ctx(e), "parsed Gap does not serialise");
  assert!(bytes_eq(&bytes, &again), "GAP: write(read(b)) != b");
  let fl = BitFlags::<GAP_Flags>::from_bits_truncate(flag_of(e));
  let sm = match g.create_submessage(fl) {
    Some(sm) => sm,
    None => panic!("create_submessage refused a Gap"),
  };
  assert!(sm.header.content_length as usize == bytes.len(), "GAP content_length != body bytes");
  assert!(bytes.len() % 4 == 0, "submessage body is not a multiple of 4 bytes");
  // (the framed form of this kind is decided by the whole-message harnesses of c14_msg.rs: Submessage::write_to on a
  // stored niche-encoded body enum makes CBMC explore every submessage kind -- out of memory here)
  vk_cover!(i64::from(back.gap_start) > (1 << 32), "gap_start above 2^32");
  core::mem::forget(sm);
}

fn acknack_case(nb: u32, e: Endianness) {
  let a = AckNack {
    reader_id: any_entity_id(),
    writer_id: any_entity_id(),
    reader_sn_state: any_sn_set(nb),
    count: vk::any::<i32>(),
  };
  let words = ((nb + 31) / 32) as usize;
  let bytes = must!(a.write_to_vec_with_ctx(e), "AckNack does not serialise");
  assert!(bytes.len() == 24 + 4 * words, "ACKNACK body is 24 + 4*ceil(num_bits/32) bytes");
  assert!(bytes.len() == a.len_serialized(), "ACKNACK len_serialized != bytes written");
  let back = must!(AckNack::read_from_buffer_with_ctx(e, &bytes), "AckNack body does not parse back");
  assert!(
    back.reader_id == a.reader_id
      && back.writer_id == a.writer_id
      && sn_set_eq(&back.reader_sn_state, &a.reader_sn_state)
      && back.count == a.count,
    "AckNack differs after write/read"
  );
  let again = must!(back.write_to_vec_with_ctx(e), "parsed AckNack does not serialise");
  assert!(bytes_eq(&bytes, &again), "ACKNACK: write(read(b)) != b");
  // Final flag concrete per byte order instance (a symbolic flags byte makes the body byte order symbolic)
  let fl = BitFlags::<ACKNACK_Flags>::from_bits_truncate(flag_of(e) | 2);
  let sm = a.create_submessage(fl);
  assert!(sm.header.content_length as usize == bytes.len(), "ACKNACK content_length != body bytes");
  assert!(bytes.len() % 4 == 0, "submessage body is not a multiple of 4 bytes");
  // (the framed form of this kind is decided by the whole-message harnesses of c14_msg.rs: Submessage::write_to on a
  // stored niche-encoded body enum makes CBMC explore every submessage kind -- out of memory here)
  vk_cover!(back.count < 0, "negative count");
  core::mem::forget(sm);
}

fn nackfrag_case(nb: u32, e: Endianness) {
  let a = NackFrag {
    reader_id: any_entity_id(),
    writer_id: any_entity_id(),
    writer_sn: any_sn(),
    fragment_number_state: any_fn_set(nb),
    count: vk::any::<i32>(),
  };
  let words = ((nb + 31) / 32) as usize;
  let bytes = must!(a.write_to_vec_with_ctx(e), "NackFrag does not serialise");
  assert!(bytes.len() == 28 + 4 * words, "NACK_FRAG body is 28 + 4*ceil(num_bits/32) bytes");
  assert!(bytes.len() == a.len_serialized(), "NACK_FRAG len_serialized != bytes written");
  let back = must!(NackFrag::read_from_buffer_with_ctx(e, &bytes), "NackFrag body does not parse back");
  assert!(
    back.reader_id == a.reader_id
      && back.writer_id == a.writer_id
      && back.writer_sn == a.writer_sn
      && fn_set_eq(&back.fragment_number_state, &a.fragment_number_state)
      && back.count == a.count,
    "NackFrag differs after write/read"
  );
  let again = must!(back.write_to_vec_with_ctx(e), "parsed NackFrag does not serialise");
  assert!(bytes_eq(&bytes, &again), "NACK_FRAG: write(read(b)) != b");
  let fl = BitFlags::<NACKFRAG_Flags>::from_bits_truncate(flag_of(e));
  let sm = a.create_submessage(fl);
  assert!(sm.header.content_length as usize == bytes.len(), "NACK_FRAG content_length != body bytes");
  assert!(bytes.len() % 4 == 0, "submessage body is not a multiple of 4 bytes");
  // (the framed form of this kind is decided by the whole-message harnesses of c14_msg.rs: Submessage::write_to on a
  // stored niche-encoded body enum makes CBMC explore every submessage kind -- out of memory here)
  vk_cover!(i64::from(back.writer_sn) > (1 << 32), "writer_sn above 2^32");
  core::mem::forget(sm);
}

macro_rules! set_body {
  ($name:ident, $f:ident, $nb:expr, $e:ident) => {
    #[cfg_attr(kani, kani::proof, kani::unwind(14))]
    #[cfg_attr(kani, kani::stub(std::fmt::format, crate::verif_env::stub_format))]
    #[cfg_attr(
      kani,
      kani::stub(
        std::vec::Vec::with_capacity,
        crate::structure::sequence_number::verif_harness_c14_numset::stub_with_capacity
      )
    )]
    #[cfg_attr(kani, kani::stub(std::vec::Vec::push, crate::verif_env::stub_vec_push))]
    // speedy's slice reader / two-pass vec writer -> the plain reader / writer objects of c14_msg.rs
    #[cfg_attr(
      kani,
      kani::stub(
        speedy::Readable::read_from_buffer_with_ctx,
        crate::rtps::message::verif_harness_c14_msg::StubReadable::stub_read_from_buffer_with_ctx
      )
    )]
    #[cfg_attr(
      kani,
      kani::stub(
        speedy::Writable::write_to_vec_with_ctx,
        crate::rtps::message::verif_harness_c14_msg::StubWritable::stub_write_to_vec_with_ctx
      )
    )]
    #[cfg_attr(verif_replay, test)]
    fn $name() {
      vk::begin(stringify!($name));
      $f($nb, Endianness::$e);
      vk::end();
    }
  };
}
set_body!(c14_gap_roundtrip_0_le, gap_case, 0, LittleEndian);
set_body!(c14_gap_roundtrip_1_be, gap_case, 1, BigEndian);
set_body!(c14_gap_roundtrip_32_le, gap_case, 32, LittleEndian);
set_body!(c14_gap_roundtrip_33_be, gap_case, 33, BigEndian);
set_body!(c14_acknack_roundtrip_0_be, acknack_case, 0, BigEndian);
set_body!(c14_acknack_roundtrip_1_le, acknack_case, 1, LittleEndian);
set_body!(c14_acknack_roundtrip_32_be, acknack_case, 32, BigEndian);
set_body!(c14_acknack_roundtrip_33_le, acknack_case, 33, LittleEndian);
set_body!(c14_nackfrag_roundtrip_0_le, nackfrag_case, 0, LittleEndian);
set_body!(c14_nackfrag_roundtrip_1_be, nackfrag_case, 1, BigEndian);
set_body!(c14_nackfrag_roundtrip_32_le, nackfrag_case, 32, LittleEndian);
set_body!(c14_nackfrag_roundtrip_33_be, nackfrag_case, 33, BigEndian);

// ------------------------------------------------------------------------- fixed-size bodies

macro_rules! fixed_body {
  ($name:ident, $body:block) => {
    #[cfg_attr(kani, kani::proof, kani::unwind(14))]
    #[cfg_attr(kani, kani::stub(std::fmt::format, crate::verif_env::stub_format))]
    #[cfg_attr(verif_replay, test)]
    fn $name() {
      vk::begin(stringify!($name));
      $body;
      vk::end();
    }
  };
}

fixed_body!(c14_heartbeatfrag_roundtrip, {
  let e = any_endianness();
  let h = HeartbeatFrag {
    reader_id: any_entity_id(),
    writer_id: any_entity_id(),
    writer_sn: any_sn(),
    last_fragment_num: any_fn(),
    count: vk::any::<i32>(),
  };
  let bytes = must!(h.write_to_vec_with_ctx(e), "HeartbeatFrag does not serialise");
  assert!(bytes.len() == 24, "HEARTBEAT_FRAG body is 24 bytes");
  let back = must!(
    HeartbeatFrag::read_from_buffer_with_ctx(e, &bytes),
    "HeartbeatFrag body does not parse back"
  );
  assert!(back == h, "HeartbeatFrag differs after write/read");
  let again = must!(back.write_to_vec_with_ctx(e), "parsed HeartbeatFrag does not serialise");
  assert!(bytes_eq(&bytes, &again), "HEARTBEAT_FRAG: write(read(b)) != b");
  vk_cover!(e == Endianness::BigEndian && u32::from(h.last_fragment_num) > 0x8000_0000, "BE, large fragment number");
});

fixed_body!(c14_infodst_roundtrip, {
  let e = any_endianness();
  let d = InfoDestination {
    guid_prefix: any_guid_prefix(),
  };
  let bytes = must!(d.write_to_vec_with_ctx(e), "InfoDestination does not serialise");
  assert!(bytes.len() == 12 && bytes.len() == d.len_serialized(), "INFO_DST body is 12 bytes");
  let back = must!(
    InfoDestination::read_from_buffer_with_ctx(e, &bytes),
    "InfoDestination body does not parse back"
  );
  assert!(back == d, "InfoDestination differs after write/read");
  let again = must!(back.write_to_vec_with_ctx(e), "parsed InfoDestination does not serialise");
  assert!(bytes_eq(&bytes, &again), "INFO_DST: write(read(b)) != b");
  let fl = BitFlags::<INFODESTINATION_Flags>::from_bits_truncate(vk::any::<u8>());
  let sm = d.create_submessage(fl);
  assert!(sm.header.content_length == 12, "INFO_DST content_length");
  assert!(bytes.len() % 4 == 0, "submessage body is not a multiple of 4 bytes");
  // (the framed form of this kind is decided by the whole-message harnesses of c14_msg.rs: Submessage::write_to on a
  // stored niche-encoded body enum makes CBMC explore every submessage kind -- out of memory here)
  vk_cover!(e == Endianness::BigEndian && back.guid_prefix.bytes[11] == 0xff, "BE");
  core::mem::forget(sm);
});

fixed_body!(c14_infosrc_roundtrip, {
  let e = any_endianness();
  let s = InfoSource {
    unused: vk::any::<u32>(),
    protocol_version: ProtocolVersion {
      major: vk::any(),
      minor: vk::any(),
    },
    vendor_id: VendorId {
      vendor_id: [vk::any(), vk::any()],
    },
    guid_prefix: any_guid_prefix(),
  };
  let bytes = must!(s.write_to_vec_with_ctx(e), "InfoSource does not serialise");
  assert!(bytes.len() == 20, "INFO_SRC body is 20 bytes");
  let back = must!(InfoSource::read_from_buffer_with_ctx(e, &bytes), "InfoSource body does not parse back");
  assert!(back == s, "InfoSource differs after write/read");
  let again = must!(back.write_to_vec_with_ctx(e), "parsed InfoSource does not serialise");
  assert!(bytes_eq(&bytes, &again), "INFO_SRC: write(read(b)) != b");
  vk_cover!(e == Endianness::LittleEndian && s.unused == 0xdead_beef, "LE, the unused long is carried");
});

fixed_body!(c14_infots_roundtrip, {
  // the body of INFO_TS without the Invalidate flag is a Timestamp; with the flag it is empty
  // (the whole-message harnesses cover the empty form)
  let e = any_endianness();
  let t = Timestamp::from_ticks(vk::any::<u64>());
  let bytes = must!(t.write_to_vec_with_ctx(e), "Timestamp does not serialise");
  assert!(bytes.len() == 8, "INFO_TS body is 8 bytes");
  let back = must!(Timestamp::read_from_buffer_with_ctx(e, &bytes), "Timestamp does not parse back");
  assert!(back == t, "Timestamp differs after write/read");
  // seconds first, then fraction (RTPS 9.3.2)
  let sec = if e == Endianness::LittleEndian {
    u32::from_le_bytes([bytes[0], bytes[1], bytes[2], bytes[3]])
  } else {
    u32::from_be_bytes([bytes[0], bytes[1], bytes[2], bytes[3]])
  };
  assert!(sec as u64 == t.to_ticks() >> 32, "Timestamp wire layout is not {{seconds, fraction}}");
  let again = must!(back.write_to_vec_with_ctx(e), "parsed Timestamp does not serialise");
  assert!(bytes_eq(&bytes, &again), "INFO_TS: write(read(b)) != b");
  vk_cover!(e == Endianness::BigEndian && t.to_ticks() == u64::MAX, "BE, TIME_INVALID");
});

fixed_body!(c14_header_roundtrip, {
  // every header RustDDS can construct: protocol id RTPS (its field is private, the only
  // other source is parsing), any version / vendor / prefix
  let e = any_endianness();
  let mut h = Header::new(any_guid_prefix());
  h.protocol_version = ProtocolVersion {
    major: vk::any(),
    minor: vk::any(),
  };
  h.vendor_id = VendorId {
    vendor_id: [vk::any(), vk::any()],
  };
  let bytes = must!(h.write_to_vec_with_ctx(e), "Header does not serialise");
  assert!(bytes.len() == 20, "RTPS header is 20 bytes");
  assert!(
    bytes[0] == b'R' && bytes[1] == b'T' && bytes[2] == b'P' && bytes[3] == b'S',
    "RTPS magic"
  );
  assert!(
    bytes[4] == h.protocol_version.major && bytes[5] == h.protocol_version.minor && bytes[6] == h.vendor_id.vendor_id[0],
    "version / vendor bytes"
  );
  let back = must!(Header::read_from_buffer_with_ctx(e, &bytes), "Header does not parse back");
  assert!(back == h, "Header differs after write/read");
  let again = must!(back.write_to_vec_with_ctx(e), "parsed Header does not serialise");
  assert!(bytes_eq(&bytes, &again), "Header: write(read(b)) != b");
  vk_cover!(e == Endianness::BigEndian && h.protocol_version.major == 3, "BE, future major version");
});
