// C09 — "a bad or unintelligible change never wedges a reader".
// Child module of crate::dds::with_key::simpledatareader: a REAL SimpleDataReader object
// (struct literal; its Subscriber / Topic point at no DomainParticipant) over a REAL
// TopicCache that the harness fills with CacheChanges exactly as rtps::Reader does
// (TopicCache::add_change + mark_reliably_received_before), then n+2 calls of
// try_take_one_with.  Every call is compared with a short reference oracle.
//
// Boundedness is an explicit assertion, not only an unwinding assertion: the decoder handed
// to try_take_one_with is the crate's default CDR decoder wrapped in a type whose `Clone`
// counts.  try_take_one_with clones the decoder exactly once per loop iteration that got a
// change from the cache, so "clones in one call <= number of changes in the cache" is
// "the loop terminates", and "clones == skipped + returned" is "skipped exactly once".
#![allow(dead_code, unused_imports, unused_variables, unused_mut, clippy::all)]
// explicit: Kani's stub-path resolver finds `std` ambiguous through the parent's glob imports
use ::std;
use std::sync::{Arc, Mutex, RwLock};

use bytes::Bytes;
use serde::{Deserialize, Serialize};

use super::*;
use crate::{
  dds::{
    adapters::{no_key, with_key},
    key::verif_harness_c09_key::{key_hash_bytes, key_hash_from},
    participant::verif_harness_c09_dp::dummy_dp_weak,
    statusevents::sync_status_channel,
    topic::TopicKind,
    typedesc::TypeDesc,
    with_key::datawriter::WriteOptions,
  },
  discovery::discovery_db::DiscoveryDB,
  messages::submessages::elements::serialized_payload::SerializedPayload,
  rtps::reader::ReaderIngredients,
  structure::{
    cache_change::ChangeKind,
    duration::Duration,
    guid::{EntityKind, GuidPrefix},
  },
  verif_vk as vk,
  verif_vk::vk_cover,
  RepresentationIdentifier,
};

// ------------------------------------------------------------------ tiny keyed type
#[derive(Serialize, Deserialize, Clone, Copy, PartialEq, Eq, Debug)]
pub(crate) struct VK {
  pub k: u8,
  pub v: u8,
}
impl Keyed for VK {
  type K = u8;
  fn key(&self) -> u8 {
    self.k
  }
}
pub(crate) type DA = CDRDeserializerAdapter<VK>;
pub(crate) type SDR = SimpleDataReader<VK, DA>;

// ------------------------------------------------------------------ counting decoder
pub(crate) static mut CLONES: usize = 0;
pub(crate) static mut CLONE_LIMIT: usize = usize::MAX;

/// The crate's default decoder for CDRDeserializerAdapter<VK>, plus a clone counter.
pub(crate) struct CountingDecoder(<DA as with_key::DefaultDecoder<VK>>::Decoder);
impl CountingDecoder {
  pub fn new() -> Self {
    CountingDecoder(<DA as with_key::DefaultDecoder<VK>>::DECODER)
  }
}
impl Clone for CountingDecoder {
  fn clone(&self) -> Self {
    unsafe {
      CLONES += 1;
      assert!(
        CLONES <= CLONE_LIMIT,
        "try_take_one_with does not terminate: more loop iterations in one call than there are changes in the receive cache"
      );
    }
    CountingDecoder(self.0.clone())
  }
}
impl no_key::Decode<VK> for CountingDecoder {
  type Error = crate::serialization::Error;
  fn decode_bytes(self, input_bytes: &[u8], encoding: RepresentationIdentifier) -> Result<VK, Self::Error> {
    no_key::Decode::<VK>::decode_bytes(self.0, input_bytes, encoding)
  }
}
impl with_key::Decode<VK, u8> for CountingDecoder {
  fn decode_key_bytes(self, input_key_bytes: &[u8], encoding: RepresentationIdentifier) -> Result<u8, Self::Error> {
    with_key::Decode::<VK, u8>::decode_key_bytes(self.0, input_key_bytes, encoding)
  }
}

// ------------------------------------------------------------------ the reader object
#[cfg(kani)]
const CHAN: usize = 1;
#[cfg(not(kani))]
const CHAN: usize = 4;

pub(crate) const TOPIC: &str = "t";

pub(crate) fn prefix(n: u8) -> GuidPrefix {
  // struct literal: GuidPrefix::new has a 12-iteration copy loop
  GuidPrefix {
    bytes: [n, 1, 2, 3, 4, 5, 6, 7, 8, 9, 10, 11],
  }
}
pub(crate) fn writer_guid(n: u8) -> GUID {
  GUID::new(
    prefix(n),
    EntityId::new([0, 0, n], EntityKind::WRITER_WITH_KEY_USER_DEFINED),
  )
}
pub(crate) fn reader_guid() -> GUID {
  GUID::new(
    prefix(100),
    EntityId::new([0, 0, 9], EntityKind::READER_WITH_KEY_USER_DEFINED),
  )
}
pub(crate) fn participant_guid() -> GUID {
  GUID::new(prefix(100), EntityId::PARTICIPANT)
}

pub(crate) fn qos_of(reliable: bool) -> QosPolicies {
  let mut q = QosPolicies::qos_none();
  q.reliability = Some(if reliable {
    policy::Reliability::Reliable {
      max_blocking_time: Duration::ZERO,
    }
  } else {
    policy::Reliability::BestEffort
  });
  q.history = Some(policy::History::KeepAll);
  q
}

/// A Subscriber that belongs to no participant.  All channel peers are leaked so that the
/// channels stay connected; the DiscoveryDB is a real, empty one and is never touched by
/// the code under test.
pub(crate) fn dummy_subscriber(qos: &QosPolicies) -> (Subscriber, mio_channel::SyncSender<DiscoveryCommand>) {
  let dpw = dummy_dp_weak(participant_guid());
  let (topic_tx, topic_rx) = mio_channel::sync_channel::<()>(CHAN);
  let (pstatus_tx, pstatus_rx) = sync_status_channel::<DomainParticipantStatusEvent>(CHAN).unwrap();
  let db = Arc::new(RwLock::new(DiscoveryDB::new(
    participant_guid(),
    topic_tx,
    pstatus_tx,
  )));
  let (add_tx, add_rx) = mio_channel::sync_channel::<ReaderIngredients>(1);
  let (rem_tx, rem_rx) = mio_channel::sync_channel::<GUID>(CHAN);
  let (disc_tx, disc_rx) = mio_channel::sync_channel::<DiscoveryCommand>(CHAN);
  let s = Subscriber::new(dpw, db, qos.clone(), add_tx, rem_tx, disc_tx.clone(), None);
  core::mem::forget(topic_rx);
  core::mem::forget(pstatus_rx);
  core::mem::forget(add_rx);
  core::mem::forget(rem_rx);
  core::mem::forget(disc_rx);
  (s, disc_tx)
}

pub(crate) fn dummy_topic(qos: &QosPolicies) -> Topic {
  Topic::new(
    &dummy_dp_weak(participant_guid()),
    TOPIC.to_string(),
    TypeDesc::new("VK".to_string()),
    qos,
    TopicKind::WithKey,
  )
}

pub(crate) struct SRig<D: Keyed + 'static, A: DeserializerAdapter<D>> {
  pub reader: SimpleDataReader<D, A>,
  pub cache: Arc<Mutex<TopicCache>>,
}
impl<D: Keyed + 'static, A: DeserializerAdapter<D>> SRig<D, A> {
  /// SimpleDataReader implements Drop (talks to the event loop and to discovery): the rig
  /// is always leaked.
  pub fn finish(self) {
    core::mem::forget(self);
  }
}

/// Where the TopicCache lives.  Natively: an ordinary `Arc::new`.  Under Kani the Arc points
/// into a caller-owned LOCAL with the layout of std's ArcInner (repr(C): strong, weak, data):
/// a heap object is an untyped byte array for CBMC, and the `&CacheChange` / payload pointers
/// the reader loads back from it are then no longer recognised as pointers to one object —
/// measured: one try_take_one on a heap-resident cache holding ONE change did not finish in
/// 600 s, whatever --max-field-sensitivity-array-size; with the cache in a typed local it does.
/// The code under test is unchanged and never frees the Arc (everything is leaked at the end).
#[repr(C)]
pub(crate) struct ArcSlot<T> {
  strong: std::sync::atomic::AtomicUsize,
  weak: std::sync::atomic::AtomicUsize,
  data: T,
}
pub(crate) type CacheSlot = ArcSlot<Mutex<TopicCache>>;
pub(crate) fn cache_slot(reliable: bool) -> CacheSlot {
  ArcSlot {
    strong: std::sync::atomic::AtomicUsize::new(1),
    weak: std::sync::atomic::AtomicUsize::new(1),
    data: Mutex::new(TopicCache::new(
      TOPIC.to_string(),
      TypeDesc::new("VK".to_string()),
      &qos_of(reliable),
    )),
  }
}
#[cfg(kani)]
pub(crate) fn cache_handle(slot: &mut Option<CacheSlot>, reliable: bool) -> Arc<Mutex<TopicCache>> {
  *slot = Some(cache_slot(reliable));
  let data: *const Mutex<TopicCache> = &slot.as_ref().unwrap().data;
  unsafe { Arc::from_raw(data) }
}
#[cfg(not(kani))]
pub(crate) fn cache_handle(_slot: &mut Option<CacheSlot>, reliable: bool) -> Arc<Mutex<TopicCache>> {
  Arc::new(Mutex::new(TopicCache::new(
    TOPIC.to_string(),
    TypeDesc::new("VK".to_string()),
    &qos_of(reliable),
  )))
}

pub(crate) fn make_srig<D: Keyed + 'static, A: DeserializerAdapter<D>>(
  reliable: bool,
  cache: Arc<Mutex<TopicCache>>,
) -> SRig<D, A> {
  let qos = qos_of(reliable);
  let (my_subscriber, discovery_command) = dummy_subscriber(&qos);
  let my_topic = dummy_topic(&qos);
  let (notification_sender, notification_receiver) = mio_channel::sync_channel::<()>(CHAN);
  let (status_sender, status_receiver) = sync_status_channel::<DataReaderStatus>(CHAN).unwrap();
  let (reader_command, reader_command_rx) = mio_channel::sync_channel::<ReaderCommand>(CHAN);
  let (event_source, poll_event_sender) =
    crate::mio_source::verif_harness_env_mio::stub_make_poll_channel().unwrap();
  core::mem::forget(notification_sender);
  core::mem::forget(status_sender);
  core::mem::forget(reader_command_rx);
  core::mem::forget(poll_event_sender);
  let reader = SimpleDataReader::<D, A> {
    my_subscriber,
    my_topic,
    qos_policy: qos,
    my_guid: reader_guid(),
    notification_receiver: Mutex::new(notification_receiver),
    topic_cache: cache.clone(),
    read_state: Mutex::new(ReadState::new()),
    deserializer_type: PhantomData,
    discovery_command,
    status_receiver,
    reader_command,
    data_reader_waker: Arc::new(Mutex::new(None)),
    event_source,
  };
  SRig { reader, cache }
}

// ------------------------------------------------------------------ cache content
pub(crate) const MAXN: usize = 3;

/// What a change IS (concrete per harness instance).  The bytes inside are symbolic.
#[derive(Clone, Copy, PartialEq, Eq)]
pub(crate) enum Kind {
  /// DATA, CDR_LE, two symbolic bytes (k in 0..=2, v any): decodable
  Value,
  /// DATA, CDR_LE, ONE symbolic byte: the payload ends inside the value (undecodable)
  Short,
  /// DATA, two symbolic bytes, symbolic representation id that is NOT supported
  UnknownRep,
  /// DATA, two symbolic bytes, ANY 16-bit representation id: intelligible iff supported
  AnyRep,
  /// dispose carrying the serialized key (CDR_LE, one symbolic byte in 0..=2)
  DisposeKey,
  /// dispose carrying an EMPTY serialized key (undecodable)
  DisposeNoKey,
  /// dispose carrying only a key hash: bytes [h, 0 x 14, t], h and t symbolic.
  /// The hash of key k is [k, 0 x 15], so the hash is "known" iff t == 0 and key h was seen.
  DisposeHash,
}

#[derive(Clone, Copy)]
pub(crate) struct Ch {
  pub w: u8,
  pub sn: i64,
  pub kind: Kind,
}
pub(crate) const fn ch(w: u8, sn: i64, kind: Kind) -> Ch {
  Ch { w, sn, kind }
}

/// What the change means to a reader (symbolic where the bytes are).
#[derive(Clone, Copy)]
pub(crate) enum Meaning {
  Value { k: u8, v: u8 },
  Bad,
  Dispose { k: u8 },
  HashDispose { k: u8, padded: bool },
}

pub(crate) fn ts_of(j: usize) -> Timestamp {
  // receive timestamps: concrete, strictly increasing with the arrival index
  Timestamp::from_ticks(100 + j as u64)
}

// payload bytes live in a static so that the Bytes are `from_static` (no drop glue, no
// promotable representation — see HARNESS_GUIDE)
static mut PAYLOAD: [[u8; 2]; MAXN] = [[0; 2]; MAXN];

fn static_payload(j: usize, b: [u8; 2], len: usize) -> Bytes {
  unsafe {
    let p = &mut *core::ptr::addr_of_mut!(PAYLOAD);
    p[j] = b;
    let s: &'static [u8] = &(*core::ptr::addr_of!(PAYLOAD))[j];
    Bytes::from_static(&s[..len])
  }
}

fn supported(rep: RepresentationIdentifier) -> bool {
  // documented set of CDRDeserializerAdapter: CDR_BE, CDR_LE, PL_CDR_LE
  rep.bytes == [0, 0] || rep.bytes == [0, 1] || rep.bytes == [0, 3]
}

pub(crate) const KEYS: u8 = 3; // keys 0..KEYS-1

/// Draw the symbolic bytes of change j, build the DDSData the RTPS reader would have stored.
fn make_change(j: usize, kind: Kind) -> (DDSData, Meaning) {
  match kind {
    Kind::Value => {
      let k = vk::range_u8(0, KEYS - 1);
      let v: u8 = vk::any();
      (
        DDSData::new(SerializedPayload::new_from_bytes(
          RepresentationIdentifier::CDR_LE,
          static_payload(j, [k, v], 2),
        )),
        Meaning::Value { k, v },
      )
    }
    Kind::Short => {
      let k: u8 = vk::any();
      (
        DDSData::new(SerializedPayload::new_from_bytes(
          RepresentationIdentifier::CDR_LE,
          static_payload(j, [k, 0], 1),
        )),
        Meaning::Bad,
      )
    }
    Kind::UnknownRep | Kind::AnyRep => {
      let k = vk::range_u8(0, KEYS - 1);
      let v: u8 = vk::any();
      let rep = RepresentationIdentifier {
        bytes: [vk::any(), vk::any()],
      };
      if kind == Kind::UnknownRep {
        vk::assume(!supported(rep));
      }
      (
        DDSData::new(SerializedPayload::new_from_bytes(rep, static_payload(j, [k, v], 2))),
        if supported(rep) {
          Meaning::Value { k, v }
        } else {
          Meaning::Bad
        },
      )
    }
    Kind::DisposeKey => {
      let k = vk::range_u8(0, KEYS - 1);
      (
        DDSData::new_disposed_by_key(
          ChangeKind::NotAliveDisposed,
          SerializedPayload::new_from_bytes(RepresentationIdentifier::CDR_LE, static_payload(j, [k, 0], 1)),
        ),
        Meaning::Dispose { k },
      )
    }
    Kind::DisposeNoKey => (
      DDSData::new_disposed_by_key(
        ChangeKind::NotAliveDisposed,
        SerializedPayload::new_from_bytes(RepresentationIdentifier::CDR_LE, static_payload(j, [0, 0], 0)),
      ),
      Meaning::Bad,
    ),
    Kind::DisposeHash => {
      let h = vk::range_u8(0, KEYS - 1);
      let t: u8 = vk::any();
      (
        DDSData::new_disposed_by_key_hash(
          ChangeKind::NotAliveDisposed,
          key_hash_from([h, 0, 0, 0, 0, 0, 0, 0, 0, 0, 0, 0, 0, 0, 0, t]),
        ),
        Meaning::HashDispose { k: h, padded: t == 0 },
      )
    }
  }
}

// ------------------------------------------------------------------ oracle
pub(crate) struct Oracle<const N: usize> {
  chs: [Ch; N],
  meaning: [Meaning; N],
  order: [usize; N], // delivery order: order[pos] = arrival index
  consumed: [bool; N],
  known: [bool; KEYS as usize], // keys the reader has decoded so far (value or dispose-by-key)
}

/// delivery order: reliable = (writer GUID, sequence number) ascending (what
/// get_changes_in_range_reliable documents: all available changes of one writer in SN order,
/// writers in GUID order); best-effort = arrival (receive timestamp) order.
fn delivery_order<const N: usize>(chs: &[Ch; N], reliable: bool) -> [usize; N] {
  let mut order = [0usize; N];
  let mut used = [false; N];
  let mut pos = 0;
  while pos < N {
    let mut best = N;
    let mut j = 0;
    while j < N {
      if !used[j] {
        let better = best == N
          || (reliable && (chs[j].w, chs[j].sn) < (chs[best].w, chs[best].sn));
        if better {
          best = j;
        }
      }
      j += 1;
    }
    order[pos] = best;
    used[best] = true;
    pos += 1;
  }
  order
}

#[derive(Clone, Copy, PartialEq, Eq)]
pub(crate) enum Got {
  Nothing,
  Error,        // Err(ReadError::Deserialization)
  OtherError,   // any other Err
  Value { w: u8, sn: i64, ts: u64, k: u8, v: u8 },
  Dispose { w: u8, sn: i64, ts: u64, k: u8 },
}

pub(crate) fn classify(r: ReadResult<Option<DeserializedCacheChange<VK>>>) -> Got {
  let g = match &r {
    Ok(None) => Got::Nothing,
    Err(ReadError::Deserialization { .. }) => Got::Error,
    Err(_) => Got::OtherError,
    Ok(Some(d)) => {
      let w = d.writer_guid.prefix.bytes[0];
      let sn = i64::from(d.sequence_number);
      let ts = d.receive_instant.to_ticks();
      match &d.sample {
        Sample::Value(x) => Got::Value { w, sn, ts, k: x.k, v: x.v },
        Sample::Dispose(k) => Got::Dispose { w, sn, ts, k: *k },
      }
    }
  };
  core::mem::forget(r);
  g
}

impl<const N: usize> Oracle<N> {
  /// One call of try_take_one: which result is required and how many changes are consumed.
  /// Returns (expected result, number of changes skipped silently).
  fn step(&mut self) -> (Got, usize) {
    let mut skipped = 0;
    let mut expect = Got::Nothing;
    let mut done = false;
    let mut pos = 0;
    while pos < N {
      let j = self.order[pos];
      if !done && !self.consumed[j] {
        self.consumed[j] = true;
        let c = self.chs[j];
        let ts = 100 + j as u64;
        match self.meaning[j] {
          Meaning::Value { k, v } => {
            expect = Got::Value { w: c.w, sn: c.sn, ts, k, v };
            self.learn(k);
            done = true;
          }
          Meaning::Bad => {
            expect = Got::Error;
            done = true;
          }
          Meaning::Dispose { k } => {
            expect = Got::Dispose { w: c.w, sn: c.sn, ts, k };
            self.learn(k);
            done = true;
          }
          Meaning::HashDispose { k, padded } => {
            if padded && self.knows(k) {
              expect = Got::Dispose { w: c.w, sn: c.sn, ts, k };
              done = true;
            } else {
              // a dispose naming a key hash the reader has never seen: skipped, once
              skipped += 1;
            }
          }
        }
      }
      pos += 1;
    }
    (expect, skipped)
  }
  fn knows(&self, k: u8) -> bool {
    let mut r = false;
    let mut i = 0;
    while i < KEYS {
      if i == k {
        r = self.known[i as usize];
      }
      i += 1;
    }
    r
  }
  fn learn(&mut self, k: u8) {
    let mut i = 0;
    while i < KEYS {
      if i == k {
        self.known[i as usize] = true;
      }
      i += 1;
    }
  }
}

/// Fill the real TopicCache with `chs` (arrival order = array order), then call
/// try_take_one_with N+2 times and compare every call with the oracle.
pub(crate) fn scenario<const N: usize>(reliable: bool, chs: [Ch; N]) {
  let mut slot: Option<CacheSlot> = None; // not moved while the rig exists
  let rig = make_srig::<VK, DA>(reliable, cache_handle(&mut slot, reliable));
  let mut meaning = [Meaning::Bad; N];
  {
    let mut tc = rig.cache.lock().unwrap();
    let mut j = 0;
    while j < N {
      let (data, m) = make_change(j, chs[j].kind);
      meaning[j] = m;
      tc.add_change(
        &ts_of(j),
        CacheChange::new(
          writer_guid(chs[j].w),
          SequenceNumber::new(chs[j].sn),
          WriteOptions::from(None),
          data,
        ),
      );
      j += 1;
    }
    // the RTPS reader has everything up to and including the highest SN of each writer
    let mut j = 0;
    while j < N {
      tc.mark_reliably_received_before(writer_guid(chs[j].w), SequenceNumber::new(chs[j].sn + 1));
      j += 1;
    }
  }
  let mut o = Oracle::<N> {
    chs,
    meaning,
    order: delivery_order(&chs, reliable),
    consumed: [false; N],
    known: [false; KEYS as usize],
  };
  let mut errors = 0;
  let mut delivered = 0;
  let mut skipped_total = 0;
  let mut call = 0;
  while call < N + 2 {
    unsafe {
      CLONES = 0;
      CLONE_LIMIT = N;
    }
    let r = rig.reader.try_take_one_with(CountingDecoder::new());
    let got = classify(r);
    let clones = unsafe { CLONES };
    let (expect, skipped) = o.step();
    assert!(
      got == expect,
      "try_take_one returned something else than the next deliverable change / its decoding error / Ok(None)"
    );
    assert!(
      clones == skipped + if expect == Got::Nothing { 0 } else { 1 },
      "a change was fetched from the cache more than once (or not at all) within one call"
    );
    match got {
      Got::Error => errors += 1,
      Got::Value { .. } | Got::Dispose { .. } => delivered += 1,
      _ => {}
    }
    skipped_total += skipped;
    call += 1;
  }
  // after N+2 calls every change has been consumed exactly once and the reader is at Ok(None)
  assert!(errors + delivered + skipped_total == N, "not every change was consumed exactly once");
  unsafe {
    CLONES = 0;
  }
  let last = classify(rig.reader.try_take_one_with(CountingDecoder::new()));
  assert!(last == Got::Nothing, "reader not at Ok(None) after everything was consumed");
  vk_cover!(
    errors + skipped_total >= 1 || !has_bad(&chs),
    "an unintelligible change was reported or skipped"
  );
  vk_cover!(delivered >= 1 || !has_good(&chs), "an intelligible change was delivered");
  rig.finish();
  core::mem::forget(slot);
}

fn has_bad<const N: usize>(chs: &[Ch; N]) -> bool {
  let mut r = false;
  let mut j = 0;
  while j < N {
    r = r || !matches!(chs[j].kind, Kind::Value | Kind::DisposeKey);
    j += 1;
  }
  r
}
fn has_good<const N: usize>(chs: &[Ch; N]) -> bool {
  let mut r = false;
  let mut j = 0;
  while j < N {
    r = r || matches!(chs[j].kind, Kind::Value | Kind::DisposeKey | Kind::AnyRep);
    j += 1;
  }
  r
}

// ------------------------------------------------------------------ eager try_take_undecoded
// STATUS: experiment.  Neither this stand-in (boxed or UNBOXED variant, with or without LAUNDER),
// nor a heap / typed-local cache, nor SHIM_CAP 2, nor field-sensitivity sizes 64..16384 made ONE
// call of try_take_one_with finish in 300-600 s.  Only c09_rel_hash_value_eager (thorough) uses it.
// kani::stub target for the private associated fn SimpleDataReader::try_take_undecoded (loop
// harnesses only).  It calls the SAME real TopicCache::get_changes_in_range_reliable /
// _best_effort, takes `.next()` at once and hands the element back through a one-shot
// iterator whose state lives in a typed static (a Box of a zero-sized type allocates nothing).
// try_take_one_with calls `.next()` exactly once per iterator; a second call is flagged by an
// assertion instead of being answered wrongly.  Why: CBMC loses track of the `&CacheChange`
// when it travels through the heap-resident state of the boxed FlatMap/FilterMap iterator
// into deserialize_with (measured: > 600 s for one change).  Natively the real function runs.
#[cfg(kani)]
pub(crate) static mut ONESHOT: Option<(Timestamp, *const CacheChange)> = None;
#[cfg(kani)]
pub(crate) static mut ONESHOT_CALLS: usize = 0;
pub(crate) static mut LAUNDER: bool = false;
pub(crate) static mut UNBOXED: bool = true;
#[cfg(kani)]
pub(crate) struct OneShot<'a>(PhantomData<&'a CacheChange>);
#[cfg(kani)]
impl<'a> Iterator for OneShot<'a> {
  type Item = (Timestamp, &'a CacheChange);
  fn next(&mut self) -> Option<Self::Item> {
    unsafe {
      ONESHOT_CALLS += 1;
      assert!(ONESHOT_CALLS <= 1, "eager try_take_undecoded stand-in: .next() called twice on one iterator");
      let v = (*core::ptr::addr_of_mut!(ONESHOT)).take();
      match v {
        Some((t, p)) => Some((t, &*p)),
        None => None,
      }
    }
  }
}
#[cfg(kani)]
pub(crate) fn stub_try_take_undecoded<'a, D: Keyed + 'static, A: DeserializerAdapter<D>>(
  is_reliable: bool,
  topic_cache: &'a TopicCache,
  latest_instant: Timestamp,
  last_read_sn: &'a BTreeMap<GUID, SequenceNumber>,
) -> Box<dyn Iterator<Item = (Timestamp, &'a CacheChange)> + 'a> {
  let first = if unsafe { UNBOXED } {
    if is_reliable {
      topic_cache.verif_first_reliable(last_read_sn)
    } else {
      topic_cache.verif_first_best_effort(latest_instant, Timestamp::now())
    }
  } else {
    let mut it = if is_reliable {
      topic_cache.get_changes_in_range_reliable(last_read_sn)
    } else {
      topic_cache.get_changes_in_range_best_effort(latest_instant, Timestamp::now())
    };
    let f = it.next();
    core::mem::forget(it);
    f
  };
  let mut out: Option<(Timestamp, *const CacheChange)> = match first {
    Some((t, cc)) => Some((t, cc as *const CacheChange)),
    None => None,
  };
  if unsafe { LAUNDER } {
    // Same element, looked up again by its (unique) receive timestamp with a CONCRETE key, so
    // that symbolic execution sees a pointer to one known slot; equality with what the real
    // iterator returned is asserted, so this cannot change the behaviour.
    if let Some((t, p)) = out {
      let mut clean: Option<(Timestamp, *const CacheChange)> = None;
      let mut j = 0;
      while j < MAXN {
        if t == ts_of(j) {
          clean = match topic_cache.get_change(&ts_of(j)) {
            Some(c) => Some((ts_of(j), c as *const CacheChange)),
            None => None,
          };
        }
        j += 1;
      }
      assert!(
        match clean {
          Some((t2, p2)) => t2 == t && core::ptr::eq(p2, p),
          None => false,
        },
        "eager stand-in: re-lookup by timestamp differs from what the real iterator returned"
      );
      out = clean;
    }
  }
  unsafe {
    ONESHOT_CALLS = 0;
    ONESHOT = out;
  }
  Box::new(OneShot(PhantomData))
}

// ------------------------------------------------------------------ harness macro
macro_rules! sdr_harness {
  ($(#[$m:meta])* fn $name:ident($unwind:expr) $body:block) => {
    $(#[$m])*
    #[cfg_attr(kani, kani::proof, kani::unwind($unwind))]
    #[cfg_attr(
      kani,
      kani::stub(crate::structure::time::Timestamp::now, crate::structure::time::verif_harness_env_time::stub_now),
      kani::stub(crate::mio_source::make_poll_channel, crate::mio_source::verif_harness_env_mio::stub_make_poll_channel),
      kani::stub(crate::mio_source::PollEventSender::send, crate::mio_source::verif_harness_env_mio::stub_send),
      kani::stub(crate::mio_source::PollEventSource::drain, crate::mio_source::verif_harness_env_mio::stub_drain),
      kani::stub(std::fmt::format, crate::verif_env::stub_format)
    )]
    #[cfg_attr(verif_replay, test)]
    fn $name() {
      vk::begin(stringify!($name));
      $body;
      vk::end();
    }
  };
}

macro_rules! loop_harness {
  ($(#[$m:meta])* fn $name:ident($unwind:expr) $body:block) => {
    $(#[$m])*
    #[cfg_attr(kani, kani::proof, kani::unwind($unwind))]
    #[cfg_attr(
      kani,
      kani::stub(SimpleDataReader::try_take_undecoded, stub_try_take_undecoded),
      kani::stub(crate::structure::time::Timestamp::now, crate::structure::time::verif_harness_env_time::stub_now),
      kani::stub(crate::mio_source::make_poll_channel, crate::mio_source::verif_harness_env_mio::stub_make_poll_channel),
      kani::stub(crate::mio_source::PollEventSender::send, crate::mio_source::verif_harness_env_mio::stub_send),
      kani::stub(crate::mio_source::PollEventSource::drain, crate::mio_source::verif_harness_env_mio::stub_drain),
      kani::stub(std::fmt::format, crate::verif_env::stub_format)
    )]
    #[cfg_attr(verif_replay, test)]
    fn $name() {
      vk::begin(stringify!($name));
      $body;
      vk::end();
    }
  };
}

use Kind::{AnyRep, DisposeHash, DisposeKey, DisposeNoKey, Short, UnknownRep, Value};

// ------------------------------------------------------------------ the scenario grid
// (kind sequences concrete per instance; every byte inside the changes symbolic)
macro_rules! scen {
  ($name:ident, $rel:expr, [$($c:expr),+]) => {
    sdr_harness! {
      fn $name(17) {
        scenario($rel, [$($c),+]);
      }
    }
  };
}
scen!(c09_rel_value, true, [ch(1, 1, Value)]);
scen!(c09_be_value, false, [ch(1, 1, Value)]);
scen!(c09_rel_short_value, true, [ch(1, 1, Short), ch(1, 2, Value)]);
scen!(c09_be_short_value, false, [ch(1, 1, Short), ch(1, 2, Value)]);
scen!(c09_rel_value_unknownrep_value, true, [ch(1, 1, Value), ch(1, 2, UnknownRep), ch(1, 3, Value)]);
scen!(c09_be_value_unknownrep_value, false, [ch(1, 1, Value), ch(1, 2, UnknownRep), ch(1, 3, Value)]);
scen!(c09_rel_short_anyrep_value, true, [ch(1, 1, Short), ch(1, 2, AnyRep), ch(1, 3, Value)]);
scen!(c09_rel_nokey_disposekey, true, [ch(1, 1, DisposeNoKey), ch(1, 2, DisposeKey)]);
scen!(c09_be_nokey_disposekey, false, [ch(1, 1, DisposeNoKey), ch(1, 2, DisposeKey)]);
// a dispose that names only a key hash (known iff a change with that key was decoded before)
scen!(c09_rel_hash_value, true, [ch(1, 1, DisposeHash), ch(1, 2, Value)]);
scen!(c09_be_hash_value, false, [ch(1, 1, DisposeHash), ch(1, 2, Value)]);
scen!(c09_rel_value_hash, true, [ch(1, 1, Value), ch(1, 2, DisposeHash)]);
scen!(c09_be_value_hash, false, [ch(1, 1, Value), ch(1, 2, DisposeHash)]);
scen!(c09_rel_value_hash_value, true, [ch(1, 1, Value), ch(1, 2, DisposeHash), ch(1, 3, Value)]);
scen!(c09_be_hash_hash_value, false, [ch(1, 1, DisposeHash), ch(1, 2, DisposeHash), ch(1, 3, Value)]);
// two writers; arrival order differs from (writer, SN) order
scen!(c09_rel_two_writers, true, [ch(2, 1, Value), ch(1, 1, Short), ch(1, 2, Value)]);
scen!(c09_be_two_writers, false, [ch(2, 1, Value), ch(1, 1, Short), ch(1, 2, Value)]);
scen!(c09_rel_two_writers_hash, true, [ch(2, 1, Value), ch(1, 1, DisposeHash), ch(1, 2, Value)]);

// ------------------------------------------------------------------ native demonstration
/// Plain native test (no solver values needed): the next change in the cache is a dispose
/// that names only a key hash the reader has never seen, followed by a decodable value.
/// PUBLIC try_take_one() must return within 5 s.
#[cfg(verif_replay)]
#[test]
fn c09_native_unknown_hash_then_value_returns() {
  for reliable in [true, false] {
    let (tx, rx) = std::sync::mpsc::channel();
    std::thread::spawn(move || {
      let mut slot: Option<CacheSlot> = None;
      let rig = make_srig::<VK, DA>(reliable, cache_handle(&mut slot, reliable));
      {
        let mut tc = rig.cache.lock().unwrap();
        tc.add_change(
          &ts_of(0),
          CacheChange::new(
            writer_guid(1),
            SequenceNumber::new(1),
            WriteOptions::from(None),
            DDSData::new_disposed_by_key_hash(ChangeKind::NotAliveDisposed, 7u8.hash_key(false)),
          ),
        );
        tc.add_change(
          &ts_of(1),
          CacheChange::new(
            writer_guid(1),
            SequenceNumber::new(2),
            WriteOptions::from(None),
            DDSData::new(SerializedPayload::new_from_bytes(
              RepresentationIdentifier::CDR_LE,
              Bytes::from_static(&[3, 4]),
            )),
          ),
        );
        tc.mark_reliably_received_before(writer_guid(1), SequenceNumber::new(3));
      }
      let got = classify(rig.reader.try_take_one());
      let _ = tx.send(got);
      rig.finish();
    });
    match rx.recv_timeout(std::time::Duration::from_secs(5)) {
      Ok(got) => {
        eprintln!("C09-NATIVE reliable={reliable}: try_take_one returned");
        assert!(
          got == Got::Value { w: 1, sn: 2, ts: 101, k: 3, v: 4 },
          "the value behind the skipped dispose was not delivered"
        );
      }
      Err(_) => panic!(
        "C09-NATIVE HANG reliable={reliable}: try_take_one() did not return within 5 s with a DisposeByKeyHash of an unknown key as the next change (the thread spins holding the topic-cache lock)"
      ),
    }
  }
}

// ------------------------------------------------------------------ deserialize_with kernels
// What the loop of try_take_one_with decides on: the classification of ONE change by the real
// deserialize_with of the real reader object.  Only a DisposeByKeyHash whose hash is not in
// the reader's map may come back as UnknownKey (the "skip" class); every other unintelligible
// change is an Err(Deserialization) (the "report once and advance" class); intelligible
// changes come back intact and teach the reader their key.  Tractable under Kani (the change
// is taken from a stack-resident TopicCache by timestamp, not through the boxed iterator).
fn deser_one(kind: Kind) {
  let mut slot: Option<CacheSlot> = None;
  let rig = make_srig::<VK, DA>(true, cache_handle(&mut slot, true));
  let mut tc = TopicCache::new(TOPIC.to_string(), TypeDesc::new("VK".to_string()), &qos_of(true));
  let (data, m) = make_change(0, kind);
  tc.add_change(
    &ts_of(0),
    CacheChange::new(writer_guid(1), SequenceNumber::new(1), WriteOptions::from(None), data),
  );
  // the reader has decoded key 1 before (and nothing else)
  let mut hm: BTreeMap<KeyHash, u8> = BTreeMap::new();
  hm.insert(key_hash_from([1, 0, 0, 0, 0, 0, 0, 0, 0, 0, 0, 0, 0, 0, 0, 0]), 1u8);
  let cc = tc.get_change(&ts_of(0)).unwrap();
  let r = rig.reader.deserialize_with(ts_of(0), cc, &mut hm, CountingDecoder::new());
  let unknown = matches!(r, Err(ReadError::UnknownKey { .. }));
  let got = classify(r.map(Some));
  let learned = |k: u8| {
    let h = key_hash_from([k, 0, 0, 0, 0, 0, 0, 0, 0, 0, 0, 0, 0, 0, 0, 0]);
    hm.get(&h) == Some(&k)
  };
  match m {
    Meaning::Value { k, v } => {
      assert!(got == Got::Value { w: 1, sn: 1, ts: 100, k, v }, "decodable value not returned intact");
      assert!(learned(k), "key of a decoded value not recorded for later dispose-by-hash");
    }
    Meaning::Bad => {
      assert!(got == Got::Error && !unknown, "undecodable change not reported as Err(Deserialization)");
    }
    Meaning::Dispose { k } => {
      assert!(got == Got::Dispose { w: 1, sn: 1, ts: 100, k }, "dispose-by-key not returned intact");
      assert!(learned(k), "key of a dispose not recorded");
    }
    Meaning::HashDispose { k, padded } => {
      if padded && k == 1 {
        assert!(got == Got::Dispose { w: 1, sn: 1, ts: 100, k: 1 }, "dispose by a known key hash not decoded to its key");
      } else {
        assert!(unknown && got == Got::OtherError, "dispose by an unseen key hash not classified UnknownKey");
      }
    }
  }
  vk_cover!(
    match m {
      Meaning::Value { v, .. } => v == 77,
      Meaning::Bad => true,
      Meaning::Dispose { k } => k == 2,
      Meaning::HashDispose { k, padded } => kind != DisposeHash || (padded && k == 1),
    },
    "witness of the interesting class"
  );
  vk_cover!(
    match m {
      Meaning::HashDispose { k, padded } => !padded || k != 1,
      Meaning::Value { .. } => true,
      Meaning::Bad => true,
      Meaning::Dispose { .. } => true,
    },
    "unknown hash / other class"
  );
  core::mem::forget(tc);
  core::mem::forget(hm);
  rig.finish();
  core::mem::forget(slot);
}
macro_rules! deser {
  ($name:ident, $kind:expr) => {
    sdr_harness! {
      fn $name(17) {
        deser_one($kind);
      }
    }
  };
}
deser!(c09_deser_value, Value);
deser!(c09_deser_short, Short);
deser!(c09_deser_unknownrep, UnknownRep);
deser!(c09_deser_anyrep, AnyRep);
deser!(c09_deser_disposekey, DisposeKey);
deser!(c09_deser_disposenokey, DisposeNoKey);
deser!(c09_deser_disposehash, DisposeHash);

// the same scenario through the eager stand-in for try_take_undecoded (see above): experiment
loop_harness! {
  fn c09_rel_hash_value_eager(17) {
    scenario(true, [ch(1, 1, DisposeHash), ch(1, 2, Value)]);
  }
}
