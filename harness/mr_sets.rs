// Constructor for a FragmentNumberSet "as parsed" (NACKFRAG content) for harnesses in other
// modules (NumberSet's fields are private) — child of crate::structure::sequence_number.
// Companion of seqnum.rs::sn_set_from_bits; used by harness/mr.rs.
#![allow(dead_code, unused_imports, clippy::all)]
use super::*;

/// `bits` uses RTPS numbering: MSB of the word = fragment `base`.  num_bits <= 32, concrete.
pub(crate) fn fn_set_from_bits(base: u32, num_bits: u32, bits: u32) -> FragmentNumberSet {
  let mask = if num_bits == 0 { 0 } else { !0u32 << (32 - num_bits) };
  NumberSet {
    bitmap_base: FragmentNumber::new(base),
    num_bits,
    bitmap: if num_bits == 0 { Vec::new() } else { vec![bits & mask] },
  }
}
