// C14 harnesses on DATA / DATA_FRAG bodies — child module of
// crate::messages::submessages::data.
//
// Shapes (payload length, inline-QoS shape) are concrete per instance, contents symbolic.
// What is asserted here is the agreement between the bytes Writable::write_to produces and
// len_serialized(), which MessageBuilder::{data_msg, data_frag_msg} put into
// SubmessageHeader.content_length (octetsToNextHeader): a receiver skips / reads exactly
// that many bytes.
#![allow(dead_code, unused_imports, unused_macros, clippy::all)]
use super::*;
use crate::{
  messages::submessages::elements::parameter::Parameter,
  structure::{
    guid::{EntityId, EntityKind},
    parameter_id::ParameterId,
    sequence_number::FragmentNumber,
  },
  verif_vk as vk,
  verif_vk::vk_cover,
};
use speedy::Endianness;

macro_rules! must {
  ($r:expr, $msg:literal) => {
    match $r {
      Ok(v) => v,
      Err(e) => {
        core::mem::forget(e);
        panic!($msg)
      }
    }
  };
}

fn any_endianness() -> Endianness {
  if vk::any::<bool>() {
    Endianness::LittleEndian
  } else {
    Endianness::BigEndian
  }
}

fn any_entity_id() -> EntityId {
  EntityId {
    entity_key: [vk::any(), vk::any(), vk::any()],
    entity_kind: EntityKind::from(vk::any::<u8>()),
  }
}

fn any_bytes(n: usize) -> Vec<u8> {
  let mut v = Vec::with_capacity(n);
  let mut i = 0;
  while i < n {
    v.push(vk::any::<u8>());
    i += 1;
  }
  v
}

/// any parameter id except the list terminator PID_SENTINEL
fn any_pid() -> ParameterId {
  let raw: [u8; 2] = [vk::any(), vk::any()];
  let pid = must!(ParameterId::read_from_buffer(&raw), "pid");
  vk::assume(pid != ParameterId::PID_SENTINEL);
  pid
}

/// inline-QoS shapes: 0 = absent, 1 = one parameter of 4 bytes, 2 = two parameters of 4 and 8
/// bytes, 3 = one parameter of 5 bytes (padded to 8 on the wire)
fn any_qos(shape: u8) -> Option<ParameterList> {
  match shape {
    0 => None,
    1 => Some(ParameterList {
      parameters: vec![Parameter::new(any_pid(), any_bytes(4))],
    }),
    2 => Some(ParameterList {
      parameters: vec![
        Parameter::new(any_pid(), any_bytes(4)),
        Parameter::new(any_pid(), any_bytes(8)),
      ],
    }),
    _ => Some(ParameterList {
      parameters: vec![Parameter::new(any_pid(), any_bytes(5))],
    }),
  }
}

fn qos_wire_len(shape: u8) -> usize {
  match shape {
    0 => 0,
    1 => 8 + 4,
    2 => 8 + 12 + 4,
    _ => 12 + 4,
  }
}

fn round4(n: usize) -> usize {
  (n + 3) / 4 * 4
}

// ------------------------------------------------------------------------- DATA

fn data_len_case(payload: Option<usize>, shape: u8) {
  let e = any_endianness();
  let d = Data {
    reader_id: any_entity_id(),
    writer_id: any_entity_id(),
    writer_sn: SequenceNumber::new(vk::any::<i64>()),
    inline_qos: any_qos(shape),
    serialized_payload: payload.map(|n| Bytes::from(any_bytes(n))),
  };
  let bytes = must!(d.write_to_vec_with_ctx(e), "Data does not serialise");
  let expect = 20 + qos_wire_len(shape) + round4(payload.unwrap_or(0));
  assert!(bytes.len() == expect, "DATA body size != 20 + inline QoS + payload padded to 4");
  assert!(
    bytes.len() == d.len_serialized(),
    "DATA: len_serialized() (= content_length written by data_msg) differs from the bytes written"
  );
  assert!(bytes.len() % 4 == 0, "DATA body not a multiple of 4");
  // fixed part of the body as a receiver reads it
  let o2q = if e == Endianness::LittleEndian {
    u16::from_le_bytes([bytes[2], bytes[3]])
  } else {
    u16::from_be_bytes([bytes[2], bytes[3]])
  };
  assert!(bytes[0] == 0 && bytes[1] == 0 && o2q == 16, "extraFlags / octetsToInlineQos");
  assert!(bytes[4] == d.reader_id.entity_key[0] && bytes[11] == u8::from(d.writer_id.entity_kind));
  // payload bytes follow the inline QoS unchanged, padding is zero
  if let Some(n) = payload {
    let off = 20 + qos_wire_len(shape);
    let pl = d.serialized_payload.as_ref().unwrap();
    let mut i = 0;
    while i < round4(n) {
      if i < n {
        assert!(bytes[off + i] == pl[i], "payload byte changed");
      } else {
        assert!(bytes[off + i] == 0, "payload padding not zero");
      }
      i += 1;
    }
  }
  vk_cover!(e == Endianness::BigEndian, "big endian");
  vk_cover!(e == Endianness::LittleEndian && i64::from(d.writer_sn) > (1 << 32), "LE, SN above 2^32");
  core::mem::forget(d);
}

// ------------------------------------------------------------------------- DATA_FRAG

fn datafrag_len_case(payload: usize, shape: u8) {
  let e = any_endianness();
  let d = DataFrag {
    reader_id: any_entity_id(),
    writer_id: any_entity_id(),
    writer_sn: SequenceNumber::new(vk::any::<i64>()),
    fragment_starting_num: FragmentNumber::new(vk::any::<u32>()),
    fragments_in_submessage: vk::any::<u16>(),
    data_size: vk::any::<u32>(),
    fragment_size: vk::any::<u16>(),
    inline_qos: any_qos(shape),
    serialized_payload: Bytes::from(any_bytes(payload)),
  };
  let bytes = must!(d.write_to_vec_with_ctx(e), "DataFrag does not serialise");
  // this is the value data_frag_msg writes into the submessage header
  assert!(
    bytes.len() == d.len_serialized(),
    "DATA_FRAG: len_serialized() (= content_length written by data_frag_msg) differs from the bytes written"
  );
  assert!(bytes.len() == 32 + qos_wire_len(shape) + payload, "DATA_FRAG body size");
  let o2q = if e == Endianness::LittleEndian {
    u16::from_le_bytes([bytes[2], bytes[3]])
  } else {
    u16::from_be_bytes([bytes[2], bytes[3]])
  };
  assert!(bytes[0] == 0 && bytes[1] == 0 && o2q == 28, "extraFlags / octetsToInlineQos");
  // the inline QoS starts octetsToInlineQos bytes after that field: first parameter id there
  if shape != 0 {
    let q = d.inline_qos.as_ref().unwrap();
    let pidb = must!(q.parameters[0].parameter_id.write_to_vec_with_ctx(e), "pid");
    assert!(
      bytes[32] == pidb[0] && bytes[33] == pidb[1],
      "DATA_FRAG: inline QoS does not start at octetsToInlineQos (first parameter id not found there)"
    );
  }
  // payload is the tail of the body, unchanged
  let off = bytes.len() - payload;
  let mut i = 0;
  while i < payload {
    assert!(bytes[off + i] == d.serialized_payload[i], "payload byte changed");
    i += 1;
  }
  vk_cover!(e == Endianness::BigEndian, "big endian");
  vk_cover!(e == Endianness::LittleEndian && d.data_size > 70000, "LE, large sample");
  core::mem::forget(d);
}

macro_rules! shape_case {
  ($name:ident, $call:expr) => {
    // no kani::stub here: the driver can only extract counterexample values of stub-free harnesses
    #[cfg_attr(kani, kani::proof, kani::unwind(14))]
    #[cfg_attr(verif_replay, test)]
    fn $name() {
      vk::begin(stringify!($name));
      $call;
      vk::end();
    }
  };
}
shape_case!(c14_data_write_nopayload_q1, data_len_case(None, 1));
shape_case!(c14_data_write_p0_q0, data_len_case(Some(0), 0));
shape_case!(c14_data_write_p1_q0, data_len_case(Some(1), 0));
shape_case!(c14_data_write_p2_q1, data_len_case(Some(2), 1));
shape_case!(c14_data_write_p3_q2, data_len_case(Some(3), 2));
shape_case!(c14_data_write_p4_q0, data_len_case(Some(4), 0));
shape_case!(c14_data_write_p5_q3, data_len_case(Some(5), 3));
shape_case!(c14_data_write_p8_q1, data_len_case(Some(8), 1));
shape_case!(c14_datafrag_write_p1_q0, datafrag_len_case(1, 0));
shape_case!(c14_datafrag_write_p4_q0, datafrag_len_case(4, 0));
shape_case!(c14_datafrag_write_p5_q0, datafrag_len_case(5, 0));
shape_case!(c14_datafrag_write_p8_q0, datafrag_len_case(8, 0));
// with inline QoS (what data_frag_msg builds for a sample carrying related_sample_identity)
shape_case!(c14_datafrag_write_p4_q1, datafrag_len_case(4, 1));
shape_case!(c14_datafrag_write_p5_q2, datafrag_len_case(5, 2));
