// C15 — whole-record round trips of the SEDP records and the participant liveliness message.
// Child module of crate::discovery::sedp_messages (sees the private fields).
//
// Paths under test (all real code):
//   DiscoveredTopicData / DiscoveredWriterData / DiscoveredReaderData:
//     x.to_pl_cdr_bytes(PL_CDR_LE | PL_CDR_BE)  (to_parameter_list, QosPolicies::to_parameter_list,
//     ParameterList::write_to: padding + sentinel, Bytes::from)
//     -> T::from_pl_cdr_bytes (ParameterList::read_from, to_map, get_first/option/all_from_pl_map,
//     QosPolicies::from_parameter_list, the ::new constructors)  == x, field by field.
//   ParticipantMessageData: to_writer_with_rep_id(CDR_LE | CDR_BE) -> deserialize_from_cdr_with_rep_id.
//
// Everything that decides a SIZE or a PRESENCE is concrete per harness instance (presence
// pattern, enum variants, string lengths, number of locators); all scalar contents are symbolic.
#![allow(dead_code, unused_imports, unused_macros, clippy::all)]
use speedy::Endianness;

use super::*;
use crate::{
  dds::qos::verif_harness_c15_qos::{any_duration, must, qos_with, StubReadable, StubWritable},
  serialization::{
    deserialize_from_cdr_with_rep_id,
    speedy_pl_cdr_helpers::verif_harness_c15_parts::{
      any_guid, any_guid_prefix, ascii_string, c15_record_proof, locator_v, str_eq,
    },
    to_writer_with_rep_id,
  },
  verif_vk as vk,
  verif_vk::vk_cover,
};

pub(crate) const LE: RepresentationIdentifier = RepresentationIdentifier::PL_CDR_LE;
pub(crate) const BE: RepresentationIdentifier = RepresentationIdentifier::PL_CDR_BE;

/// <= 1 locator: variant 0 = empty list, else locator_v(variant - 1)
pub(crate) fn locator_list(variant: u8) -> Vec<Locator> {
  let mut v = Vec::with_capacity(1);
  if variant != 0 {
    v.push(locator_v(variant - 1));
  }
  v
}
pub(crate) const L_NONE: u8 = 0;
pub(crate) const L_UDP4: u8 = 3;
pub(crate) const L_UDP6: u8 = 4;

pub(crate) fn locators_eq(a: &Vec<Locator>, b: &Vec<Locator>) -> bool {
  if a.len() != b.len() {
    return false;
  }
  let mut ok = true;
  let mut i = 0;
  while i < a.len() {
    ok &= a[i] == b[i];
    i += 1;
  }
  ok
}

pub(crate) fn opt_str_eq(a: &Option<String>, b: &Option<String>) -> bool {
  match (a, b) {
    (None, None) => true,
    (Some(a), Some(b)) => str_eq(a, b),
    _ => false,
  }
}

// ========================================================================= (1) ParticipantMessageData
// Plain CDR through serde (cdr-encoding crate), as DataWriterCdr / the CDR decoder do it.
fn pmd_over_the_wire(x: &ParticipantMessageData, enc: RepresentationIdentifier) -> ParticipantMessageData {
  let mut buf: Vec<u8> = Vec::with_capacity(32);
  must!(to_writer_with_rep_id(&mut buf, x, enc), "ParticipantMessageData serialize failed");
  assert!(buf.len() == 12 + 4 + 4 + x.data.len(), "ParticipantMessageData: unexpected CDR size");
  let (y, consumed): (ParticipantMessageData, usize) = must!(
    deserialize_from_cdr_with_rep_id(&buf, enc),
    "ParticipantMessageData deserialize failed"
  );
  assert!(consumed == buf.len(), "ParticipantMessageData: decoder did not consume the message");
  core::mem::forget(buf);
  y
}

macro_rules! pmd_harness {
  ($name:ident, $ndata:expr) => {
    c15_record_proof!($name, 20, {
      let mut data: Vec<u8> = Vec::with_capacity(4);
      let mut i = 0;
      while i < $ndata {
        data.push(vk::any::<u8>());
        i += 1;
      }
      let x = ParticipantMessageData {
        guid: any_guid_prefix(),
        // every 4-byte kind: UNKNOWN, AUTOMATIC / MANUAL_LIVELINESS_UPDATE, vendor kinds
        kind: ParticipantMessageDataKind {
          value: [vk::any(), vk::any(), vk::any(), vk::any()],
        },
        data,
      };
      let mut k = 0;
      while k < 2 {
        let y = pmd_over_the_wire(&x, if k == 0 { RepresentationIdentifier::CDR_LE } else { RepresentationIdentifier::CDR_BE });
        assert!(y.guid == x.guid, "ParticipantMessageData.guid changed over the wire");
        assert!(y.kind == x.kind, "ParticipantMessageData.kind changed over the wire");
        assert!(y.data.len() == x.data.len(), "ParticipantMessageData.data length changed");
        let mut i = 0;
        while i < $ndata {
          assert!(y.data[i] == x.data[i], "ParticipantMessageData.data changed over the wire");
          i += 1;
        }
        assert!(y.key() == x.key(), "ParticipantMessageData key changed over the wire");
        core::mem::forget(y);
        k += 1;
      }
      vk_cover!(
        x.kind == ParticipantMessageDataKind::MANUAL_LIVELINESS_UPDATE,
        "manual liveliness assertion"
      );
      core::mem::forget(x);
    });
  };
}
pmd_harness!(c15_pmd_roundtrip_data0, 0); // what RustDDS sends
pmd_harness!(c15_pmd_roundtrip_data1, 1);
pmd_harness!(c15_pmd_roundtrip_data4, 4);

// ========================================================================= (3a) DiscoveredTopicData
/// TopicBuiltinTopicData has no time_based_filter: bit 6 of the QosPolicies mask is not part
/// of the record.
pub(crate) const TOPIC_QOS_ALL: u16 = 0x0fff & !(1 << 6);

fn topic_record(key: bool, qos_mask: u16, v: u8, n_name: usize, n_type: usize) -> DiscoveredTopicData {
  let qos = qos_with(qos_mask & TOPIC_QOS_ALL, v);
  DiscoveredTopicData::new(
    Utc::now(),
    TopicBuiltinTopicData::new(
      if key { Some(any_guid()) } else { None },
      ascii_string(n_name),
      ascii_string(n_type),
      &qos,
    ),
  )
}

fn topic_check_same(x: &DiscoveredTopicData, y: &DiscoveredTopicData) {
  let (a, b) = (&x.topic_data, &y.topic_data);
  assert!(a.key == b.key, "DiscoveredTopicData.key changed over the wire");
  assert!(str_eq(&a.name, &b.name), "DiscoveredTopicData.name changed over the wire");
  assert!(str_eq(&a.type_name, &b.type_name), "DiscoveredTopicData.type_name changed over the wire");
  assert!(a.qos() == b.qos(), "DiscoveredTopicData QoS changed over the wire");
}

fn topic_over_the_wire(x: &DiscoveredTopicData, enc: RepresentationIdentifier) {
  let bytes = must!(x.to_pl_cdr_bytes(enc), "DiscoveredTopicData serialize failed");
  assert!(bytes.len() % 4 == 0, "serialized DiscoveredTopicData is not 4-aligned");
  let y = must!(
    DiscoveredTopicData::from_pl_cdr_bytes(&bytes, enc),
    "DiscoveredTopicData deserialize failed"
  );
  topic_check_same(x, &y);
  core::mem::forget(y);
  core::mem::forget(bytes);
}

// One byte order per harness instance (the solver runs them in parallel).
macro_rules! topic_harness {
  ($name:ident, $enc:expr, $key:expr, $mask:expr, $v:expr, $n1:expr, $n2:expr) => {
    c15_record_proof!($name, 20, {
      let x = topic_record($key, $mask, $v, $n1, $n2);
      topic_over_the_wire(&x, $enc);
      vk_cover!(x.topic_data.key.is_some() == $key, "reached with the intended presence pattern");
      core::mem::forget(x);
    });
  };
}
// all optional fields absent: two mandatory strings only; absent key / QoS decode to None
topic_harness!(c15_topic_none_le, LE, false, 0, 0, 1, 1);
topic_harness!(c15_topic_none_be, BE, false, 0, 0, 1, 1);
// key only; strings of other lengths (padding 4 - (n+1)%4)
topic_harness!(c15_topic_key_be, BE, true, 0, 0, 3, 2);
// single QoS fields next to the mandatory ones
topic_harness!(c15_topic_deadline_le, LE, false, 1 << 2, 0, 2, 3);
topic_harness!(c15_topic_history_keeplast_be, BE, false, 1 << 9, 1, 1, 1);
topic_harness!(c15_topic_reliability_reliable_le, LE, true, 1 << 7, 1, 1, 1);
// everything a TopicBuiltinTopicData can carry: key + 11 policies (12-13 parameters + 2 strings)
topic_harness!(c15_topic_all_v0_le, LE, true, TOPIC_QOS_ALL, 0, 1, 1);
topic_harness!(c15_topic_all_v1_be, BE, true, TOPIC_QOS_ALL, 1, 2, 1);

// ========================================================================= (3b) DiscoveredWriterData
/// Presence pattern of a DiscoveredWriterData (all concrete).
#[derive(Clone, Copy)]
pub(crate) struct WPat {
  max_size: bool,    // WriterProxy.data_max_size_serialized
  participant: bool, // PublicationBuiltinTopicData.participant_key
  unicast: u8,       // locator_list variant
  multicast: u8,
  qos_mask: u16, // policies present (PublicationBuiltinTopicData has no history / resource_limits)
  v: u8,         // enum variant selector
  n_topic: usize,
  n_type: usize,
  // DDS-RPC fields of PublicationBuiltinTopicData (see c15_finding_publication_optional_fields_lost)
  service_instance_name: bool,
  related_datareader_key: bool,
  topic_aliases: u8, // 0 None, 1 Some(vec![]), 2 Some(vec![one 1-byte string])
}
pub(crate) const PUB_QOS_ALL: u16 = 0x0fff & !(1 << 9) & !(1 << 10);
const W_NONE: WPat = WPat {
  max_size: false,
  participant: false,
  unicast: L_NONE,
  multicast: L_NONE,
  qos_mask: 0,
  v: 0,
  n_topic: 1,
  n_type: 1,
  service_instance_name: false,
  related_datareader_key: false,
  topic_aliases: 0,
};

fn writer_record(p: WPat) -> DiscoveredWriterData {
  let guid = any_guid();
  let qos = qos_with(p.qos_mask & PUB_QOS_ALL, p.v);
  let mut pbtd = PublicationBuiltinTopicData::new_with_qos(
    guid,
    if p.participant { Some(any_guid()) } else { None },
    ascii_string(p.n_topic),
    ascii_string(p.n_type),
    &qos,
    None,
  );
  if p.service_instance_name {
    pbtd.service_instance_name = Some(ascii_string(1));
  }
  if p.related_datareader_key {
    pbtd.related_datareader_key = Some(any_guid());
  }
  pbtd.topic_aliases = match p.topic_aliases {
    0 => None,
    1 => Some(Vec::new()),
    _ => {
      let mut v = Vec::with_capacity(1);
      v.push(ascii_string(1));
      Some(v)
    }
  };
  DiscoveredWriterData {
    last_updated: Instant::now(),
    writer_proxy: WriterProxy {
      remote_writer_guid: guid, // the two GUID fields are one parameter on the wire
      unicast_locator_list: locator_list(p.unicast),
      multicast_locator_list: locator_list(p.multicast),
      data_max_size_serialized: if p.max_size { Some(vk::any::<u32>()) } else { None },
    },
    publication_topic_data: pbtd,
  }
}

/// every field the general property covers (the three DDS-RPC fields are compared by the
/// caller, see the finding harness)
fn writer_check_same(x: &DiscoveredWriterData, y: &DiscoveredWriterData) {
  let (a, b) = (&x.writer_proxy, &y.writer_proxy);
  assert!(a.remote_writer_guid == b.remote_writer_guid, "WriterProxy.remote_writer_guid changed over the wire");
  assert!(locators_eq(&a.unicast_locator_list, &b.unicast_locator_list), "WriterProxy.unicast_locator_list changed over the wire");
  assert!(locators_eq(&a.multicast_locator_list, &b.multicast_locator_list), "WriterProxy.multicast_locator_list changed over the wire");
  assert!(a.data_max_size_serialized == b.data_max_size_serialized, "WriterProxy.data_max_size_serialized changed over the wire");
  let (a, b) = (&x.publication_topic_data, &y.publication_topic_data);
  assert!(a.key == b.key, "PublicationBuiltinTopicData.key changed over the wire");
  assert!(a.participant_key == b.participant_key, "PublicationBuiltinTopicData.participant_key changed over the wire");
  assert!(str_eq(&a.topic_name, &b.topic_name), "PublicationBuiltinTopicData.topic_name changed over the wire");
  assert!(str_eq(&a.type_name, &b.type_name), "PublicationBuiltinTopicData.type_name changed over the wire");
  assert!(a.qos() == b.qos(), "PublicationBuiltinTopicData QoS changed over the wire");
}

fn writer_rpc_fields_same(x: &DiscoveredWriterData, y: &DiscoveredWriterData) -> bool {
  let (a, b) = (&x.publication_topic_data, &y.publication_topic_data);
  let aliases_same = match (&a.topic_aliases, &b.topic_aliases) {
    (None, None) => true,
    (Some(p), Some(q)) => p.len() == q.len() && (p.is_empty() || str_eq(&p[0], &q[0])),
    _ => false,
  };
  opt_str_eq(&a.service_instance_name, &b.service_instance_name)
    && a.related_datareader_key == b.related_datareader_key
    && aliases_same
}

fn writer_over_the_wire(x: &DiscoveredWriterData, enc: RepresentationIdentifier) -> DiscoveredWriterData {
  let bytes = must!(x.to_pl_cdr_bytes(enc), "DiscoveredWriterData serialize failed");
  assert!(bytes.len() % 4 == 0, "serialized DiscoveredWriterData is not 4-aligned");
  let y = must!(
    DiscoveredWriterData::from_pl_cdr_bytes(&bytes, enc),
    "DiscoveredWriterData deserialize failed"
  );
  core::mem::forget(bytes);
  y
}

// General harness, one byte order per instance.  The input class of the open finding (any of
// the three DDS-RPC fields Some) is excluded: every WPat below has them None, and the decoded
// record must have them None too (absent parameter -> absent field).  Once from_pl_cdr_bytes
// reads the three parameters back, the c15_finding_publication_* harnesses below flip to
// SUCCESSFUL and the fields can be switched on in c15_writer_all_le.
macro_rules! writer_harness {
  ($name:ident, $enc:expr, $pat:expr) => {
    c15_record_proof!($name, 24, {
      let p: WPat = $pat;
      let x = writer_record(p);
      let y = writer_over_the_wire(&x, $enc);
      writer_check_same(&x, &y);
      assert!(writer_rpc_fields_same(&x, &y), "absent DDS-RPC parameters did not decode to None");
      vk_cover!(
        x.writer_proxy.data_max_size_serialized.is_some() == p.max_size,
        "reached with the intended presence pattern"
      );
      core::mem::forget(y);
      core::mem::forget(x);
    });
  };
}
writer_harness!(c15_writer_none_le, LE, W_NONE);
writer_harness!(c15_writer_none_be, BE, W_NONE);
writer_harness!(c15_writer_max_size_be, BE, WPat { max_size: true, ..W_NONE });
writer_harness!(c15_writer_participant_le, LE, WPat { participant: true, n_topic: 3, n_type: 2, ..W_NONE });
writer_harness!(c15_writer_unicast_udp4_be, BE, WPat { unicast: L_UDP4, ..W_NONE });
writer_harness!(c15_writer_multicast_udp6_le, LE, WPat { multicast: L_UDP6, ..W_NONE });
writer_harness!(c15_writer_reliable_deadline_be, BE, WPat { qos_mask: (1 << 7) | (1 << 2), v: 1, ..W_NONE });
// every optional field but the DDS-RPC ones + 4 policies (11-12 parameters)
writer_harness!(
  c15_writer_all_le,
  LE,
  WPat {
    max_size: true, participant: true, unicast: L_UDP4, multicast: L_UDP6,
    qos_mask: (1 << 0) | (1 << 4) | (1 << 5) | (1 << 11), v: 1, n_topic: 2, n_type: 3, ..W_NONE
  }
);
// all 10 policies a publication record carries (variant set 1: Exclusive ownership, Reliable, ...)
writer_harness!(c15_writer_qos_all_be, BE, WPat { qos_mask: PUB_QOS_ALL, v: 1, ..W_NONE });

// ------------------------------------------------------------------------- (4) the finding
// PublicationBuiltinTopicData::{service_instance_name, related_datareader_key, topic_aliases}
// are pub fields; to_parameter_list emits PID_SERVICE_INSTANCE_NAME / PID_RELATED_ENTITY_GUID /
// PID_TOPIC_ALIASES for them; from_pl_cdr_bytes never reads them back.
macro_rules! writer_rpc_harness {
  ($name:ident, $pat:expr) => {
    c15_record_proof!($name, 24, {
      let p: WPat = $pat;
      let x = writer_record(p);
      let y = writer_over_the_wire(&x, LE);
      writer_check_same(&x, &y);
      assert!(
        writer_rpc_fields_same(&x, &y),
        "publication discovery data lost an optional field over the wire (service_instance_name / related_datareader_key / topic_aliases)"
      );
      vk_cover!(true, "reached");
      core::mem::forget(y);
      core::mem::forget(x);
    });
  };
}
writer_rpc_harness!(
  c15_finding_publication_optional_fields_lost,
  WPat { related_datareader_key: true, ..W_NONE }
);
writer_rpc_harness!(
  c15_finding_publication_service_instance_name_lost,
  WPat { service_instance_name: true, ..W_NONE }
);
writer_rpc_harness!(
  c15_finding_publication_topic_aliases_lost,
  WPat { topic_aliases: 2, ..W_NONE }
);

// ========================================================================= (3c) DiscoveredReaderData
#[derive(Clone, Copy)]
pub(crate) struct RPat {
  participant: bool,
  unicast: u8,
  multicast: u8,
  qos_mask: u16,
  v: u8,
  n_topic: usize,
  n_type: usize,
  content_filter: u8, // 0 None, 1 Some(no expression parameters), 2 Some(one parameter)
}
const R_NONE: RPat = RPat {
  participant: false,
  unicast: L_NONE,
  multicast: L_NONE,
  qos_mask: 0,
  v: 0,
  n_topic: 1,
  n_type: 1,
  content_filter: 0,
};

fn reader_record(p: RPat) -> DiscoveredReaderData {
  let guid = any_guid();
  let qos = qos_with(p.qos_mask & PUB_QOS_ALL, p.v);
  DiscoveredReaderData {
    reader_proxy: ReaderProxy::new(
      guid,
      vk::any::<bool>(), // always on the wire; both values
      locator_list(p.unicast),
      locator_list(p.multicast),
    ),
    // service_instance_name / related_datawriter_key / topic_aliases are private and always
    // None here (no constructor or setter can make them Some)
    subscription_topic_data: SubscriptionBuiltinTopicData::new(
      guid,
      if p.participant { Some(any_guid()) } else { None },
      ascii_string(p.n_topic),
      ascii_string(p.n_type),
      &qos,
      None,
    ),
    content_filter: match p.content_filter {
      0 => None,
      n => {
        let mut eps = Vec::with_capacity(1);
        if n > 1 {
          eps.push(ascii_string(2));
        }
        Some(ContentFilterProperty {
          content_filtered_topic_name: ascii_string(1),
          related_topic_name: ascii_string(2),
          filter_class_name: ascii_string(3),
          filter_expression: ascii_string(1),
          expression_parameters: eps,
        })
      }
    },
  }
}

fn reader_check_same(x: &DiscoveredReaderData, y: &DiscoveredReaderData) {
  let (a, b) = (&x.reader_proxy, &y.reader_proxy);
  assert!(a.remote_reader_guid == b.remote_reader_guid, "ReaderProxy.remote_reader_guid changed over the wire");
  assert!(a.expects_inline_qos == b.expects_inline_qos, "ReaderProxy.expects_inline_qos changed over the wire");
  assert!(locators_eq(&a.unicast_locator_list, &b.unicast_locator_list), "ReaderProxy.unicast_locator_list changed over the wire");
  assert!(locators_eq(&a.multicast_locator_list, &b.multicast_locator_list), "ReaderProxy.multicast_locator_list changed over the wire");
  let (a, b) = (&x.subscription_topic_data, &y.subscription_topic_data);
  assert!(a.key == b.key, "SubscriptionBuiltinTopicData.key changed over the wire");
  assert!(a.participant_key == b.participant_key, "SubscriptionBuiltinTopicData.participant_key changed over the wire");
  assert!(str_eq(&a.topic_name, &b.topic_name), "SubscriptionBuiltinTopicData.topic_name changed over the wire");
  assert!(str_eq(&a.type_name, &b.type_name), "SubscriptionBuiltinTopicData.type_name changed over the wire");
  assert!(a.qos() == b.qos(), "SubscriptionBuiltinTopicData QoS changed over the wire");
  assert!(
    b.service_instance_name.is_none() && b.related_datawriter_key.is_none() && b.topic_aliases.is_none(),
    "absent DDS-RPC parameters did not decode to None"
  );
  match (&x.content_filter, &y.content_filter) {
    (None, None) => {}
    (Some(a), Some(b)) => {
      assert!(str_eq(&a.content_filtered_topic_name, &b.content_filtered_topic_name), "ContentFilterProperty.content_filtered_topic_name changed");
      assert!(str_eq(&a.related_topic_name, &b.related_topic_name), "ContentFilterProperty.related_topic_name changed");
      assert!(str_eq(&a.filter_class_name, &b.filter_class_name), "ContentFilterProperty.filter_class_name changed");
      assert!(str_eq(&a.filter_expression, &b.filter_expression), "ContentFilterProperty.filter_expression changed");
      assert!(a.expression_parameters.len() == b.expression_parameters.len(), "ContentFilterProperty parameter count changed");
      if !a.expression_parameters.is_empty() {
        assert!(str_eq(&a.expression_parameters[0], &b.expression_parameters[0]), "ContentFilterProperty.expression_parameters changed");
      }
    }
    _ => panic!("DiscoveredReaderData.content_filter presence changed over the wire"),
  }
}

fn reader_over_the_wire(x: &DiscoveredReaderData, enc: RepresentationIdentifier) -> DiscoveredReaderData {
  let bytes = must!(x.to_pl_cdr_bytes(enc), "DiscoveredReaderData serialize failed");
  assert!(bytes.len() % 4 == 0, "serialized DiscoveredReaderData is not 4-aligned");
  let y = must!(
    DiscoveredReaderData::from_pl_cdr_bytes(&bytes, enc),
    "DiscoveredReaderData deserialize failed"
  );
  core::mem::forget(bytes);
  y
}

macro_rules! reader_harness {
  ($name:ident, $enc:expr, $pat:expr) => {
    c15_record_proof!($name, 24, {
      let p: RPat = $pat;
      let x = reader_record(p);
      let y = reader_over_the_wire(&x, $enc);
      reader_check_same(&x, &y);
      vk_cover!(
        x.reader_proxy.expects_inline_qos && x.subscription_topic_data.participant_key.is_some() == p.participant,
        "expects inline QoS, intended presence pattern"
      );
      core::mem::forget(y);
      core::mem::forget(x);
    });
  };
}
reader_harness!(c15_reader_none_le, LE, R_NONE);
reader_harness!(c15_reader_none_be, BE, R_NONE);
reader_harness!(c15_reader_participant_be, BE, RPat { participant: true, n_topic: 2, n_type: 3, ..R_NONE });
reader_harness!(c15_reader_unicast_udp4_le, LE, RPat { unicast: L_UDP4, ..R_NONE });
reader_harness!(c15_reader_time_based_filter_be, BE, RPat { qos_mask: 1 << 6, ..R_NONE });
reader_harness!(c15_reader_content_filter0_le, LE, RPat { content_filter: 1, ..R_NONE });
reader_harness!(c15_reader_content_filter1_be, BE, RPat { content_filter: 2, ..R_NONE });
// every optional field + 3 policies (11 parameters)
reader_harness!(
  c15_reader_all_le,
  LE,
  RPat {
    participant: true, unicast: L_UDP6, multicast: L_UDP4,
    qos_mask: (1 << 6) | (1 << 7) | (1 << 8), v: 1, n_topic: 2, n_type: 1, content_filter: 1
  }
);
reader_harness!(c15_reader_qos_all_be, BE, RPat { qos_mask: PUB_QOS_ALL, v: 0, ..R_NONE });

// Default of an absent PID_EXPECTS_INLINE_QOS: RustDDS always emits the parameter, other
// vendors may leave it out (RTPS 9.6.2.2.1: default false).  The parameter (index 0 of the
// emitted list) is removed before the list goes on the wire.
c15_record_proof!(c15_reader_default_expects_inline_qos, 24, {
  let x = reader_record(RPat { participant: true, ..R_NONE });
  let mut pl = must!(x.to_parameter_list(LE), "to_parameter_list failed");
  assert!(pl.parameters[0].parameter_id == ParameterId::PID_EXPECTS_INLINE_QOS);
  let dropped = pl.parameters.remove(0);
  let bytes: Vec<u8> = must!(pl.write_to_vec_with_ctx(Endianness::LittleEndian), "write failed");
  let y = must!(DiscoveredReaderData::from_pl_cdr_bytes(&bytes, LE), "deserialize failed");
  assert!(!y.reader_proxy.expects_inline_qos, "absent PID_EXPECTS_INLINE_QOS must decode to false");
  assert!(y.reader_proxy.remote_reader_guid == x.reader_proxy.remote_reader_guid);
  assert!(y.subscription_topic_data.participant_key == x.subscription_topic_data.participant_key);
  assert!(str_eq(&y.subscription_topic_data.topic_name, &x.subscription_topic_data.topic_name));
  vk_cover!(x.reader_proxy.expects_inline_qos, "the sender had it set");
  core::mem::forget((x, pl, dropped, bytes, y));
});

// ========================================================================= (5) unknown parameters
/// The serialized parameter list with one foreign parameter (pid, N symbolic value bytes)
/// spliced in at byte offset `at` (a parameter boundary), encoded in the list's byte order.
fn splice_foreign<const N: usize>(wire: &[u8], at: usize, pid: u16, big_endian: bool) -> Vec<u8> {
  let mut out: Vec<u8> = Vec::with_capacity(wire.len() + 4 + N);
  out.extend_from_slice(&wire[..at]);
  let (p, l) = if big_endian {
    (pid.to_be_bytes(), (N as u16).to_be_bytes())
  } else {
    (pid.to_le_bytes(), (N as u16).to_le_bytes())
  };
  out.extend_from_slice(&p);
  out.extend_from_slice(&l);
  let mut i = 0;
  while i < N {
    let b: [u8; 1] = [vk::any::<u8>()];
    out.extend_from_slice(&b);
    i += 1;
  }
  out.extend_from_slice(&wire[at..]);
  out
}

/// DiscoveredTopicData {key, name(1), type_name(1), deadline}: parameter boundaries at byte
/// 0 | 20 (after the GUID) | 32 | 44 | 56 (before the sentinel).
fn topic_with_foreign<const N: usize>(x: &DiscoveredTopicData, big_endian: bool, at: usize, pid: u16) {
  let enc = if big_endian { BE } else { LE };
  let bytes = must!(x.to_pl_cdr_bytes(enc), "DiscoveredTopicData serialize failed");
  assert!(bytes.len() == 60, "layout assumption of the harness");
  let wire = splice_foreign::<N>(&bytes, at, pid, big_endian);
  let y = must!(
    DiscoveredTopicData::from_pl_cdr_bytes(&wire, enc),
    "a foreign parameter made DiscoveredTopicData undecodable"
  );
  topic_check_same(x, &y);
  core::mem::forget((bytes, wire, y));
}

// One foreign parameter per instance: vendor-specific PIDs (0x8000 | x), an id of the standard
// range RustDDS has no meaning for (0x0063), a reserved one (0x3f00) and PID_PAD; in front,
// between known parameters, and before the sentinel; 4 or 8 symbolic value bytes.
macro_rules! topic_foreign_harness {
  ($name:ident, $n:literal, $big_endian:expr, $at:expr, $pid:expr) => {
    c15_record_proof!($name, 20, {
      let x = topic_record(true, 1 << 2, 0, 1, 1);
      topic_with_foreign::<$n>(&x, $big_endian, $at, $pid);
      vk_cover!(x.topic_data.key.is_some(), "reached");
      core::mem::forget(x);
    });
  };
}
topic_foreign_harness!(c15_topic_foreign_vendor_front_le, 4, false, 0, 0x8007);
topic_foreign_harness!(c15_topic_foreign_vendor_mid_be, 8, true, 20, 0x8000);
topic_foreign_harness!(c15_topic_foreign_standard_mid_le, 8, false, 32, 0x0063);
topic_foreign_harness!(c15_topic_foreign_standard_last_be, 4, true, 56, 0x0063);
topic_foreign_harness!(c15_topic_foreign_vendor_bfff_be, 4, true, 44, 0xbfff);
topic_foreign_harness!(c15_topic_foreign_reserved_last_le, 8, false, 56, 0x3f00);
topic_foreign_harness!(c15_topic_foreign_pad_mid_le, 4, false, 20, 0x0000);
