// C11, reader side: matched-writer set and SubscriptionMatched / RequestedIncompatibleQos
// events of the real rtps::reader::Reader follow discovery exactly.
// Child module of crate::rtps::reader (sibling of verif_harness_reader, whose rig it uses).
//
// World: 2 remote participants x 2 writers each = 4 remote writers W0..W3 (index
// i = 2*(p-1) + (e-1)), each with a FIXED QoS class (compatible | incompatible with the
// local reader: Reliability BestEffort offered vs Reliable requested).  Events are chosen
// SYMBOLICALLY from a concrete menu:
//     0..3  announce / re-announce W_i      (Reader::update_writer_proxy)
//     4..7  dispose W_i                     (Reader::remove_writer_proxy)
//     8,9   participant 1 / 2 lost          (Reader::participant_lost)
// ("participant found again" is the announcement of its writers after the loss).
// After EVERY event the real reader is compared with an independent ghost (bitmask).
#![allow(dead_code, unused_imports, unused_variables, unused_mut, clippy::all)]
use super::verif_harness_reader::{make_rig, reader_guid, reliable_qos, Rig};
use super::*;
use crate::{
  dds::qos::QosPolicyId,
  structure::guid::EntityKind,
  verif_vk as vk,
  verif_vk::vk_cover,
};

// ------------------------------------------------------------------ status recorder
/// One DataReaderStatus flattened to scalars (Copy: nothing to drop symbolically).
#[derive(Clone, Copy)]
pub(crate) struct StRec {
  pub kind: u8, // 0 empty, 1 SubscriptionMatched, 2 RequestedIncompatibleQos, 3 anything else
  pub who: GUID,
  pub total: i32,
  pub total_change: i32,
  pub cur: i32,
  pub cur_change: i32,
  pub policy_is_reliability: bool,
}
impl StRec {
  pub const fn empty() -> Self {
    StRec {
      kind: 0,
      who: GUID::GUID_UNKNOWN,
      total: 0,
      total_change: 0,
      cur: 0,
      cur_change: 0,
      policy_is_reliability: false,
    }
  }
  /// Flatten and LEAK the status value (the incompatible-QoS variant owns two
  /// Box<QosPolicies>; their drop glue is not the subject).
  pub fn of(s: DataReaderStatus) -> Self {
    let r = match &s {
      DataReaderStatus::SubscriptionMatched { total, current, writer } => StRec {
        kind: 1,
        who: *writer,
        total: total.count(),
        total_change: total.count_change(),
        cur: current.count(),
        cur_change: current.count_change(),
        policy_is_reliability: false,
      },
      DataReaderStatus::RequestedIncompatibleQos {
        count,
        last_policy_id,
        writer,
        ..
      } => StRec {
        kind: 2,
        who: *writer,
        total: count.count(),
        total_change: count.count_change(),
        cur: 0,
        cur_change: 0,
        policy_is_reliability: *last_policy_id == QosPolicyId::Reliability,
      },
      _ => StRec {
        kind: 3,
        ..StRec::empty()
      },
    };
    core::mem::forget(s);
    r
  }
}

pub(crate) const MAXST: usize = 3;
#[derive(Clone, Copy)]
pub(crate) struct StLog {
  pub recs: [StRec; MAXST],
  pub n: usize,
}
impl StLog {
  pub const fn new() -> Self {
    StLog {
      recs: [StRec::empty(); MAXST],
      n: 0,
    }
  }
  pub fn push(&mut self, r: StRec) {
    // hand-unrolled store at a possibly symbolic position
    if self.n == 0 {
      self.recs[0] = r;
    } else if self.n == 1 {
      self.recs[1] = r;
    } else if self.n == 2 {
      self.recs[2] = r;
    }
    self.n += 1;
  }
}

#[cfg(kani)]
pub(crate) static mut C11_STATUS: StLog = StLog::new();

/// kani::stub target for Reader::send_status_change (the real body is a 5-line wrapper
/// around mio-extras try_send; see reader.rs): record the event, flattened.
#[cfg(kani)]
pub(crate) fn c11_stub_send_status_change(_this: &Reader, change: DataReaderStatus) {
  let r = StRec::of(change);
  unsafe { (*core::ptr::addr_of_mut!(C11_STATUS)).push(r) }
}
/// kani::stub target for Reader::send_participant_status (participant-level mirror of the
/// same events, not part of C11): leak.
#[cfg(kani)]
pub(crate) fn c11_stub_send_participant_status(_this: &Reader, event: DomainParticipantStatusEvent) {
  core::mem::forget(event);
}

/// Status events emitted since the last call.  Kani: the recorder.  Native replay: the real
/// StatusChannelReceiver the DataReader would read.
#[cfg(kani)]
pub(crate) fn take_status(_rig: &Rig) -> StLog {
  unsafe { core::mem::replace(&mut *core::ptr::addr_of_mut!(C11_STATUS), StLog::new()) }
}
#[cfg(not(kani))]
pub(crate) fn take_status(rig: &Rig) -> StLog {
  let mut out = StLog::new();
  while let Ok(s) = rig.status_rx.try_recv() {
    out.push(StRec::of(s));
  }
  while let Ok(e) = rig.pstatus_rx.try_recv() {
    core::mem::forget(e);
  }
  out
}

// ------------------------------------------------------------------ the remote world
/// Prefix layouts.  0: participants differ in the FIRST (most significant) prefix byte.
/// 1: they differ only in the LAST prefix byte and are adjacent (…,0x10 / …,0x11): the
/// range bounds GuidPrefix::range() builds (EntityId::MIN / EntityId::MAX) of the two
/// participants touch.  2: like 1 but in a middle byte, last byte at the extremes.
pub(crate) fn c11_prefix(layout: u8, p: u8) -> GuidPrefix {
  match layout {
    0 => GuidPrefix {
      bytes: [p, 1, 2, 3, 4, 5, 6, 7, 8, 9, 10, 11],
    },
    1 => GuidPrefix {
      bytes: [9, 9, 9, 9, 9, 9, 9, 9, 9, 9, 9, 0x0F + p],
    },
    _ => GuidPrefix {
      bytes: [9, 9, 9, 9, 9, 9, 9, p, 9, 9, 9, if p == 1 { 0xFF } else { 0x00 }],
    },
  }
}
/// Entity ids.  Layouts 1/2 put the two writers of a participant at the far ends of the
/// entity-id space (key 00 00 00 / FF FF FF, built-in kind 0xC2 is the largest writer kind).
pub(crate) fn c11_writer_eid(layout: u8, e: u8) -> EntityId {
  if layout == 0 {
    EntityId::new([0, 0, e], EntityKind::WRITER_WITH_KEY_USER_DEFINED)
  } else if e == 1 {
    EntityId::new([0, 0, 0], EntityKind::WRITER_WITH_KEY_USER_DEFINED)
  } else {
    EntityId::new([0xFF, 0xFF, 0xFF], EntityKind::WRITER_WITH_KEY_BUILT_IN)
  }
}
/// GUID of remote writer i (0..3): participant 1 + i/2, entity 1 + i%2
pub(crate) fn c11_wguid(layout: u8, i: usize) -> GUID {
  GUID::new(
    c11_prefix(layout, 1 + (i / 2) as u8),
    c11_writer_eid(layout, 1 + (i % 2) as u8),
  )
}

pub(crate) fn besteffort_qos() -> QosPolicies {
  let mut q = QosPolicies::qos_none();
  q.reliability = Some(policy::Reliability::BestEffort);
  q
}

/// Ghost: what discovery has told the reader, independent of the implementation.
#[derive(Clone, Copy)]
pub(crate) struct World {
  pub layout: u8,
  pub compat: u8,    // bit i: writer i offers a compatible QoS (fixed for the whole history)
  pub announced: u8, // bit i: writer i currently announced (and its participant not lost)
  pub total: i32,    // matches ever made
  pub incompat: i32, // incompatible-QoS events so far
}
impl World {
  pub fn new(layout: u8, compat: u8) -> Self {
    World {
      layout,
      compat,
      announced: 0,
      total: 0,
      incompat: 0,
    }
  }
  pub fn matched(&self) -> u8 {
    self.announced & self.compat
  }
}
pub(crate) fn part_mask(p: u8) -> u8 {
  if p == 1 {
    0b0011
  } else {
    0b1100
  }
}

impl Rig {
  pub fn c11_announce(&mut self, w: &World, i: usize) {
    // a fresh proxy, as discovery builds it from the DiscoveredWriterData (locators are
    // irrelevant for matching and left empty: nothing to free when the proxy is dropped)
    let proxy = RtpsWriterProxy::new(c11_wguid(w.layout, i), Vec::new(), Vec::new(), EntityId::UNKNOWN);
    if w.compat & (1 << i) != 0 {
      let q = reliable_qos();
      self.reader.update_writer_proxy(proxy, &q);
      core::mem::forget(q);
    } else {
      let q = besteffort_qos();
      self.reader.update_writer_proxy(proxy, &q);
      core::mem::forget(q);
    }
  }
}

/// The matched set of the real reader as a bitmask over the 4 remote writers, plus its size.
pub(crate) fn real_matched(rig: &Rig, layout: u8) -> (u8, usize) {
  let mut m = 0u8;
  let mut i = 0;
  while i < 4 {
    if rig.reader.matched_writers.contains_key(&c11_wguid(layout, i)) {
      m |= 1 << i;
    }
    i += 1;
  }
  (m, rig.reader.matched_writers.len())
}

fn idx_of(layout: u8, g: GUID) -> usize {
  let mut r = 9;
  let mut i = 0;
  while i < 4 {
    if g == c11_wguid(layout, i) {
      r = i;
    }
    i += 1;
  }
  r
}

/// One discovery event on the real reader + the C11 oracle for it.
pub(crate) fn step(rig: &mut Rig, w: &mut World, ev: u8) {
  let before = w.matched();
  let n_before = before.count_ones() as i32;
  // ---- the real code
  match ev {
    0 => rig.c11_announce(w, 0),
    1 => rig.c11_announce(w, 1),
    2 => rig.c11_announce(w, 2),
    3 => rig.c11_announce(w, 3),
    4 => rig.reader.remove_writer_proxy(c11_wguid(w.layout, 0)),
    5 => rig.reader.remove_writer_proxy(c11_wguid(w.layout, 1)),
    6 => rig.reader.remove_writer_proxy(c11_wguid(w.layout, 2)),
    7 => rig.reader.remove_writer_proxy(c11_wguid(w.layout, 3)),
    8 => rig.reader.participant_lost(c11_prefix(w.layout, 1)),
    _ => rig.reader.participant_lost(c11_prefix(w.layout, 2)),
  }
  // ---- the ghost
  let mut incompatible_announced = false;
  if ev < 4 {
    w.announced |= 1 << ev;
    incompatible_announced = w.compat & (1 << ev) == 0;
  } else if ev < 8 {
    w.announced &= !(1 << (ev - 4));
  } else {
    w.announced &= !part_mask(ev - 7);
  }
  let after = w.matched();
  let n_after = after.count_ones() as i32;
  let added = after & !before;
  let removed = before & !after;
  w.total += added.count_ones() as i32;

  // ---- matched set
  let (real, len) = real_matched(rig, w.layout);
  assert!(real == after, "matched-writer set differs from the set of announced, compatible endpoints of live participants");
  assert!(len as i32 == n_after, "matched_writers holds an entry that is none of the announced writers");
  if ev >= 8 {
    let other = part_mask(if ev == 8 { 2 } else { 1 });
    assert!(real & other == before & other, "participant loss touched a writer of another participant");
    assert!(real & part_mask(ev - 7) == 0, "a writer of the lost participant is still matched");
  }
  // contains_writer (what the message receiver asks) agrees
  if w.layout == 0 {
    assert!(rig.reader.contains_writer(c11_writer_eid(0, 1)) == (after & 0b0101 != 0));
  }

  // ---- status events of this step
  let st = take_status(rig);
  let changed = added | removed;
  let expect_n = changed.count_ones() as usize + if incompatible_announced { 1 } else { 0 };
  assert!(st.n == expect_n, "number of status events differs from the number of membership changes (+ incompatible announcements)");
  let mut seen = 0u8;
  let mut cur_sum = 0i32;
  let mut cur_min = i32::MAX;
  let mut j = 0;
  while j < MAXST {
    if j < st.n {
      let r = st.recs[j];
      if incompatible_announced {
        assert!(r.kind == 2, "incompatible writer did not produce RequestedIncompatibleQos");
        assert!(r.who == c11_wguid(w.layout, ev as usize), "incompatible-QoS event names another writer");
        assert!(r.total == w.incompat + 1 && r.total_change == 1, "incompatible-QoS count not incremented by one");
        assert!(r.policy_is_reliability, "incompatible-QoS event names another policy than Reliability");
      } else {
        assert!(r.kind == 1, "membership change did not produce SubscriptionMatched");
        let i = idx_of(w.layout, r.who);
        assert!(i < 4 && changed & (1 << i) != 0, "matched event for a writer whose membership did not change");
        assert!(seen & (1 << i) == 0, "two matched events for one membership change");
        seen |= 1 << i;
        if added != 0 {
          assert!(r.cur_change == 1, "current.count_change != +1 on a new match");
          assert!(r.cur == n_after, "current.count != size of the matched set");
          assert!(r.total == w.total && r.total_change == 1, "total count not incremented by one on a new match");
        } else {
          assert!(r.cur_change == -1, "current.count_change != -1 on an unmatch");
          assert!(r.cur >= n_after && r.cur < n_before, "current.count outside [size after, size before)");
          assert!(r.total == w.total, "total count changed on an unmatch");
          assert!(r.total_change == 0, "total.count_change != 0 although total did not change");
          cur_sum += r.cur;
          if r.cur < cur_min {
            cur_min = r.cur;
          }
        }
      }
    }
    j += 1;
  }
  if removed != 0 {
    // several unmatches in one call (participant loss): each intermediate set size is
    // reported once, in whatever order; the last word is the final size
    assert!(cur_min == n_after, "no unmatch event reports the final size of the matched set");
    let k = n_before - n_after; // sizes n_after .. n_before-1
    assert!(cur_sum == k * n_after + k * (k - 1) / 2, "unmatch events do not report each intermediate set size once");
  }
  if incompatible_announced {
    w.incompat += 1;
  }
}

// ==================================================================== harnesses
/// Same environment as reader.rs's reader_harness! (stubs listed in evidence) except that
/// status events go to the flattening recorder of this file.
macro_rules! c11_reader_harness {
  ($(#[$m:meta])* fn $name:ident($unwind:expr) $body:block) => {
    $(#[$m])*
    #[cfg_attr(kani, kani::proof, kani::unwind($unwind))]
    #[cfg_attr(
      kani,
      kani::stub(Reader::encode_and_send, crate::rtps::reader::verif_harness_reader::stub_encode_and_send),
      kani::stub(Reader::send_status_change, c11_stub_send_status_change),
      kani::stub(Reader::send_participant_status, c11_stub_send_participant_status),
      kani::stub(Reader::notify_cache_change, crate::rtps::reader::verif_harness_reader::stub_notify_cache_change),
      kani::stub(crate::structure::time::Timestamp::now, crate::structure::time::verif_harness_env_time::stub_now),
      kani::stub(std::time::Instant::now, crate::structure::time::verif_harness_env_time::stub_instant_now),
      kani::stub(crate::mio_source::make_poll_channel, crate::mio_source::verif_harness_env_mio::stub_make_poll_channel),
      kani::stub(crate::mio_source::PollEventSender::send, crate::mio_source::verif_harness_env_mio::stub_send),
      kani::stub(crate::mio_source::PollEventSource::drain, crate::mio_source::verif_harness_env_mio::stub_drain),
      kani::stub(std::fmt::format, crate::verif_env::stub_format),
      kani::stub(std::vec::Vec::push, crate::verif_env::stub_vec_push),
      kani::stub(alloc::vec::from_elem, crate::verif_env::stub_vec_from_elem)
    )]
    #[cfg_attr(verif_replay, test)]
    fn $name() {
      vk::begin(stringify!($name));
      $body;
      vk::end();
    }
  };
}

/// Covers collected along one history.
#[derive(Clone, Copy)]
pub(crate) struct Seen {
  pub lost_two: bool,     // one participant loss unmatched two writers
  pub rematch: bool,      // a writer matched again after having been unmatched (total > current)
  pub incompat: bool,     // an incompatible writer was announced
  pub quiet: bool,        // an event that must emit nothing (re-announcement, unknown dispose, second loss)
  pub lost_one_of_two: bool, // participant loss while a writer of the OTHER participant stays matched
}

pub(crate) const fn menu(evs: &[u8]) -> u16 {
  let mut m = 0u16;
  let mut j = 0;
  while j < evs.len() {
    m |= 1 << evs[j];
    j += 1;
  }
  m
}
pub(crate) const FULL: u16 = 0x3FF;

/// `pre`: CONCRETE prefix of events (the state the symbolic part starts from), then `k` events,
/// each chosen SYMBOLICALLY among the events of `menu` (bit e = event e of the table at the top
/// of this file).  Only the arms of the menu exist in the encoded program: every arm costs
/// 5-25 s of symbolic execution on the real Reader (measured), the full 10-event menu with
/// k = 2 needs ~400 s / 7.5 GB.
fn history(layout: u8, compat: u8, pre: &[u8], k: usize, menu: u16) -> Seen {
  let mut rig = make_rig(reliable_qos(), false, reader_guid());
  let mut w = World::new(layout, compat);
  let mut j = 0;
  while j < pre.len() {
    step(&mut rig, &mut w, pre[j]);
    j += 1;
  }
  let mut seen = Seen {
    lost_two: false,
    rematch: false,
    incompat: false,
    quiet: false,
    lost_one_of_two: false,
  };
  let mut j = 0;
  while j < k {
    let ev = vk::range_u8(0, 9);
    vk::assume(menu & (1u16 << ev) != 0);
    let before = w.matched();
    let total0 = w.total;
    let inc0 = w.incompat;
    // a real `match`: the arms are exclusive in the control flow, so each one runs on the
    // state BEFORE the event (a sequence of `if ev == e {..}` lets arm e+1 start from the
    // join of arm e with the old state: measured > 600 s instead of ~100 s)
    match ev {
      0 if menu & (1 << 0) != 0 => step(&mut rig, &mut w, 0),
      1 if menu & (1 << 1) != 0 => step(&mut rig, &mut w, 1),
      2 if menu & (1 << 2) != 0 => step(&mut rig, &mut w, 2),
      3 if menu & (1 << 3) != 0 => step(&mut rig, &mut w, 3),
      4 if menu & (1 << 4) != 0 => step(&mut rig, &mut w, 4),
      5 if menu & (1 << 5) != 0 => step(&mut rig, &mut w, 5),
      6 if menu & (1 << 6) != 0 => step(&mut rig, &mut w, 6),
      7 if menu & (1 << 7) != 0 => step(&mut rig, &mut w, 7),
      8 if menu & (1 << 8) != 0 => step(&mut rig, &mut w, 8),
      9 if menu & (1 << 9) != 0 => step(&mut rig, &mut w, 9),
      _ => {}
    }
    let after = w.matched();
    if ev >= 8 && (before & !after).count_ones() == 2 {
      seen.lost_two = true;
    }
    if ev >= 8 && before != after && after != 0 {
      seen.lost_one_of_two = true;
    }
    if ev < 4 && w.total > total0 && w.total > after.count_ones() as i32 {
      seen.rematch = true;
    }
    if w.incompat > inc0 {
      seen.incompat = true;
    }
    if before == after && w.incompat == inc0 {
      seen.quiet = true;
    }
    j += 1;
  }
  rig.finish();
  seen
}

// ---- quick tier: k = 2, four-event menus
c11_reader_harness! {
/// Announce / re-announce / dispose / incompatible, from the empty reader.
fn c11_reader_k2_announce_dispose(6) {
  let s = history(0, 0b0111, &[], 2, menu(&[0, 1, 3, 4]));
  vk_cover!(s.incompat, "an incompatible writer was announced");
  vk_cover!(s.quiet, "an event that must emit nothing (re-announcement / dispose of an unknown writer)");
}
}
c11_reader_harness! {
/// Participant loss and rediscovery; participants differ only in the LAST prefix byte and
/// are adjacent, the writers sit at both ends of the entity-id space.
fn c11_reader_k2_participant_loss_adjacent(6) {
  let s = history(1, 0b1111, &[0, 1, 2, 3], 2, menu(&[8, 9, 1, 6]));
  vk_cover!(s.lost_two, "a participant loss unmatched two writers at once");
  vk_cover!(s.lost_one_of_two, "the other participant's writers stayed matched");
  vk_cover!(s.rematch, "a writer matched again after its participant was lost (total > current)");
  vk_cover!(s.quiet, "second loss of the same participant emits nothing");
}
}
c11_reader_harness! {
/// One symbolic event of the FULL menu from the state 'everything announced'; participants
/// differ only in the LAST prefix byte and are adjacent (range bounds of GuidPrefix::range touch).
fn c11_reader_k1_full_menu(6) {
  let s = history(1, 0b0111, &[0, 1, 2, 3], 1, FULL);
  vk_cover!(s.lost_two, "a participant loss unmatched two writers at once");
  vk_cover!(s.lost_one_of_two, "loss of the participant with one matched writer leaves the other participant's two matched");
  vk_cover!(s.incompat, "re-announcement of the incompatible writer");
  vk_cover!(s.quiet, "re-announcement of a matched writer emits nothing");
}
}
c11_reader_harness! {
/// Everything announced, participant 1 lost (concrete), then one symbolic event of the FULL
/// menu: rediscovery (its writers are announced again), second loss, loss of the other one, ...
fn c11_reader_k1_after_loss(6) {
  let s = history(2, 0b1111, &[0, 1, 2, 3, 8], 1, FULL);
  vk_cover!(s.rematch, "a writer matched again after its participant was lost (total > current)");
  vk_cover!(s.lost_two, "the other participant lost as well");
  vk_cover!(s.quiet, "second loss of the same participant emits nothing");
}
}

// ---- thorough tier.  STATUS (measured, VERIF_MEM_MB=8000, loaded box): k2_participant_loss_adjacent and
// k3_announce_dispose exceed the 8 GB cap after ~640 s; k2_full_menu (reader) 400 s / 7.5 GB.  The k3_* and
// *_from_all harnesses are NOT in the table (tools/props/C11.py).
c11_reader_harness! {
fn c11_reader_k3_participant_loss_adjacent(6) {
  let s = history(2, 0b1111, &[0, 1, 2, 3], 3, menu(&[8, 9, 1, 6]));
  vk_cover!(s.lost_two && s.rematch, "lost, found again");
}
}
c11_reader_harness! {
fn c11_reader_k3_announce_dispose(6) {
  let s = history(2, 0b0111, &[], 3, menu(&[0, 1, 3, 4]));
  vk_cover!(s.rematch, "announce, dispose, announce again: total > current");
  vk_cover!(s.incompat && s.quiet, "incompatible writer and a silent event in one history");
}
}
c11_reader_harness! {
/// k = 2 over the full 10-event menu from the empty reader.
fn c11_reader_k2_full_menu(6) {
  let s = history(0, 0b0111, &[], 2, FULL);
  vk_cover!(s.incompat, "an incompatible writer was announced");
  vk_cover!(s.quiet, "no-op event");
}
}
c11_reader_harness! {
/// k = 2 over the full menu from 'everything announced', extreme-byte prefix layout.
fn c11_reader_k2_full_menu_from_all(6) {
  let s = history(2, 0b1101, &[0, 1, 2, 3], 2, FULL);
  vk_cover!(s.lost_two, "a participant loss unmatched two writers at once");
  vk_cover!(s.rematch, "re-match");
}
}
