// C01 kernel harness on the real TopicCache (the hand-over side of a reliable reader) —
// child module of crate::structure::dds_cache.
#![allow(dead_code, unused_imports, clippy::all)]
use bytes::Bytes;

use super::*;
use crate::{
  dds::{ddsdata::DDSData, with_key::datawriter::WriteOptions},
  messages::submessages::elements::serialized_payload::SerializedPayload,
  structure::guid::{EntityId, EntityKind, GuidPrefix},
  verif_env::{self, BTreeMap as VMap},
  verif_vk as vk,
  verif_vk::vk_cover,
  RepresentationIdentifier,
};

fn wguid() -> GUID {
  GUID::new(
    GuidPrefix {
      bytes: [1, 1, 2, 3, 4, 5, 6, 7, 8, 9, 10, 11],
    },
    EntityId::new([0, 0, 1], EntityKind::WRITER_WITH_KEY_USER_DEFINED),
  )
}

fn change(sn: i64) -> CacheChange {
  // static payloads, first byte = 11 * sn (drop is a no-op)
  static P1: [u8; 4] = [11, 0, 0, 0];
  static P2: [u8; 4] = [22, 0, 0, 0];
  static P3: [u8; 4] = [33, 0, 0, 0];
  static P4: [u8; 4] = [44, 0, 0, 0];
  let p: &'static [u8] = match sn {
    1 => &P1,
    2 => &P2,
    3 => &P3,
    _ => &P4,
  };
  CacheChange::new(
    wguid(),
    SequenceNumber::new(sn),
    WriteOptions::default(),
    DDSData::new(SerializedPayload::new_from_bytes(
      RepresentationIdentifier::CDR_LE,
      Bytes::from_static(p),
    )),
  )
}

/// Three changes of one writer (SNs 1, 4, 2 in that arrival order; SN 3 missing), a "reliably received before" marker m and a read pointer r, both symbolic: the
/// hand-over `get_changes_in_range_reliable` yields exactly the stored SNs s with r < s < m,
/// in strictly increasing SN order, each once, each with the bytes it arrived with — i.e.
/// nothing above a hole (the marker never passes an unknown SN, C01 proxy harnesses), nothing
/// twice (the read pointer), nothing out of order (arrival order does not matter).
#[cfg_attr(kani, kani::proof, kani::unwind(7))]
#[cfg_attr(
  kani,
  kani::stub(std::fmt::format, crate::verif_env::stub_format),
  kani::stub(crate::structure::time::Timestamp::now, crate::structure::time::verif_harness_env_time::stub_now)
)]
#[cfg_attr(verif_replay, test)]
fn c01_topic_cache_handover() {
  vk::begin("c01_topic_cache_handover");
  let qos = QosPolicies::qos_none();
  let mut tc = TopicCache::new("t".to_string(), TypeDesc::new("T".to_string()), &qos);
  tc.min_keep_samples = History::KeepAll;
  // arrival order 1, 4, 2 (out of SN order, SN 3 never arrives): concrete — three symbolic
  // SNs did not finish in 900 s; the symbolic dimensions are the marker and the read pointer
  let (a, b, c) = (1i64, 4i64, 2i64);
  tc.add_change(&Timestamp::from_ticks(11), change(1));
  tc.add_change(&Timestamp::from_ticks(12), change(4));
  tc.add_change(&Timestamp::from_ticks(13), change(2));
  let m = vk::range_i64(1, 5);
  tc.mark_reliably_received_before(wguid(), SequenceNumber::new(m));
  let r = vk::range_i64(0, 4);
  let mut last_read: VMap<GUID, SequenceNumber> = VMap::new();
  if r > 0 {
    last_read.insert(wguid(), SequenceNumber::new(r));
  }
  let stored = (1u32 << a) | (1u32 << b) | (1u32 << c);
  let mut got = 0u32;
  let mut prev = 0i64;
  let mut n = 0;
  for (ts, cc) in tc.get_changes_in_range_reliable(&last_read) {
    let s = i64::from(cc.sequence_number);
    assert!(s > prev, "hand-over not in strictly increasing sequence-number order");
    prev = s;
    assert!(s > r, "a change at or below the read pointer was handed over again");
    assert!(s < m, "a change beyond the reliably-received marker was handed over");
    assert!(stored & (1 << s) != 0, "a change that never arrived was handed over");
    assert!(cc.writer_guid == wguid());
    match &cc.data_value {
      DDSData::Data { serialized_payload } => {
        assert!(serialized_payload.value[0] as i64 == 11 * s, "payload bytes differ from the ones that arrived");
      }
      _ => panic!("change kind altered"),
    }
    got |= 1 << s;
    n += 1;
  }
  // completeness: everything stored strictly between r and m came out
  let mut s = 1;
  while s <= 4 {
    let expected = stored & (1 << s) != 0 && s > r && s < m;
    assert!((got & (1 << s) != 0) == expected, "hand-over differs from the stored changes between read pointer and marker");
    s += 1;
  }
  vk_cover!(n == 3, "all three handed over");
  vk_cover!(n == 1, "one handed over");
  core::mem::forget(last_read);
  core::mem::forget(tc);
  vk::end();
}
