// C05, writer side — child module of crate::rtps::writer (num_frags_and_frag_size is a
// private &self method of the Writer object).
//
// Decides, for every payload size and every fragment size inside the stated ranges (a
// writer fragments when the payload is larger than one fragment), that the number of DATAFRAGs the writer sends equals
// the number of fragments the reader expects from the DATAFRAG header
// (DataFrag::total_number_of_fragments), that it is ceil(n/f), and that the fragment size
// it announces is its data_max_size_serialized.  The harnesses in frag.rs take the fragment
// count from DataFrag::total_number_of_fragments and rest on this equality.
#![allow(dead_code, unused_imports, unused_variables, clippy::all)]
use std::sync::{Arc, Mutex};

use bytes::Bytes;

use super::*;
use crate::{
  dds::statusevents::sync_status_channel,
  messages::submessages::submessages::DataFrag,
  network::udp_sender::verif_harness_env_udp as env_udp,
  structure::guid::{EntityId, EntityKind, GuidPrefix},
  verif_vk as vk,
  verif_vk::vk_cover,
};

pub(crate) fn make_writer() -> Writer {
  let guid = GUID::new(
    GuidPrefix {
      bytes: [1, 1, 2, 3, 4, 5, 6, 7, 8, 9, 10, 11],
    },
    EntityId::new([0, 0, 1], EntityKind::WRITER_WITH_KEY_USER_DEFINED),
  );
  let (cmd_tx, writer_command_receiver) = mio_channel::sync_channel::<WriterCommand>(1);
  core::mem::forget(cmd_tx);
  let (status_sender, status_rx) = sync_status_channel::<DataWriterStatus>(1).unwrap();
  core::mem::forget(status_rx);
  let (participant_status_sender, pstatus_rx) =
    sync_status_channel::<DomainParticipantStatusEvent>(1).unwrap();
  core::mem::forget(pstatus_rx);
  let ing = WriterIngredients {
    guid,
    writer_command_receiver,
    writer_command_receiver_waker: Arc::new(Mutex::new(None)),
    topic_name: "t".to_string(),
    like_stateless: false,
    qos_policies: QosPolicies::qos_none(),
    status_sender,
    security_plugins: None,
  };
  let timer = mio_extras::timer::Builder::default()
    .num_slots(2)
    .capacity(2)
    .build();
  Writer::new(
    ing,
    Rc::new(env_udp::dummy_udp_sender()),
    timer,
    participant_status_sender,
  )
}

fn frag_count_agrees(f_max: u16, n_max: u32) {
  let mut w = make_writer();
  // the constructor's choice; the property is decided for every 16-bit fragment size below
  assert!(w.data_max_size_serialized == 1024);
  let f: u16 = vk::any();
  let n: u32 = vk::any();
  vk::assume(f >= 1 && f <= f_max);
  vk::assume(n <= n_max);
  vk::assume(n > f as u32); // Writer fragments only when payload_size > data_max_size_serialized
  w.data_max_size_serialized = f as usize;
  let (num_frags, frag_size) = w.num_frags_and_frag_size(n as usize);
  assert!(frag_size == f, "announced fragment size is not data_max_size_serialized");
  let probe = DataFrag {
    reader_id: EntityId::UNKNOWN,
    writer_id: EntityId::UNKNOWN,
    writer_sn: SequenceNumber::new(1),
    fragment_starting_num: FragmentNumber::new(1),
    fragments_in_submessage: 1,
    data_size: n,
    fragment_size: frag_size,
    inline_qos: None,
    serialized_payload: Bytes::new(),
  };
  let expected_by_reader = u32::from(probe.total_number_of_fragments());
  core::mem::forget(probe);
  assert!(num_frags == expected_by_reader, "writer sends a different number of fragments than the reader expects");
  {
    let (nf, ff, nn) = (num_frags as u64, f as u64, n as u64);
    assert!(nf >= 2 && nf * ff >= nn && nn > (nf - 1) * ff, "fragment count is not ceil(n/f)");
  }
  vk_cover!(n % (f as u32) == 0 && f > 1, "payload is a multiple of the fragment size");
  vk_cover!(n % (f as u32) == 1 && f > 4, "one byte in the last fragment");
  vk_cover!(f == f_max && n == n_max, "largest sizes of the range");
  core::mem::forget(w);
}

macro_rules! c05_count {
  ($name:ident, $fmax:expr, $nmax:expr) => {
    #[cfg_attr(kani, kani::proof, kani::unwind(7))]
    #[cfg_attr(
      kani,
      kani::stub(crate::structure::time::Timestamp::now, crate::structure::time::verif_harness_env_time::stub_now),
      kani::stub(std::time::Instant::now, crate::structure::time::verif_harness_env_time::stub_instant_now),
      kani::stub(crate::mio_source::make_poll_channel, crate::mio_source::verif_harness_env_mio::stub_make_poll_channel),
      kani::stub(crate::mio_source::PollEventSender::send, crate::mio_source::verif_harness_env_mio::stub_send),
      kani::stub(crate::mio_source::PollEventSource::drain, crate::mio_source::verif_harness_env_mio::stub_drain),
      kani::stub(std::fmt::format, crate::verif_env::stub_format)
    )]
    #[cfg_attr(verif_replay, test)]
    fn $name() {
      vk::begin(stringify!($name));
      frag_count_agrees($fmax, $nmax);
      vk::end();
    }
  };
}
// Full width (f: any u16, n: any u32) was tried and is not decided within 400 s: two
// symbolic 32-bit divisions by a symbolic divisor plus the 64-bit products of the ceil
// oracle are beyond CaDiCaL here.  The ranges below contain every grid point of frag.rs.
c05_count!(c05_writer_frag_count_small, 64, 1024);
c05_count!(c05_writer_frag_count_medium, 256, 8192);
