// Environment stand-in for network::udp_sender — child module of that file.
#![allow(dead_code, unused_imports, clippy::all)]
use super::*;

/// Under Kani: a UDPSender around a never-used file descriptor (no syscalls are modelled);
/// natively: the real thing on an ephemeral port.
#[cfg(kani)]
pub(crate) fn dummy_udp_sender() -> UDPSender {
  use std::os::fd::FromRawFd;
  UDPSender {
    unicast_socket: unsafe { mio_08::net::UdpSocket::from_raw_fd(3) },
    multicast_sockets: Vec::new(),
  }
}
#[cfg(not(kani))]
pub(crate) fn dummy_udp_sender() -> UDPSender {
  UDPSender::new(0).expect("UDPSender::new")
}

pub(crate) static mut SENT_DATAGRAMS: usize = 0;
pub(crate) static mut SENT_BYTES: usize = 0;

/// kani::stub target for UDPSender::send_to_locator: count, never touch a socket.
pub(crate) fn stub_send_to_locator(_this: &UDPSender, buffer: &[u8], _locator: &Locator) {
  unsafe {
    SENT_DATAGRAMS += 1;
    SENT_BYTES += buffer.len();
  }
}
