// C08 multi-step plans on the real DataSampleCache — second child module of
// crate::dds::with_key::datasample_cache (next to verif_harness_dscache, whose tiny keyed type,
// cache constructor and std-sort / VecDeque stand-ins are reused).
//
// A *plan* is a CONCRETE sequence of operations on the cache (kinds, keys, writers, sequence
// numbers and order are fixed per harness; one harness per plan via `plan!`).  Symbolic are only
// the things that do not change container shapes: payload bytes, Value-vs-Dispose of selected
// arrivals (`Kd::Sym`), and — where measured affordable — max_samples (`Mx::Sym`) and the read
// condition (`Cn::Sym`) of an access.
//
// After EVERY step the real cache is compared with a reference model of DDS 1.4 2.2.2.5.1
// (sample_state, view_state of the most recent sample of an instance, instance_state,
// disposed/no_writers generation counts), of History KeepLast(depth) and of take/read removal:
//   arrival : nothing taken/evicted reappears; KeepAll evicts nothing; KeepLast(depth): at most
//             depth samples of the instance available and every available one is among the depth
//             most recent changes of the instance (upper bound only: evicting more than necessary
//             after a take is NOT flagged); the change just received is available
//   access  : the selection is exactly {available, in scope, matching the condition}; every
//             returned SampleInfo against the model; per-writer sequence-number order inside the
//             result; no sample twice; take removes exactly the returned samples, read removes
//             nothing and flips NotRead -> Read
#![allow(dead_code, unused_imports, unused_variables, clippy::all)]
use super::*;
use super::verif_harness_dscache::{depth_of, new_cache, ts_of, value_of, value_of_ref, writer_guid, writer_of, Cache, Hist, VKeyed};
use crate::{verif_vk as vk, verif_vk::vk_cover};

// ------------------------------------------------------------------ plan language
#[derive(Clone, Copy, PartialEq, Eq)]
pub(crate) enum Kd {
  V,   // Sample::Value
  D,   // Sample::Dispose
  Sym, // solver's choice
}
#[derive(Clone, Copy, PartialEq, Eq)]
pub(crate) enum Cn {
  Any,     // ReadCondition::any()
  NotRead, // ReadCondition::not_read()
  Sym,     // solver's choice of the two
}
#[derive(Clone, Copy, PartialEq, Eq)]
pub(crate) enum Mx {
  All,      // max_samples = usize::MAX
  N(usize), // max_samples = n
  Sym,      // solver's choice in 0..=N (N = number of arrival slots, i.e. up to "all")
}
#[derive(Clone, Copy, PartialEq, Eq)]
pub(crate) enum Sc {
  All,      // read / take
  This(u8), // read_instance / take_instance, SelectByKey::This
  Next(u8), // read_instance / take_instance, SelectByKey::Next (DataReader::infer_key -> next_key)
}
#[derive(Clone, Copy)]
pub(crate) enum Op {
  Arr { key: u8, w: u8, sn: i64, kind: Kd },
  Acc { take: bool, sc: Sc, cond: Cn, max: Mx },
}
const fn a(key: u8, w: u8, sn: i64, kind: Kd) -> Op {
  Op::Arr { key, w, sn, kind }
}
const fn rd(cond: Cn, max: Mx) -> Op {
  Op::Acc { take: false, sc: Sc::All, cond, max }
}
const fn tk(cond: Cn, max: Mx) -> Op {
  Op::Acc { take: true, sc: Sc::All, cond, max }
}
const fn rdi(sc: Sc, cond: Cn, max: Mx) -> Op {
  Op::Acc { take: false, sc, cond, max }
}
const fn tki(sc: Sc, cond: Cn, max: Mx) -> Op {
  Op::Acc { take: true, sc, cond, max }
}

// ------------------------------------------------------------------ reference model
// slot = index of the arrival in the plan (concrete), N = number of arrival slots (<= 8)
#[derive(Clone, Copy)]
struct MS {
  exists: bool,
  avail: bool, // received, not taken, not evicted by History
  key: u8,
  writer: u8,
  sn: i64,
  is_value: bool,
  v: u8,
  read: bool, // sample_state
  dgc: i32,   // disposed_generation_count at reception (2.2.2.5.1.5)
}
#[derive(Clone, Copy)]
struct MI {
  known: bool,
  alive: bool, // ALIVE / NOT_ALIVE_DISPOSED (RustDDS never produces NOT_ALIVE_NO_WRITERS here)
  dgc: i32,    // NOT_ALIVE_DISPOSED -> ALIVE transitions so far
  // view_state (2.2.2.5.1.8): NEW <=> first access of the most recent generation.  Two readings
  // differ when an access touched only samples of an OLDER generation:
  //   touched : some sample of the instance was accessed since it was (re)born
  //   viewed  : a sample of the most recent generation was accessed
  // The oracle asserts only where both agree: !touched => NEW, viewed => NOT_NEW.
  touched: bool,
  viewed: bool,
  last: usize, // slot of the most recent sample received for the instance
}
struct Model<const N: usize> {
  s: [MS; N],
  i: [MI; 2],
  arrivals: usize,
}
/// what happened, for the per-plan reachability witness
#[derive(Clone, Copy)]
pub(crate) struct Seen {
  max_len: usize,        // largest result
  max_same_inst: usize,  // most samples of ONE instance in one result
  reborn: i32,           // largest disposed_generation_count reached by an instance
  latest_new: bool,      // a most-recent sample was reported NEW
  latest_notnew: bool,   // a most-recent sample was reported NOT_NEW
  read_state: bool,      // a returned sample had sample_state READ
  disposed_state: bool,  // a returned sample had instance_state NOT_ALIVE_DISPOSED
  dgc_mixed: bool,       // one result carried two different disposed_generation_counts
  avail_end: usize,      // samples available at the end
  evicted: usize,        // samples evicted by History over the plan
  returned: usize,       // samples returned over the plan
  truncated: bool,       // some access was cut by max_samples
}

fn model_new<const N: usize>() -> Model<N> {
  Model {
    s: [MS {
      exists: false,
      avail: false,
      key: 0,
      writer: 0,
      sn: 0,
      is_value: false,
      v: 0,
      read: false,
      dgc: 0,
    }; N],
    i: [MI {
      known: false,
      alive: false,
      dgc: 0,
      touched: false,
      viewed: false,
      last: 0,
    }; 2],
    arrivals: 0,
  }
}

fn popcount<const N: usize>(x: u8) -> usize {
  let mut n = 0;
  let mut b = 0;
  while b < N {
    if x & (1 << b) != 0 {
      n += 1;
    }
    b += 1;
  }
  n
}

/// the cache holds exactly the samples the model says are available
fn ghost_agrees<const N: usize>(c: &Cache, m: &Model<N>) -> bool {
  let mut ok = true;
  let mut cnt = 0;
  let mut s = 0;
  while s < N {
    let present = c.datasamples.contains_key(&ts_of(s));
    ok = ok && (present == (m.s[s].exists && m.s[s].avail));
    if present {
      cnt += 1;
    }
    s += 1;
  }
  ok && c.datasamples.len() == cnt
}

// ------------------------------------------------------------------ arrival
fn step_arrival<const N: usize>(c: &mut Cache, m: &mut Model<N>, seen: &mut Seen, hist: Hist, key: u8, w: u8, sn: i64, kind: Kd) {
  let step = m.arrivals;
  m.arrivals += 1;
  let is_value: bool = match kind {
    Kd::V => true,
    Kd::D => false,
    Kd::Sym => vk::any(),
  };
  let v: u8 = vk::any(); // payload byte (ignored for a dispose)
  // model: instance life cycle
  let inst = &mut m.i[key as usize];
  if !inst.known {
    inst.known = true;
    inst.dgc = 0;
    inst.touched = false;
    inst.viewed = false;
  } else if !inst.alive && is_value {
    inst.dgc += 1; // NOT_ALIVE_DISPOSED -> ALIVE: a new generation
    inst.touched = false;
    inst.viewed = false;
  }
  inst.alive = is_value;
  inst.last = step;
  let dgc_now = inst.dgc;
  if dgc_now > seen.reborn {
    seen.reborn = dgc_now;
  }
  m.s[step] = MS {
    exists: true,
    avail: true,
    key,
    writer: w,
    sn,
    is_value,
    v,
    read: false,
    dgc: dgc_now,
  };
  c.add_sample(
    if is_value {
      Sample::Value(VKeyed { k: key, v })
    } else {
      Sample::Dispose(key)
    },
    writer_guid(w),
    SequenceNumber::new(sn),
    ts_of(step),
    WriteOptions::from(None),
  );
  // observe what History left
  let depth = depth_of(hist);
  let mut s = 0;
  while s < N {
    if s <= step && m.s[s].exists {
      let present = c.datasamples.contains_key(&ts_of(s));
      assert!(!(present && !m.s[s].avail), "a taken or evicted sample reappeared");
      if depth.is_none() {
        assert!(present == m.s[s].avail, "KeepAll: an arrival removed a sample");
      }
      if m.s[s].avail && !present {
        seen.evicted += 1;
      }
      m.s[s].avail = present;
    }
    s += 1;
  }
  assert!(m.s[step].avail, "the change just received is not available");
  // KeepLast(depth): at most depth samples of the instance, all among its depth most recent changes
  if let Some(depth) = depth {
    let mut cnt = 0;
    let mut s = 0;
    while s < N {
      if s <= step && m.s[s].exists && m.s[s].avail && m.s[s].key == key {
        cnt += 1;
        let mut newer = 0;
        let mut u = s + 1;
        while u < N {
          if u <= step && m.s[u].exists && m.s[u].key == key {
            newer += 1;
          }
          u += 1;
        }
        assert!(newer < depth, "a sample older than the depth most recent changes of its instance is still available");
      }
      s += 1;
    }
    assert!(cnt <= depth, "more than depth samples of one instance available");
  }
  assert!(ghost_agrees(c, m), "cache content differs from received - taken - evicted");
}

// ------------------------------------------------------------------ read / take
struct Acc {
  seen: u8,          // slots returned
  last_sn: [i64; 3], // per writer (1, 2)
  per_inst: [usize; 2],
  dgc_lo: i32,
  dgc_hi: i32,
}

/// one returned sample against the model
fn check_one<const N: usize>(m: &Model<N>, sn_seen: &mut Seen, si: &SampleInfo, val: (bool, u8, u8), expected: u8, acc: &mut Acc) {
  let w = writer_of(&si.publication_handle);
  let sn = i64::from(si.sequence_number);
  let mut found = false;
  let mut s = 0;
  while s < N {
    let ms = &m.s[s];
    if ms.exists && ms.writer == w && ms.sn == sn {
      found = true;
      assert!(expected & (1 << s) != 0, "returned a sample that is taken, evicted or not selected by the condition");
      assert!(acc.seen & (1 << s) == 0, "same sample twice in one result");
      acc.seen |= 1 << s;
      assert!((si.sample_state() == SampleState::Read) == ms.read, "sample_state differs from the model");
      if ms.read {
        sn_seen.read_state = true;
      }
      assert!(val.0 == ms.is_value && val.1 == ms.key && (!ms.is_value || val.2 == ms.v), "payload differs");
      // generation counts: snapshot at reception
      assert!(si.disposed_generation_count() == ms.dgc, "disposed_generation_count differs from the model");
      assert!(si.no_writers_generation_count() == 0, "no_writers_generation_count must stay 0");
      if ms.dgc < acc.dgc_lo {
        acc.dgc_lo = ms.dgc;
      }
      if ms.dgc > acc.dgc_hi {
        acc.dgc_hi = ms.dgc;
      }
      let inst = &m.i[ms.key as usize];
      acc.per_inst[ms.key as usize] += 1;
      // instance_state: snapshot at the time of the call
      assert!(
        si.instance_state() == if inst.alive { InstanceState::Alive } else { InstanceState::NotAliveDisposed },
        "instance_state differs from the model"
      );
      if !inst.alive {
        sn_seen.disposed_state = true;
      }
      if inst.last == s {
        // most recent sample of its instance
        if !inst.touched {
          assert!(si.view_state() == ViewState::New, "first access of this generation must be NEW");
        }
        if inst.viewed {
          assert!(
            si.view_state() == ViewState::NotNew,
            "most recent generation already accessed and not reborn since: must be NOT_NEW"
          );
        }
        if si.view_state() == ViewState::New {
          sn_seen.latest_new = true;
        } else {
          sn_seen.latest_notnew = true;
        }
      }
      // samples of one writer in sequence-number order
      assert!(sn > acc.last_sn[ms.writer as usize], "samples of one writer out of sequence-number order");
      acc.last_sn[ms.writer as usize] = sn;
    }
    s += 1;
  }
  assert!(found, "returned a sample that was never received");
}

fn step_access<const N: usize>(c: &mut Cache, m: &mut Model<N>, seen: &mut Seen, take: bool, sc: Sc, cond: Cn, max: Mx) {
  let not_read: bool = match cond {
    Cn::Any => false,
    Cn::NotRead => true,
    Cn::Sym => vk::any(),
  };
  let rc = if not_read { ReadCondition::not_read() } else { ReadCondition::any() };
  // which instance: This(key) or Next(key) exactly like DataReader::infer_key
  let mut inst_key: Option<u8> = None;
  let keys = match sc {
    Sc::All => c.select_keys_for_access(rc),
    Sc::This(k) => {
      inst_key = Some(k);
      c.select_instance_keys_for_access(&k, rc)
    }
    Sc::Next(k) => {
      inst_key = c.next_key(&k);
      // model of SelectByKey::Next: the smallest known instance key greater than k (keys 0, 1)
      let expect = if k == 0 && m.i[1].known { Some(1u8) } else { None };
      assert!(inst_key == expect, "Next does not select the next known instance");
      match inst_key {
        Some(k2) => c.select_instance_keys_for_access(&k2, rc),
        None => Vec::new(),
      }
    }
  };
  // expected selection
  let mut expected = 0u8;
  let mut s = 0;
  while s < N {
    let ms = &m.s[s];
    if ms.exists && ms.avail && (!not_read || !ms.read) {
      let in_scope = match sc {
        Sc::All => true,
        _ => inst_key == Some(ms.key),
      };
      if in_scope {
        expected |= 1 << s;
      }
    }
    s += 1;
  }
  let n0 = keys.len();
  assert!(n0 == popcount::<N>(expected), "the condition does not select exactly the matching samples");
  // Vec::truncate(max_samples)
  let mx = match max {
    Mx::All => usize::MAX,
    Mx::N(n) => n,
    Mx::Sym => vk::range_usize(0, N),
  };
  let n = if mx < n0 { mx } else { n0 };
  if n < n0 {
    seen.truncated = true;
  }
  let mut acc = Acc {
    seen: 0,
    last_sn: [i64::MIN; 3],
    per_inst: [0; 2],
    dgc_lo: i32::MAX,
    dgc_hi: i32::MIN,
  };
  if take {
    let res = c.take_by_keys(&keys[..n]);
    assert!(res.len() == n, "take returns one sample per selected key");
    let mut j = 0;
    while j < N {
      if j < n {
        check_one(m, seen, res[j].sample_info(), value_of(res[j].value()), expected, &mut acc);
      }
      j += 1;
    }
    core::mem::forget(res);
  } else {
    let res = c.read_by_keys(&keys[..n]);
    assert!(res.len() == n, "read returns one sample per selected key");
    let mut j = 0;
    while j < N {
      if j < n {
        check_one(m, seen, res[j].sample_info(), value_of_ref(res[j].value()), expected, &mut acc);
      }
      j += 1;
    }
    core::mem::forget(res);
  }
  core::mem::forget(keys);
  if n == n0 {
    assert!(acc.seen == expected, "a matching sample is missing from the result");
  }
  if n > seen.max_len {
    seen.max_len = n;
  }
  seen.returned += n;
  if acc.per_inst[0] > seen.max_same_inst {
    seen.max_same_inst = acc.per_inst[0];
  }
  if acc.per_inst[1] > seen.max_same_inst {
    seen.max_same_inst = acc.per_inst[1];
  }
  if n > 0 && acc.dgc_lo != acc.dgc_hi {
    seen.dgc_mixed = true;
  }
  // model update: sample_state, availability, view_state
  let mut s = 0;
  while s < N {
    if acc.seen & (1 << s) != 0 {
      if take {
        m.s[s].avail = false;
      } else {
        m.s[s].read = true;
      }
      let dgc = m.s[s].dgc;
      let inst = &mut m.i[m.s[s].key as usize];
      inst.touched = true;
      if dgc == inst.dgc {
        inst.viewed = true;
      }
    }
    s += 1;
  }
  // take removed exactly the returned samples, read removed nothing
  assert!(ghost_agrees(c, m), "cache content differs from received - taken - evicted");
}

struct Run<const N: usize> {
  hist: Hist,
  c: Cache,
  m: Model<N>,
  seen: Seen,
}
fn run_new<const N: usize>(hist: Hist) -> Run<N> {
  Run {
    hist,
    c: new_cache(hist),
    m: model_new(),
    seen: Seen {
      max_len: 0,
      max_same_inst: 0,
      reborn: 0,
      latest_new: false,
      latest_notnew: false,
      read_state: false,
      disposed_state: false,
      dgc_mixed: false,
      avail_end: 0,
      evicted: 0,
      returned: 0,
      truncated: false,
    },
  }
}
/// one operation of a plan (the plan itself is unrolled by the macro: no loop over operations)
fn run_step<const N: usize>(r: &mut Run<N>, op: Op) {
  match op {
    Op::Arr { key, w, sn, kind } => step_arrival(&mut r.c, &mut r.m, &mut r.seen, r.hist, key, w, sn, kind),
    Op::Acc { take, sc, cond, max } => step_access(&mut r.c, &mut r.m, &mut r.seen, take, sc, cond, max),
  }
}
fn run_end<const N: usize>(r: Run<N>) -> Seen {
  let mut seen = r.seen;
  seen.avail_end = r.c.datasamples.len();
  core::mem::forget(r.c);
  seen
}

macro_rules! plan {
  ($name:ident, unwind $u:literal, slots $n:literal, $hist:expr, [$($op:expr),* $(,)?], |$s:ident| $($cover:expr, $why:literal);+) => {
    #[cfg_attr(kani, kani::proof, kani::unwind($u))]
    #[cfg_attr(kani, kani::stub(std::fmt::format, crate::verif_env::stub_format))]
    #[cfg_attr(kani, kani::stub(DataSampleCache::sort_by_sequence_number, super::verif_harness_dscache::stub_sort_by_sequence_number))]
    #[cfg_attr(kani, kani::stub(std::vec::Vec::with_capacity, crate::verif_env::stub_vec_with_capacity))]
    #[cfg_attr(kani, kani::stub(std::collections::VecDeque::with_capacity, super::verif_harness_dscache::stub_vecdeque_with_capacity))]
    #[cfg_attr(kani, kani::stub(std::vec::Vec::push, crate::verif_env::stub_vec_push))]
    #[cfg_attr(verif_replay, test)]
    fn $name() {
      vk::begin(stringify!($name));
      let mut r = run_new::<$n>($hist);
      $(run_step(&mut r, $op);)*
      let $s: Seen = run_end(r);
      $(vk_cover!($cover, $why);)+
      vk::end();
    }
  };
}

use Cn::{Any, NotRead};
use Kd::{D, V};
const KS: Kd = Kd::Sym;
const ALL: Mx = Mx::All;

// ================================================================== (a) KeepAll, one instance, rebirth
// Every arrival is Value-or-Dispose by the solver's choice (KS) unless the plan needs a fixed kind.
// three arrivals in ONE result, then a second read: READ / NOT_NEW
plan!(c08_plan_3arr_read_read, unwind 6, slots 3, Hist::KeepAll,
  [a(0, 1, 1, KS), a(0, 1, 2, KS), a(0, 1, 3, KS), rd(Any, ALL), rd(Any, ALL)],
  |s| s.max_same_inst == 3 && s.dgc_mixed && s.latest_new && s.latest_notnew && s.read_state && s.reborn == 1,
  "value, dispose, value: three samples of one instance (two generations) in one result; NEW then NOT_NEW, NOT_READ then READ");
// take everything, one more arrival, read: NEW iff that arrival was a rebirth
plan!(c08_plan_3arr_take_arr_read, unwind 6, slots 4, Hist::KeepAll,
  [a(0, 1, 1, KS), a(0, 1, 2, KS), a(0, 1, 3, KS), tk(Any, ALL), a(0, 1, 4, KS), rd(Any, ALL)],
  |s| s.max_same_inst == 3 && s.reborn == 2 && s.latest_new && s.avail_end == 1 && s.returned == 4,
  "dispose, value, dispose, take all three, value: reborn after the take, NEW again";
  s.latest_notnew && s.reborn == 1,
  "value, dispose, value, take all three, one more without rebirth: NOT_NEW");
// two rebirths, read twice
plan!(c08_plan_4arr_read_read, unwind 6, slots 4, Hist::KeepAll,
  [a(0, 1, 1, KS), a(0, 1, 2, KS), a(0, 1, 3, KS), a(0, 1, 4, KS), rd(Any, ALL), rd(Any, ALL)],
  |s| s.max_same_inst == 4 && s.reborn == 2 && s.latest_new && s.latest_notnew && s.read_state,
  "dispose, value, dispose, value: two rebirths, generations 0,1,1,2 in one result");
// read, take, then the rest: second and third access after the first
plan!(c08_plan_3arr_read_take_read, unwind 6, slots 3, Hist::KeepAll,
  [a(0, 1, 1, KS), a(0, 1, 2, KS), a(0, 1, 3, KS), rd(Any, Mx::N(2)), tk(NotRead, ALL), rd(Any, ALL), tk(Any, ALL)],
  |s| s.truncated && s.reborn == 1 && s.read_state && s.returned == 7 && s.avail_end == 0,
  "read 2 of 3, take(not_read) removes exactly the third, read returns the two READ ones, take removes them");

// read, two more arrivals, not_read selects exactly the new ones (NEW iff reborn in between), read all
plan!(c08_plan_read_arr_read, unwind 6, slots 4, Hist::KeepAll,
  [a(0, 1, 1, KS), a(0, 1, 2, KS), rd(Any, ALL), a(0, 1, 3, KS), a(0, 1, 4, KS), rd(NotRead, ALL), rd(Any, ALL)],
  |s| s.reborn == 2 && s.returned == 8 && s.max_same_inst == 4 && s.read_state && s.latest_new && s.latest_notnew,
  "dispose value | read | dispose value | not_read returns the two new ones, the newest NEW again; then all four READ / NOT_NEW");

// ================================================================== (b) two writers, one instance
// interleaved, equal sequence numbers
plan!(c08_plan_two_writers_take, unwind 6, slots 4, Hist::KeepAll,
  [a(0, 1, 1, V), a(0, 2, 1, V), a(0, 1, 2, D), a(0, 2, 2, V), tk(Any, ALL)],
  |s| s.max_same_inst == 4 && s.reborn == 1 && s.latest_new && s.avail_end == 0,
  "W1:V(1) W2:V(1) W1:D(2) W2:V(2) in one take");
// writer 2's sequence numbers below writer 1's: result order differs from arrival order
plan!(c08_plan_two_writers_crossed, unwind 6, slots 4, Hist::KeepAll,
  [a(0, 1, 5, KS), a(0, 2, 1, KS), a(0, 1, 6, KS), a(0, 2, 2, KS), rd(Any, ALL), tk(Any, ALL)],
  |s| s.max_same_inst == 4 && s.reborn == 2 && s.latest_new && s.latest_notnew && s.read_state && s.avail_end == 0,
  "W1:5 W2:1 W1:6 W2:2, read all then take all");

// ================================================================== (c) KeepLast(depth): takes interleaved with arrivals
// arrive depth, take all, arrive depth+1 more without taking, read, take
macro_rules! refill1 {
  ($name:ident, $hist:expr) => {
    plan!($name, unwind 6, slots 3, $hist,
      [a(0, 1, 1, KS), tk(Any, ALL), a(0, 1, 2, KS), a(0, 1, 3, KS), rd(Any, ALL), tk(Any, ALL)],
      |s| s.max_len == 1 && s.evicted == 1 && s.returned == 3 && s.avail_end == 0 && s.reborn == 1,
      "depth 1: take, two more arrivals, exactly the newest is available");
  };
}
refill1!(c08_plan_kl1_refill, Hist::KeepLast(1));
refill1!(c08_plan_unset_refill, Hist::Unset);
plan!(c08_plan_kl2_refill, unwind 6, slots 5, Hist::KeepLast(2),
  [a(0, 1, 1, KS), a(0, 1, 2, KS), tk(Any, ALL), a(0, 1, 3, KS), a(0, 1, 4, KS), a(0, 1, 5, KS), rd(Any, ALL), tk(Any, ALL)],
  |s| s.max_len == 2 && s.evicted == 1 && s.returned == 6 && s.avail_end == 0 && s.reborn == 2,
  "depth 2: take both, three more arrivals, exactly the two newest are available");
// arrive 2, take 1, arrive depth+1 more
macro_rules! partial1 {
  ($name:ident, $hist:expr) => {
    plan!($name, unwind 6, slots 4, $hist,
      [a(0, 1, 1, KS), a(0, 1, 2, KS), tk(Any, Mx::N(1)), a(0, 1, 3, KS), a(0, 1, 4, KS), rd(Any, ALL), tk(Any, ALL)],
      |s| s.max_len == 1 && s.evicted == 2 && s.returned == 3 && s.avail_end == 0,
      "depth 1: two arrivals, take_next_sample, two more arrivals");
  };
}
partial1!(c08_plan_kl1_partial, Hist::KeepLast(1));
partial1!(c08_plan_unset_partial, Hist::Unset);
plan!(c08_plan_kl2_partial, unwind 6, slots 5, Hist::KeepLast(2),
  [a(0, 1, 1, KS), a(0, 1, 2, KS), tk(Any, Mx::N(1)), a(0, 1, 3, KS), a(0, 1, 4, KS), a(0, 1, 5, KS), rd(Any, ALL), tk(Any, ALL)],
  |s| s.truncated && s.max_len == 2 && s.evicted == 2 && s.returned == 5 && s.avail_end == 0 && s.reborn == 2,
  "depth 2: two arrivals, take one, three more arrivals: the untaken old one is evicted, the two newest remain");

// read (not take) interleaved with arrivals: eviction removes READ samples, survivors keep their sample_state
plan!(c08_plan_kl2_read_arr_notread, unwind 6, slots 4, Hist::KeepLast(2),
  [a(0, 1, 1, KS), a(0, 1, 2, KS), rd(Any, ALL), a(0, 1, 3, KS), rd(NotRead, ALL), a(0, 1, 4, KS), tk(NotRead, ALL), rd(Any, ALL)],
  |s| s.evicted == 2 && s.returned == 5 && s.read_state && s.avail_end == 1 && s.reborn == 2,
  "depth 2: read two, arrival evicts a READ one, not_read returns the new one, arrival, take(not_read) takes only the unread one, read returns the READ survivor");
// depth 3 (thorough)
plan!(c08_plan_kl3_refill, unwind 8, slots 7, Hist::KeepLast(3),
  [a(0, 1, 1, KS), a(0, 1, 2, KS), a(0, 1, 3, KS), tk(Any, Mx::N(2)), a(0, 1, 4, KS), a(0, 1, 5, KS), a(0, 1, 6, KS), a(0, 1, 7, KS), rd(Any, ALL), tk(Any, ALL)],
  |s| s.truncated && s.max_len == 3 && s.evicted == 2 && s.returned == 8 && s.avail_end == 0 && s.reborn == 3,
  "depth 3: take 2 of 3, four more arrivals, exactly the three newest are available");

// ================================================================== (d) KeepLast(2), two instances
// (at most 4 live samples at any time: the container stand-in holds 4 entries)
plan!(c08_plan_kl2_two_instances, unwind 7, slots 6, Hist::KeepLast(2),
  [a(0, 1, 1, KS), a(1, 1, 2, KS), a(0, 1, 3, KS), tki(Sc::This(0), Any, ALL),
   a(0, 1, 4, KS), a(0, 1, 5, KS), a(0, 1, 6, KS), rd(Any, ALL), tki(Sc::Next(0), Any, ALL), rdi(Sc::This(0), Any, ALL), rdi(Sc::Next(1), Any, ALL)],
  |s| s.max_len == 3 && s.max_same_inst == 2 && s.evicted == 1 && s.returned == 8 && s.avail_end == 2 && s.reborn == 2,
  "take_instance(0), refill instance 0 beyond depth, read over both instances, take_instance(Next(0)), read_instance(0), read_instance(Next(1)) = nothing");
// KeepAll, two instances in one result, second access: both instances NOT_NEW
plan!(c08_plan_two_instances_read_read, unwind 6, slots 4, Hist::KeepAll,
  [a(0, 1, 1, KS), a(1, 1, 2, KS), a(0, 1, 3, KS), a(1, 1, 4, KS), rd(Any, ALL), rdi(Sc::Next(0), Any, ALL), tk(Any, ALL)],
  |s| s.max_len == 4 && s.max_same_inst == 2 && s.reborn == 1 && s.latest_new && s.latest_notnew && s.returned == 10 && s.disposed_state,
  "two instances, two samples each in one read; read_instance(Next(0)); take all: both instances NOT_NEW, all READ");

// ================================================================== (e) not_read after a partial read
plan!(c08_plan_not_read_after_partial, unwind 6, slots 2, Hist::KeepAll,
  [a(0, 1, 1, KS), a(0, 1, 2, KS), rd(Any, Mx::N(1)), rd(NotRead, ALL), rd(NotRead, ALL), rd(Any, ALL)],
  |s| s.truncated && s.returned == 4 && s.reborn == 1 && s.latest_new && s.latest_notnew,
  "read_next_sample, then not_read returns exactly the other one, then nothing, then any returns both READ");

// ================================================================== symbolic max_samples (thorough: ~3 min, 5 GB)
plan!(c08_plan_3arr_read_take_symmax, unwind 6, slots 3, Hist::KeepAll,
  [a(0, 1, 1, KS), a(0, 1, 2, KS), a(0, 1, 3, KS), rd(Any, ALL), tk(Any, Mx::Sym)],
  |s| s.truncated && s.returned == 5 && s.avail_end == 1 && s.reborn == 1,
  "read three, take with max_samples = 2 of 3");
plan!(c08_plan_kl2_take_symmax_refill, unwind 6, slots 4, Hist::KeepLast(2),
  [a(0, 1, 1, KS), a(0, 1, 2, KS), tk(Any, Mx::Sym), a(0, 1, 3, KS), a(0, 1, 4, KS)],
  |s| s.truncated && s.returned == 1 && s.avail_end == 2, "depth 2: take 1 of 2, then two more arrivals";
  s.returned == 0 && s.avail_end == 2 && s.evicted == 2, "take nothing (max_samples 0), two more arrivals evict both old ones");

// ================================================================== observation (not a violation of the text)
// stale instance_samples entries after a take of a NEWER sample make the next arrival evict a live one
plan!(c08_obs_over_eviction_after_take, unwind 6, slots 3, Hist::KeepLast(2),
  [a(0, 1, 1, KS), a(0, 1, 2, KS), rd(Any, Mx::N(1)), tk(NotRead, ALL), a(0, 1, 3, KS), rd(Any, ALL)],
  |s| s.avail_end == 1 && s.evicted == 1,
  "depth 2, two untaken changes received, only one available: more evicted than History requires");

// ================================================================== findings (FAIL on the unchanged tree, reproduce natively)
// DataSampleCache::mark_instances_viewed assigns `last_generation_accessed = <newest generation of THIS access>`
// unconditionally, so an access that returns only OLDER-generation samples of an instance moves the
// bookkeeping BACKWARDS; the most recent sample (generation already accessed, instance not reborn since) is
// then reported view_state NEW again.  DDS 1.4 2.2.2.5.1.8: NOT_NEW = "the DataReader has already accessed
// samples of the same instance and the instance has not been reborn since" (both readings in `MI` agree).
// The cover is the expected behaviour (reached once the defect is fixed).
// (1) read everything, take_next_sample, read again — one writer
plan!(c08_finding_view_state_backwards_take, unwind 6, slots 3, Hist::KeepAll,
  [a(0, 1, 1, V), a(0, 1, 2, D), a(0, 1, 3, V), rd(Any, ALL), tk(Any, Mx::N(1)), rd(Any, ALL)],
  |s| s.latest_notnew && s.returned == 6, "third access reports the most recent sample NOT_NEW");
// (2) the same with reads only
plan!(c08_finding_view_state_backwards_read, unwind 6, slots 3, Hist::KeepAll,
  [a(0, 1, 1, V), a(0, 1, 2, D), a(0, 1, 3, V), rd(Any, ALL), rd(Any, Mx::N(1)), rd(Any, ALL)],
  |s| s.latest_notnew && s.returned == 7, "third access reports the most recent sample NOT_NEW");
// (3) the documented loop `while let Some(s) = reader.read_next_sample()` (= read(1, not_read)) with two
// writers whose sequence numbers cross: W2's newer-generation sample is read BEFORE W1's older one
plan!(c08_finding_view_state_backwards_next_sample_loop, unwind 6, slots 3, Hist::KeepAll,
  [a(0, 1, 5, V), a(0, 2, 1, D), a(0, 2, 2, V), rd(NotRead, Mx::N(1)), rd(NotRead, Mx::N(1)), rd(NotRead, Mx::N(1)), rd(Any, ALL)],
  |s| s.latest_notnew && s.returned == 6, "the final read reports the most recent sample NOT_NEW");
