// SELFTEST: the container shim against a bitmask reference model — injected into lib.rs.
// Under Kani `VMap` is the array-backed shim (what every other harness trusts); under
// native replay the same code runs on std::collections::BTreeMap, i.e. a counterexample
// replay tells whether the shim or the reference model is wrong.
#![allow(dead_code, unused_imports, clippy::all)]
use crate::{
  verif_env::{BTreeMap as VMap, BTreeSet as VSet},
  verif_vk as vk,
  verif_vk::vk_cover,
};

const K: usize = 6; // key universe 0..K

struct Model {
  present: [bool; K],
  val: [u8; K],
}
impl Model {
  fn len(&self) -> usize {
    let mut n = 0;
    let mut i = 0;
    while i < K {
      if self.present[i] {
        n += 1;
      }
      i += 1;
    }
    n
  }
  fn first(&self) -> Option<usize> {
    let mut r = None;
    let mut i = K;
    while i > 0 {
      i -= 1;
      if self.present[i] {
        r = Some(i);
      }
    }
    r
  }
  fn last(&self) -> Option<usize> {
    let mut r = None;
    let mut i = 0;
    while i < K {
      if self.present[i] {
        r = Some(i);
      }
      i += 1;
    }
    r
  }
}

fn agree(m: &VMap<u8, u8>, r: &Model) {
  assert!(m.len() == r.len(), "len");
  assert!(m.is_empty() == (r.len() == 0));
  let mut i = 0;
  while i < K {
    let k = i as u8;
    assert!(m.contains_key(&k) == r.present[i], "contains_key");
    assert!(m.get(&k).copied() == if r.present[i] { Some(r.val[i]) } else { None }, "get");
    i += 1;
  }
  assert!(m.first_key_value().map(|(k, _)| *k as usize) == r.first(), "first_key_value");
  assert!(m.last_key_value().map(|(k, _)| *k as usize) == r.last(), "last_key_value");
  // iteration: strictly increasing, exactly the present keys with their values
  let mut prev: i32 = -1;
  let mut n = 0;
  for (k, v) in m.iter() {
    assert!((*k as i32) > prev, "iter order");
    prev = *k as i32;
    assert!((*k as usize) < K && r.present[*k as usize] && r.val[*k as usize] == *v, "iter content");
    n += 1;
  }
  assert!(n == r.len(), "iter count");
  assert!(m.iter().next_back().map(|(k, _)| *k as usize) == r.last(), "next_back");
}

fn step(m: &mut VMap<u8, u8>, r: &mut Model) {
  let k = vk::range_u8(0, (K - 1) as u8);
  let ki = k as usize;
  match vk::range_u8(0, 4) {
    0 => {
      let v: u8 = vk::any();
      let old = m.insert(k, v);
      assert!(old == if r.present[ki] { Some(r.val[ki]) } else { None }, "insert return");
      r.present[ki] = true;
      r.val[ki] = v;
    }
    1 => {
      let old = m.remove(&k);
      assert!(old == if r.present[ki] { Some(r.val[ki]) } else { None }, "remove return");
      r.present[ki] = false;
    }
    2 => {
      // range lo..=hi (inclusive), also via (Excluded, Unbounded)
      let hi = vk::range_u8(0, (K - 1) as u8);
      vk::assume(k <= hi);
      let mut cnt = 0;
      let mut first = None;
      for (kk, _) in m.range(k..=hi) {
        if first.is_none() {
          first = Some(*kk);
        }
        assert!(*kk >= k && *kk <= hi, "range bound");
        cnt += 1;
      }
      let mut exp = 0;
      let mut expfirst = None;
      let mut i = K;
      while i > 0 {
        i -= 1;
        if r.present[i] && i >= ki && i <= hi as usize {
          exp += 1;
          expfirst = Some(i as u8);
        }
      }
      assert!(cnt == exp, "range count");
      assert!(first == expfirst, "range first");
      use core::ops::Bound::{Excluded, Unbounded};
      let mut cnt2 = 0;
      for (kk, _) in m.range((Excluded(k), Unbounded)) {
        assert!(*kk > k);
        cnt2 += 1;
      }
      let mut exp2 = 0;
      let mut i = 0;
      while i < K {
        if r.present[i] && i > ki {
          exp2 += 1;
        }
        i += 1;
      }
      assert!(cnt2 == exp2, "open range count");
    }
    3 => {
      // split_off(k): everything >= k leaves; append brings it back
      let mut tail = m.split_off(&k);
      let mut i = 0;
      while i < K {
        let kk = i as u8;
        assert!(m.contains_key(&kk) == (r.present[i] && i < ki), "split_off head");
        assert!(tail.contains_key(&kk) == (r.present[i] && i >= ki), "split_off tail");
        i += 1;
      }
      m.append(&mut tail);
      assert!(tail.is_empty(), "append leaves other empty");
    }
    _ => {
      // entry API
      let v: u8 = vk::any();
      let e = m.entry(k).or_insert(v);
      if !r.present[ki] {
        r.present[ki] = true;
        r.val[ki] = v;
      }
      assert!(*e == r.val[ki], "entry or_insert");
    }
  }
}

#[cfg_attr(kani, kani::proof, kani::unwind(8))]
#[cfg_attr(verif_replay, test)]
fn selftest_shim_three_ops() {
  vk::begin("selftest_shim_three_ops");
  let mut m: VMap<u8, u8> = VMap::new();
  let mut r = Model {
    present: [false; K],
    val: [0; K],
  };
  step(&mut m, &mut r);
  agree(&m, &r);
  step(&mut m, &mut r);
  agree(&m, &r);
  step(&mut m, &mut r);
  agree(&m, &r);
  vk_cover!(m.len() == 3, "three live entries");
  vk_cover!(m.len() == 0, "emptied again");
  vk::end();
}

/// One step from an ARBITRARY valid map (symbolic slots): covers every reachable shape up
/// to CAP entries.
#[cfg_attr(kani, kani::proof, kani::unwind(8))]
#[cfg_attr(verif_replay, test)]
fn selftest_shim_inductive() {
  vk::begin("selftest_shim_inductive");
  use crate::verif_env::CAP;
  let len = vk::range_usize(0, CAP - 1);
  let mut keys: [Option<u8>; CAP] = [None; CAP];
  let mut vals: [Option<u8>; CAP] = [None; CAP];
  let mut r = Model {
    present: [false; K],
    val: [0; K],
  };
  let mut prev: i32 = -1;
  let mut j = 0;
  while j < CAP {
    if j < len {
      let k = vk::range_u8(0, (K - 1) as u8);
      vk::assume(k as i32 > prev);
      prev = k as i32;
      let v: u8 = vk::any();
      keys[j] = Some(k);
      vals[j] = Some(v);
      r.present[k as usize] = true;
      r.val[k as usize] = v;
    }
    j += 1;
  }
  let mut m = crate::verif_env::map_from_parts(len, keys, vals);
  assert!(crate::verif_env::map_is_valid(&m));
  agree(&m, &r);
  step(&mut m, &mut r);
  assert!(crate::verif_env::map_is_valid(&m), "shim invariant (sorted, unique, len consistent) broken");
  agree(&m, &r);
  vk_cover!(m.len() == CAP, "map full");
  vk::end();
}

#[cfg_attr(kani, kani::proof, kani::unwind(8))]
#[cfg_attr(verif_replay, test)]
fn selftest_shim_set_and_retain() {
  vk::begin("selftest_shim_set_and_retain");
  let mut s: VSet<u8> = VSet::new();
  let a = vk::range_u8(0, 5);
  let b = vk::range_u8(0, 5);
  let c = vk::range_u8(0, 5);
  assert!(s.insert(a));
  assert!(s.insert(b) == (b != a));
  assert!(s.insert(c) == (c != a && c != b));
  let lo = if a < b { a } else { b };
  let lo = if lo < c { lo } else { c };
  let hi = if a > b { a } else { b };
  let hi = if hi > c { hi } else { c };
  assert!(s.iter().next() == Some(&lo));
  assert!(s.iter().next_back() == Some(&hi));
  assert!(s.first() == Some(&lo) && s.last() == Some(&hi));
  let t = vk::range_u8(0, 5);
  s.retain(|x| *x != t);
  assert!(!s.contains(&t));
  assert!(s.contains(&a) == (a != t));
  let mut m: VMap<u8, u8> = VMap::new();
  m.insert(a, 1);
  m.insert(b, 2);
  m.retain(|k, v| {
    *v += 1;
    *k != t
  });
  assert!(m.contains_key(&a) == (a != t));
  assert!(m.get(&b).copied() == if b != t { Some(3) } else { None });
  assert!(m.pop_first().map(|(k, _)| k) == if a != t || b != t { Some(if a != t && (b == t || a <= b) { a } else { b }) } else { None });
  vk_cover!(a != b && b != c && a != c, "three distinct");
  vk::end();
}
