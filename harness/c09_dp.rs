// C09 helper — child module of crate::dds::participant (sees the private fields of
// DomainParticipantWeak).  A SimpleDataReader holds a Subscriber and a Topic, both of which
// hold a DomainParticipantWeak; the reader code under test (try_take_one_with and friends)
// never upgrades it.  This builds one that points at no participant.
#![allow(dead_code, unused_imports, clippy::all)]
use super::*;

pub(crate) fn dummy_dp_weak(guid: GUID) -> DomainParticipantWeak {
  DomainParticipantWeak {
    dpi: Weak::new(),
    #[cfg(feature = "security")]
    domain_id: 0,
    guid,
    #[cfg(feature = "security")]
    qos: QosPolicies::qos_none(),
  }
}
