// C01 / C03 kernel harnesses on the real RtpsWriterProxy — child module of
// crate::rtps::rtps_writer_proxy (sees private fields `changes`, `ack_base`).
#![allow(dead_code, unused_imports, clippy::all)]
use super::*;
use crate::{
  structure::guid::{EntityKind, GuidPrefix},
  verif_vk as vk,
  verif_vk::vk_cover,
};

pub(crate) const W: i64 = crate::verif_cfg::SN_WINDOW; // width of the sequence-number window

pub(crate) fn sn(origin: i64, off: i64) -> SequenceNumber {
  SequenceNumber::new(origin + off)
}

pub(crate) fn writer_guid(n: u8) -> GUID {
  // struct literal instead of GuidPrefix::new: its 12-iteration copy loop would force a
  // larger unwind bound on every symbolic loop of the harness
  GUID::new(
    GuidPrefix {
      bytes: [n, 1, 2, 3, 4, 5, 6, 7, 8, 9, 10, 11],
    },
    EntityId::new([0, 0, n], EntityKind::WRITER_WITH_KEY_USER_DEFINED),
  )
}

pub(crate) fn fresh_proxy(n: u8) -> RtpsWriterProxy {
  RtpsWriterProxy::new(writer_guid(n), Vec::new(), Vec::new(), EntityId::UNKNOWN)
}

// Ghost: bit i of `known` <=> SN origin+i is received or declared unavailable.
fn ghost_known(p: &RtpsWriterProxy, origin: i64) -> u32 {
  let mut m = 0u32;
  let mut i = 0;
  while i < W + 3 {
    if p.should_ignore_change(sn(origin, i)) {
      m |= 1 << i;
    }
    i += 1;
  }
  m
}

fn least_unknown(known: u32) -> i64 {
  // least i >= 0 with bit i clear (bits >= W+3 are clear by construction)
  let mut i = 0;
  let mut res = W + 3;
  let mut found = false;
  while i < W + 3 {
    if !found && known & (1 << i) == 0 {
      res = i;
      found = true;
    }
    i += 1;
  }
  res
}

#[derive(Clone, Copy)]
pub(crate) enum Op {
  Data(i64),          // offset
  GapSingle(i64),     // set_irrelevant_change
  GapRange(i64, i64), // irrelevant_changes_range(from, until_before)
  HbFirst(i64),       // irrelevant_changes_up_to(first)
}

pub(crate) fn any_op() -> Op {
  let a = vk::range_i64(0, W);
  match vk::range_u8(0, 3) {
    0 => Op::Data(a),
    1 => Op::GapSingle(a),
    2 => {
      let b = vk::range_i64(0, W + 1);
      Op::GapRange(a, b)
    }
    _ => Op::HbFirst(a),
  }
}

fn op_mask(op: Op, lo_all_known_below: i64) -> u32 {
  // the SNs (as window bits) this operation makes known
  let mut m = 0u32;
  let mut i = 0;
  while i < W + 3 {
    let hit = match op {
      Op::Data(a) | Op::GapSingle(a) => i == a,
      Op::GapRange(a, b) => a <= i && i < b,
      Op::HbFirst(f) => i < f,
    };
    if hit {
      m |= 1 << i;
    }
    i += 1;
  }
  let _ = lo_all_known_below;
  m
}

pub(crate) fn apply(p: &mut RtpsWriterProxy, origin: i64, op: Op, ts: Timestamp) {
  match op {
    Op::Data(a) => {
      // exactly the order Reader::process_received_data uses
      if !p.should_ignore_change(sn(origin, a)) {
        p.received_changes_add(sn(origin, a), ts);
      }
    }
    Op::GapSingle(a) => p.set_irrelevant_change(sn(origin, a)),
    Op::GapRange(a, b) => p.irrelevant_changes_range(sn(origin, a), sn(origin, b)),
    Op::HbFirst(f) => p.irrelevant_changes_up_to(sn(origin, f)),
  }
}

/// Arbitrary proxy state satisfying the representation invariant
///   I: changes is a valid sorted map, ack_base >= 1, ack_base not in changes
/// with ack_base and all keys inside the window [origin, origin+W+1].
fn any_valid_proxy(origin: i64) -> RtpsWriterProxy {
  let mut p = fresh_proxy(1);
  make_any_valid(&mut p, origin);
  p
}

/// Overwrite the sequence-number state of an existing proxy with an arbitrary valid one
/// (used by the Reader object harnesses to start from any reachable proxy state).
pub(crate) fn make_any_valid(p: &mut RtpsWriterProxy, origin: i64) {
  use crate::verif_env::CAP;
  let len = vk::range_usize(0, CAP);
  let mut keys: [Option<SequenceNumber>; CAP] = [None; CAP];
  let mut vals: [Option<Option<Timestamp>>; CAP] = [None; CAP];
  let mut prev: i64 = -1;
  for j in 0..CAP {
    if j < len {
      let off = vk::range_i64(0, W + 1);
      vk::assume(off > prev);
      prev = off;
      keys[j] = Some(sn(origin, off));
      vals[j] = Some(if vk::any::<bool>() {
        Some(Timestamp::from_ticks(vk::any::<u64>()))
      } else {
        None
      });
    }
  }
  p.changes = crate::verif_env::map_from_parts(len, keys, vals);
  let base_off = vk::range_i64(0, W + 1);
  p.ack_base = sn(origin, base_off);
  vk::assume(p.ack_base >= SequenceNumber::new(1));
  vk::assume(!p.changes.contains_key(&p.ack_base));
}

/// known-mask of a proxy over SNs 0..n (bit i <=> SN i received or unavailable)
pub(crate) fn known_mask(p: &RtpsWriterProxy, n: i64) -> u64 {
  let mut m = 0u64;
  let mut i = 0;
  while i < n {
    if p.should_ignore_change(SequenceNumber::new(i)) {
      m |= 1u64 << i;
    }
    i += 1;
  }
  m
}

fn invariant(p: &RtpsWriterProxy) -> bool {
  crate::verif_env::map_is_valid(&p.changes)
    && p.ack_base >= SequenceNumber::new(1)
    && !p.changes.contains_key(&p.ack_base)
}

/// ONE INDUCTIVE STEP from any valid state: covers histories of any length (up to CAP
/// live out-of-order entries).
fn inductive_step(origin: i64) {
  let mut p = any_valid_proxy(origin);
  let known_pre = ghost_known(&p, origin);
  let base_pre = p.all_ackable_before();
  // frontier == least unknown SN holds in the pre-state by I (sanity of the abstraction)
  assert!(i64::from(base_pre) - origin == least_unknown(known_pre) || i64::from(base_pre) < origin);
  vk::assume(i64::from(base_pre) >= origin);

  let op = any_op();
  // HEARTBEAT.first / GAP below 1 are rejected by the Reader before they get here
  let ts = Timestamp::from_ticks(vk::any::<u64>());
  let dup = match op {
    Op::Data(a) => p.should_ignore_change(sn(origin, a)),
    _ => false,
  };
  apply(&mut p, origin, op, ts);

  let known_post = ghost_known(&p, origin);
  let expected = known_pre | op_mask(op, 0);
  // (1) at-most-once / no invention: exactly the announced SNs became known
  assert!(known_post == expected, "known set after the step differs from pre ∪ op");
  // (2) frontier monotone
  assert!(p.all_ackable_before() >= base_pre, "ack frontier moved backwards");
  // (3) frontier exact: lowest SN neither received nor declared unavailable
  assert!(
    i64::from(p.all_ackable_before()) - origin == least_unknown(known_post),
    "ack frontier is not the lowest unknown sequence number"
  );
  // (4) invariant re-established
  assert!(invariant(&p), "representation invariant broken");
  vk_cover!(dup, "duplicate DATA ignored");
  vk_cover!(
    i64::from(p.all_ackable_before()) - i64::from(base_pre) >= 2,
    "frontier jumps by >= 2"
  );
  vk_cover!(p.changes.len() >= crate::verif_env::CAP - 1, "map nearly full");
}

macro_rules! inductive {
  ($name:ident, $origin:expr) => {
    #[cfg_attr(kani, kani::proof, kani::unwind(11))]
    #[cfg_attr(verif_replay, test)]
    fn $name() {
      vk::begin(stringify!($name));
      inductive_step($origin);
      vk::end();
    }
  };
}
inductive!(c01_proxy_inductive_o0, 0);
inductive!(c01_proxy_inductive_o31, (1i64 << 31) - 4);
inductive!(c01_proxy_inductive_o32, (1i64 << 32) - 4);
inductive!(c01_proxy_inductive_o62, 1i64 << 62);

/// Top of the sequence-number space (C03 "any first/last", C06 "extreme in its numeric fields"):
/// ONE step from any valid state whose window [origin, origin+W+1] ends at i64::MAX.  Decided: no
/// panic / overflow, the known set grows by exactly the announced SNs, the frontier does not move
/// backwards and never passes a SN that is not known.  (The frontier cannot be "one past
/// i64::MAX", so exactness is only demanded while an unknown SN is left in the window.)
fn step_at_top() {
  const N: i64 = W + 2; // SNs in the window; the last one is i64::MAX
  let origin = i64::MAX - (W + 1);
  fn known_top(p: &RtpsWriterProxy, origin: i64) -> u32 {
    let mut m = 0u32;
    let mut i = 0;
    while i < N {
      if p.should_ignore_change(sn(origin, i)) {
        m |= 1 << i;
      }
      i += 1;
    }
    m
  }
  let mut p = any_valid_proxy(origin);
  let known_pre = known_top(&p, origin);
  let base_pre = p.all_ackable_before();
  vk::assume(i64::from(base_pre) >= origin);
  let op = any_op();
  let ts = Timestamp::from_ticks(vk::any::<u64>());
  apply(&mut p, origin, op, ts);
  let known_post = known_top(&p, origin);
  let window: u32 = (1u32 << N) - 1;
  assert!(known_post == (known_pre | op_mask(op, 0)) & window, "known set after the step differs from pre ∪ op");
  assert!(p.all_ackable_before() >= base_pre, "ack frontier moved backwards");
  let lu = least_unknown(known_post | !window);
  if lu < N {
    assert!(i64::from(p.all_ackable_before()) - origin == lu, "ack frontier is not the lowest unknown sequence number");
  } else {
    assert!(p.all_ackable_before() >= SequenceNumber::new(i64::MAX), "everything up to i64::MAX known, frontier below the top");
  }
  assert!(crate::verif_env::map_is_valid(&p.changes) && p.ack_base >= SequenceNumber::new(1));
  vk_cover!(lu >= N, "window known up to i64::MAX");
  vk_cover!(matches!(op, Op::Data(a) if a == W), "DATA next to the top");
}
#[cfg_attr(kani, kani::proof, kani::unwind(11))]
#[cfg_attr(verif_replay, test)]
fn c03_proxy_step_top() {
  vk::begin("c03_proxy_step_top");
  step_at_top();
  vk::end();
}

/// k operations from the initial proxy (guards against an invariant no history reaches,
/// and exercises the real constructor).
fn sequence_from_initial(k: usize) {
  let origin = 0i64;
  let mut p = fresh_proxy(1);
  let mut known: u32 = 1; // SN 0 (< 1) counts as known from the start
  let mut base_prev = p.all_ackable_before();
  let mut ts = 1u64;
  let mut step = 0;
  while step < k {
    let op = any_op();
    apply(&mut p, origin, op, Timestamp::from_ticks(ts));
    ts += 1;
    known |= op_mask(op, 0);
    assert!(ghost_known(&p, origin) == known, "known set diverged from the ghost");
    assert!(p.all_ackable_before() >= base_prev, "ack frontier moved backwards");
    assert!(
      i64::from(p.all_ackable_before()) == least_unknown(known),
      "ack frontier is not the lowest unknown sequence number"
    );
    assert!(invariant(&p), "invariant not reached from the initial state");
    base_prev = p.all_ackable_before();
    step += 1;
  }
  vk_cover!(i64::from(p.all_ackable_before()) >= 3, "frontier advanced to >= 3");
  vk_cover!(p.changes.len() >= 2, "two out-of-order entries pending");
}

#[cfg_attr(kani, kani::proof, kani::unwind(11))]
#[cfg_attr(verif_replay, test)]
fn c01_proxy_sequence_k3() {
  vk::begin("c01_proxy_sequence_k3");
  sequence_from_initial(3);
  vk::end();
}

#[cfg_attr(kani, kani::proof, kani::unwind(11))]
#[cfg_attr(verif_replay, test)]
fn c01_proxy_sequence_k5() {
  vk::begin("c01_proxy_sequence_k5");
  sequence_from_initial(5);
  vk::end();
}

// ------------------------------------------------------------------ C03: missing_seqnums
/// From ANY valid proxy state, missing_seqnums(first,last) == the SNs of [first,last] that
/// are neither received nor declared unavailable, strictly increasing (the ACKNACK code
/// relies on the order: it takes `.first()` as the set base).
fn missing_seqnums_step(origin: i64) {
  let p = any_valid_proxy(origin);
  vk::assume(i64::from(p.all_ackable_before()) >= origin);
  let first = vk::range_i64(0, W + 1);
  let last = vk::range_i64(0, W + 1);
  vk::assume(origin + first >= 1);
  let m = p.missing_seqnums(sn(origin, first), sn(origin, last));
  // one pass over the result: collect it as a bitmask over the window, check the order
  let mut got: u32 = 0;
  let mut prev: i64 = -1;
  let mut gap_between = false;
  let mut j = 0usize;
  while j < (W + 3) as usize {
    if j < m.len() {
      let off = i64::from(m[j]) - origin;
      assert!(off >= 0 && off < W + 3, "missing_seqnums returned an SN outside the window");
      assert!(off > prev, "missing_seqnums not strictly increasing");
      if prev >= 0 && off - prev >= 2 {
        gap_between = true;
      }
      prev = off;
      got |= 1u32 << off;
    }
    j += 1;
  }
  assert!(m.len() <= (W + 3) as usize);
  let mut expected: u32 = 0;
  let mut i = 0;
  while i < W + 3 {
    if first <= i && i <= last && !p.should_ignore_change(sn(origin, i)) {
      expected |= 1u32 << i;
    }
    i += 1;
  }
  assert!(got == expected, "missing_seqnums differs from the unknown SNs in the advertised range");
  vk_cover!(gap_between, "a known SN between two missing ones");
  vk_cover!(m.is_empty() && first <= last, "advertised range completely known");
  core::mem::forget(m);
}

#[cfg_attr(kani, kani::proof, kani::unwind(11))]
#[cfg_attr(kani, kani::stub(std::vec::Vec::push, crate::verif_env::stub_vec_push))]
#[cfg_attr(verif_replay, test)]
fn c03_missing_seqnums_o0() {
  vk::begin("c03_missing_seqnums_o0");
  missing_seqnums_step(0);
  vk::end();
}
#[cfg_attr(kani, kani::proof, kani::unwind(11))]
#[cfg_attr(kani, kani::stub(std::vec::Vec::push, crate::verif_env::stub_vec_push))]
#[cfg_attr(verif_replay, test)]
fn c03_missing_seqnums_o32() {
  vk::begin("c03_missing_seqnums_o32");
  missing_seqnums_step((1i64 << 32) - 3);
  vk::end();
}


