// Environment stand-in for structure::time — child module of that file.
#![allow(dead_code, unused_imports, clippy::all)]
use super::*;

// A strictly increasing clock (the TopicCache documents that it assumes receive
// timestamps are unique).  Start well above zero so that "now - 10 s" is meaningful.
pub(crate) static mut NOW_TICKS: u64 = 1000u64 << 32;

/// kani::stub target for Timestamp::now
pub(crate) fn stub_now() -> Timestamp {
  unsafe {
    NOW_TICKS += 1;
    Timestamp::from_ticks(NOW_TICKS)
  }
}

/// kani::stub target for std::time::Instant::now (only the mio-extras Timer asks)
pub(crate) fn stub_instant_now() -> std::time::Instant {
  unsafe { core::mem::zeroed() }
}
