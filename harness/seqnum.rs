// NumberSet kernel harnesses for C03 (the 256-element ACKNACK window) — child of
// crate::structure::sequence_number.  (Codec and iterator semantics of NumberSet are
// C14's harnesses.)
#![allow(dead_code, unused_imports, clippy::all)]
use super::*;
use crate::{verif_env, verif_env::CAP, verif_vk as vk, verif_vk::vk_cover};

/// Flattened view of a NumberSet's private parts for harnesses in other modules:
/// (num_bits, bitmap.len(), word 0, word 1).
pub(crate) fn ns_parts<N>(ns: &NumberSet<N>) -> (u32, usize, u32, u32)
where
  N: Clone + Debug + Hash + PartialEq + Eq + NumOps + From<i64>,
{
  let bm = &ns.bitmap;
  (
    ns.num_bits,
    bm.len(),
    if bm.len() > 0 { bm[0] } else { 0 },
    if bm.len() > 1 { bm[1] } else { 0 },
  )
}

fn put(keys: &mut [Option<SequenceNumber>; CAP], i: usize, v: SequenceNumber) {
  if i < CAP {
    keys[i] = Some(v);
  }
}

fn bit_is_set(ns: &SequenceNumberSet, off: i64) -> bool {
  // independent of NumberSet::iter: RTPS 9.4.2.6 bit numbering, MSB first
  if off < 0 || off >= ns.num_bits as i64 {
    return false;
  }
  let w = (off / 32) as usize;
  let b = (off % 32) as u32;
  let mut res = false;
  let mut i = 0;
  while i < 8 {
    if i == w && i < ns.bitmap.len() {
      res = ns.bitmap[i] & (1u32 << (31 - b)) != 0;
    }
    i += 1;
  }
  res
}

fn popcount(ns: &SequenceNumberSet) -> u32 {
  let mut n = 0;
  let mut i = 0;
  while i < 8 {
    if i < ns.bitmap.len() {
      n += ns.bitmap[i].count_ones();
    }
    i += 1;
  }
  n
}

/// from_base_and_set(BASE, {BASE, BASE+x, BASE+SPAN}) with x symbolic in (0, SPAN):
/// == S ∩ [BASE, BASE+256); num_bits <= 256; never a member >= BASE+256.
/// BASE and SPAN are concrete per instance (a symbolic num_bits is intractable: measured
/// 687 s vs 3 s), the middle element and therefore the bitmap content is symbolic.
fn from_base_and_set_case(base: i64, span: i64) {
  let x = vk::range_i64(1, span - 1);
  let mut keys: [Option<SequenceNumber>; CAP] = [None; CAP];
  keys[0] = Some(SequenceNumber::new(base));
  keys[1] = Some(SequenceNumber::new(base + x));
  put(&mut keys, 2, SequenceNumber::new(base + span)); // needs CAP >= 3 (true wherever this harness is listed)
  let set = verif_env::set_from_parts(3, keys);
  let ns = SequenceNumberSet::from_base_and_set(SequenceNumber::new(base), &set);
  assert!(ns.base() == SequenceNumber::new(base), "base changed");
  assert!(ns.num_bits <= 256, "more than 256 bits");
  assert!(ns.bitmap.len() as u32 == (ns.num_bits + 31) / 32, "bitmap length inconsistent with num_bits");
  assert!(bit_is_set(&ns, 0), "base member lost");
  assert!(bit_is_set(&ns, x) == (x < 256), "middle member wrong");
  assert!(bit_is_set(&ns, span) == (span < 256), "last member wrong");
  let expected = 1 + (x < 256) as u32 + (span < 256) as u32;
  assert!(popcount(&ns) == expected, "a sequence number that is not in the set is reported");
  // through the public iterator as well: first and last member
  assert!(ns.iter().next() == Some(SequenceNumber::new(base)));
  vk_cover!(x >= 256, "middle member beyond the window");
  vk_cover!(x < 256, "middle member inside the window");
  core::mem::forget(set);
}

macro_rules! fbs {
  ($name:ident, $base:expr, $span:expr, $unwind:expr) => {
    #[cfg_attr(kani, kani::proof, kani::unwind($unwind))]
    #[cfg_attr(verif_replay, test)]
    fn $name() {
      vk::begin(stringify!($name));
      from_base_and_set_case($base, $span);
      vk::end();
    }
  };
}
// spans >= 258 so that both covers are satisfiable; bases across the 32-bit word boundary
fbs!(c03_from_base_and_set_b1_s300, 1, 300, 10);
fbs!(c03_from_base_and_set_b31_s258, (1i64 << 31) - 2, 258, 10);
fbs!(c03_from_base_and_set_b32_s300, (1i64 << 32) - 1, 300, 10);

/// Small spans (everything inside the window): exact membership incl. the boundary 255/256.
fn from_base_and_set_small(base: i64, span: i64) {
  let x = vk::range_i64(1, span - 1);
  let mut keys: [Option<SequenceNumber>; CAP] = [None; CAP];
  keys[0] = Some(SequenceNumber::new(base + x));
  keys[1] = Some(SequenceNumber::new(base + span));
  let set = verif_env::set_from_parts(2, keys);
  // base itself NOT in the set: "base may or may not be a member"
  let ns = SequenceNumberSet::from_base_and_set(SequenceNumber::new(base), &set);
  assert!(ns.base() == SequenceNumber::new(base));
  assert!(ns.num_bits <= 256);
  assert!(!bit_is_set(&ns, 0), "base reported although not in the set");
  assert!(bit_is_set(&ns, x), "member lost");
  assert!(bit_is_set(&ns, span) == (span < 256));
  assert!(popcount(&ns) == 1 + (span < 256) as u32);
  vk_cover!(x + 1 == span, "adjacent members");
  core::mem::forget(set);
}
macro_rules! fbs_small {
  ($name:ident, $base:expr, $span:expr) => {
    #[cfg_attr(kani, kani::proof, kani::unwind(10))]
    #[cfg_attr(verif_replay, test)]
    fn $name() {
      vk::begin(stringify!($name));
      from_base_and_set_small($base, $span);
      vk::end();
    }
  };
}
fbs_small!(c03_from_base_and_set_small_s2, 1, 2);
fbs_small!(c03_from_base_and_set_small_s32, 5, 32);
fbs_small!(c03_from_base_and_set_small_s33, 5, 33);
fbs_small!(c03_from_base_and_set_small_s255, 7, 255);
fbs_small!(c03_from_base_and_set_small_s256, 7, 256);

/// base < 1 is never put on the wire (RTPS 8.3.5.5): result is the empty set at base 1.
#[cfg_attr(kani, kani::proof, kani::unwind(10))]
#[cfg_attr(verif_replay, test)]
fn c03_from_base_and_set_nonpositive_base() {
  vk::begin("c03_from_base_and_set_nonpositive_base");
  let base = vk::range_i64(-3, 0);
  let mut keys: [Option<SequenceNumber>; CAP] = [None; CAP];
  keys[0] = Some(SequenceNumber::new(base + 1));
  let set = verif_env::set_from_parts(1, keys);
  let ns = SequenceNumberSet::from_base_and_set(SequenceNumber::new(base), &set);
  assert!(ns.base() >= SequenceNumber::new(1), "set base below 1 would go on the wire");
  vk_cover!(base == 0);
  core::mem::forget(set);
  vk::end();
}


/// Build a SequenceNumberSet from raw parts (num_bits <= 32): what a parsed GAP/ACKNACK
/// carries.  `bits` uses RTPS numbering: MSB of the word = base.
pub(crate) fn sn_set_from_bits(base: i64, num_bits: u32, bits: u32) -> SequenceNumberSet {
  let mask = if num_bits == 0 { 0 } else { !0u32 << (32 - num_bits) };
  NumberSet {
    bitmap_base: SequenceNumber::new(base),
    num_bits,
    bitmap: if num_bits == 0 { Vec::new() } else { vec![bits & mask] },
  }
}
