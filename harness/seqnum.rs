// NumberSet kernel harnesses (C03 256-window, C14 set semantics) — child of
// crate::structure::sequence_number.
#![allow(dead_code, unused_imports, clippy::all)]
use super::*;
use crate::{verif_env, verif_vk as vk, verif_vk::vk_cover};

/// from_base_and_set(b, {b+x, b+y}) == {b+x, b+y} ∩ [b, b+256), for b >= 1
#[cfg_attr(kani, kani::proof, kani::unwind(10))]
#[cfg_attr(kani, kani::stub(alloc::vec::from_elem, crate::verif_env::stub_vec_from_elem))]
#[cfg_attr(verif_replay, test)]
fn c03_from_base_and_set_two() {
  vk::begin("c03_from_base_and_set_two");
  let base = vk::range_i64(1, 1 << 40);
  let x = vk::range_i64(0, 400);
  let y = vk::range_i64(0, 400);
  vk::assume(x < y);
  let mut set = verif_env::BTreeSet::new();
  set.insert(SequenceNumber::new(base + x));
  set.insert(SequenceNumber::new(base + y));
  let ns = SequenceNumberSet::from_base_and_set(SequenceNumber::new(base), &set);
  assert!(ns.base() == SequenceNumber::new(base));
  assert!(ns.num_bits <= 256);
  let mut it = ns.iter();
  let a = it.next();
  let b = it.next();
  let c = it.next();
  assert!(c.is_none(), "more members than the source set");
  if x < 256 {
    assert!(a == Some(SequenceNumber::new(base + x)), "member inside the window lost");
  } else {
    assert!(a.is_none(), "member beyond base+255 reported");
  }
  if y < 256 {
    assert!(b == Some(SequenceNumber::new(base + y)));
  } else {
    assert!(b.is_none(), "member beyond base+255 reported");
  }
  vk_cover!(x < 256 && y >= 256, "window truncated at 256");
  vk_cover!(y == 255, "last representable member");
  vk::end();
}
