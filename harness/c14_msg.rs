// C14 whole-message harnesses — child module of crate::rtps::message (sees the private
// MessageBuilder::submessages).
//
// Pattern: a Message of a CONCRETE SHAPE (sequence of submessage kinds, byte order, number-set
// sizes, payload length concrete per instance; field values symbolic) is built by the real
// MessageBuilder / create_submessage functions exactly as Writer / Reader do, serialised by the
// real Writable impl of Message, and the bytes are
//   (1) walked as a foreign receiver walks them (kind, flags, octetsToNextHeader of every
//       submessage header must lead exactly to the next header / the end of the message),
//   (2) parsed by the real parser: single-submessage shapes by Message::read_from_buffer,
//       multi-submessage shapes by Header::read_from_buffer + the real
//       Submessage::read_from_buffer called on the real rest of the message at every submessage
//       boundary (see roundtrip_l for why); the parsed header / submessages must equal the
//       built ones (header, flags, body field by field; original_bytes ignored; DATA payload up
//       to the zero padding to 4) and the parser must continue exactly at the next header.
// write(read(b)) == b is decided per body in c14_bodies.rs / c14_submsg.rs (re-serialising a
// parsed WHOLE message is intractable: see "outside" in tools/props/C14.py).
// Frame-level special cases (octetsToNextHeader == 0, INFO_TS without a body, what "last
// submessage" means) only exist in messages of several submessages, hence these harnesses.
#![allow(dead_code, unused_imports, unused_macros, unused_variables, clippy::all)]
use super::*;
use crate::{
  dds::with_key::datawriter::WriteOptions,
  messages::submessages::{
    elements::serialized_payload::SerializedPayload,
    submessage::{ReaderSubmessage, WriterSubmessage},
  },
  rtps::submessage::verif_harness_c14_submsg::{any_entity_id, any_guid_prefix, any_sn, framed_len, must},
  structure::sequence_number::{
    verif_harness_c14_numset::{any_fn_set, any_sn_set, bytes_eq, fn_set_eq, sn_set_eq},
    FragmentNumberSet,
  },
  verif_vk as vk,
  verif_vk::vk_cover,
  RepresentationIdentifier,
};

// ------------------------------------------------------------------------- environment
// speedy's slice entry points (read_from_buffer_with_ctx / write_to_vec_with_ctx) keep their
// position as raw pointers and decide "bytes left" by pointer subtraction, which CBMC cannot
// fold: every length after the first read looks symbolic.  speedy's stream entry points (the
// stand-in of /verif/harness/c15_qos.rs) avoid that but cost ~6 s of symbolic execution per
// 20-byte struct (io::Read / io::Write plumbing, io::Error construction on every step).
// Under Kani the two entry points are therefore redirected to the two trivial Reader / Writer
// objects below (a slice + an integer position; a Vec + its length).  Every Readable /
// Writable impl of RustDDS runs unchanged on top of them; speedy's own reader/writer objects
// are the part replaced (they are on the trusted list).  Native replay runs the originals.
pub(crate) struct SliceReader<'a, C> {
  ctx: C,
  data: &'a [u8],
  pos: usize,
}
/// speedy's own end-of-input error (its constructor is private: let speedy's stream reader
/// produce one from an empty input)
fn eof<E: From<speedy::Error>>() -> E {
  let empty: &[u8] = &[];
  match <u8 as speedy::Readable<speedy::LittleEndian>>::read_from_stream_unbuffered_with_ctx(speedy::LittleEndian {}, empty) {
    Err(e) => E::from(e),
    Ok(_) => unreachable!(),
  }
}
impl<'a, C: speedy::Context> speedy::Reader<'a, C> for SliceReader<'a, C> {
  fn read_bytes(&mut self, output: &mut [u8]) -> Result<(), C::Error> {
    let n = output.len();
    if self.data.len() - self.pos < n {
      return Err(eof());
    }
    output.copy_from_slice(&self.data[self.pos..self.pos + n]);
    self.pos += n;
    Ok(())
  }
  fn peek_bytes(&mut self, output: &mut [u8]) -> Result<(), C::Error> {
    let n = output.len();
    if self.data.len() - self.pos < n {
      return Err(eof());
    }
    output.copy_from_slice(&self.data[self.pos..self.pos + n]);
    Ok(())
  }
  fn context(&self) -> &C {
    &self.ctx
  }
  fn context_mut(&mut self) -> &mut C {
    &mut self.ctx
  }
}
pub(crate) trait StubReadable<'a, C: speedy::Context>: Sized + speedy::Readable<'a, C> {
  fn stub_read_from_buffer_with_ctx(context: C, buffer: &'a [u8]) -> Result<Self, C::Error> {
    // the original's up-front check
    if buffer.len() < Self::minimum_bytes_needed() {
      return Err(eof());
    }
    let mut r = SliceReader {
      ctx: context,
      data: buffer,
      pos: 0,
    };
    Self::read_from(&mut r)
  }
}
impl<'a, C: speedy::Context, T: speedy::Readable<'a, C>> StubReadable<'a, C> for T {}

/// The original runs write_to twice (a size-calculating pass, then the writing pass into a
/// Vec of exactly that capacity), and Submessage::write_to serialises its body with a NESTED
/// write_to_vec_with_ctx: 4 body serialisations per submessage of a Message.  Here: ONE pass
/// of the same write_to into a Vec of concrete capacity WCAP (more bytes: outside the bound).
/// The slack also keeps `Bytes::from(vec)` (SerializedPayload -> Bytes in data_msg) out of the
/// pointer-tagging "promotable" representation.
pub(crate) const WCAP: usize = 192;
pub(crate) struct VecWriter<C> {
  ctx: C,
  v: Vec<u8>,
}
impl<C: speedy::Context> speedy::Writer<C> for VecWriter<C> {
  fn write_bytes(&mut self, slice: &[u8]) -> Result<(), C::Error> {
    let n = self.v.len();
    let k = slice.len();
    crate::verif_vk::assume(n + k < WCAP);
    unsafe {
      core::ptr::copy_nonoverlapping(slice.as_ptr(), self.v.as_mut_ptr().add(n), k);
      self.v.set_len(n + k);
    }
    Ok(())
  }
  fn context(&self) -> &C {
    &self.ctx
  }
  fn context_mut(&mut self) -> &mut C {
    &mut self.ctx
  }
}
pub(crate) trait StubWritable<C: speedy::Context>: speedy::Writable<C> {
  #[cfg(kani)]
  fn stub_write_to_vec_with_ctx(&self, context: C) -> Result<Vec<u8>, C::Error> {
    let mut w = VecWriter {
      ctx: context,
      v: Vec::with_capacity_in(WCAP, std::alloc::Global),
    };
    self.write_to(&mut w)?;
    Ok(w.v)
  }
}
impl<C: speedy::Context, T: speedy::Writable<C> + ?Sized> StubWritable<C> for T {}

/// kani::stub target for speedy::Writer::write_slice.  The enum InterpreterSubmessage is
/// niche-encoded; CBMC's symbolic executor cannot fold its discriminant once the value has been
/// stored (the value is a union for CBMC), so Writable for InterpreterSubmessage is explored for
/// all four variants at every INFO_* position.  Three are cheap; INFO_REPLY writes two
/// Vec<Locator> of "unknown" length through write_slice (measured: +100 s per INFO_* submessage).
/// No shape contains an INFO_REPLY: a slice of non-byte elements reaching the writer is reported
/// as a FAILURE (panic), i.e. the solver has to prove that path infeasible instead of the
/// symbolic executor unrolling it.
pub(crate) trait StubWriter<C: speedy::Context>: speedy::Writer<C> {
  fn stub_write_slice<T>(&mut self, slice: &[T]) -> Result<(), C::Error>
  where
    T: speedy::Writable<C>,
  {
    if T::speedy_is_primitive() && core::mem::size_of::<T>() == 1 {
      let bytes = unsafe { core::slice::from_raw_parts(slice.as_ptr() as *const u8, slice.len()) };
      self.write_bytes(bytes)
    } else {
      panic!("harness environment: a slice of non-byte elements (INFO_REPLY locator list) is serialised, no shape has one")
    }
  }
}
impl<C: speedy::Context, W: speedy::Writer<C> + ?Sized> StubWriter<C> for W {}

/// The `Bytes` the parser is given.  Under Kani: the STATIC representation over the very same
/// memory (clone = copy of pointer and length, drop = nothing); Submessage::read_from_buffer
/// clones / splits / drops its input about ten times per submessage and each such operation on
/// a reference-counted Bytes costs 1-2 s of symbolic execution (the backing-storage kind is
/// not under test).  The caller keeps `data` alive.  Natively an exact copy.
#[cfg(kani)]
pub(crate) fn bytes_of(data: &[u8]) -> Bytes {
  Bytes::from_static(unsafe { &*(data as *const [u8]) })
}
#[cfg(not(kani))]
pub(crate) fn bytes_of(data: &[u8]) -> Bytes {
  Bytes::copy_from_slice(data)
}

/// BytesMut::freeze yields the "promotable" Bytes kind (pointer tagging, > 5 GB in CBMC);
/// same bytes in the Arc-backed kind instead (as /verif/harness/frag.rs).
#[cfg(kani)]
pub(crate) fn stub_freeze(this: bytes::BytesMut) -> Bytes {
  let r = bytes_of(&this[..]);
  core::mem::forget(this);
  r
}


// Vec<Submessage> lives on the heap, which CBMC models as a BYTE array: the enum discriminants
// of SubmessageBody / WriterSubmessage / ... written there are no longer constants for the
// symbolic executor when read back (field sensitivity does not look through the unions Rust
// enums are encoded as), so Writable for Message would be explored for EVERY submessage kind
// at every position (measured: [HEARTBEAT] alone does not serialise in 400 s).  Under Kani
// Vec::push therefore places the elements of a Vec<Submessage> in a TYPED static array
// (capacity SM_SLOTS, more is outside the bound); every other Vec gets the concrete-capacity
// push of verif_env.  The pushed values, their order and the length are untouched.  Such a Vec
// must never be dropped (the harnesses forget every Message).
#[cfg(kani)]
const SM_INIT: Submessage = Submessage {
  header: SubmessageHeader {
    kind: SubmessageKind::PAD,
    flags: 0,
    content_length: 0,
  },
  body: SubmessageBody::Interpreter(InterpreterSubmessage::InfoTimestamp(
    InfoTimestamp { timestamp: None },
    BitFlags::EMPTY,
  )),
  original_bytes: None,
};
pub(crate) const SM_SLOTS: usize = 4;
#[cfg(kani)]
#[repr(C)]
struct Slots {
  s0: Submessage,
  s1: Submessage,
  s2: Submessage,
  s3: Submessage,
}
#[cfg(kani)]
const SLOTS_INIT: Slots = Slots {
  s0: SM_INIT,
  s1: SM_INIT,
  s2: SM_INIT,
  s3: SM_INIT,
};
#[cfg(kani)]
fn sm_blank() -> Submessage {
  Submessage {
    header: SubmessageHeader {
      kind: SubmessageKind::PAD,
      flags: 0,
      content_length: 0,
    },
    body: SubmessageBody::Interpreter(InterpreterSubmessage::InfoTimestamp(
      InfoTimestamp { timestamp: None },
      BitFlags::EMPTY,
    )),
    original_bytes: None,
  }
}
#[cfg(kani)]
impl Slots {
  fn new() -> Self {
    Slots {
      s0: sm_blank(),
      s1: sm_blank(),
      s2: sm_blank(),
      s3: sm_blank(),
    }
  }
}
#[cfg(kani)]
static mut SM_PTRS: [*mut Submessage; 2] = [core::ptr::null_mut(); 2];
#[cfg(kani)]
static mut SM_NEXT: usize = 0;

#[cfg(kani)]
pub(crate) fn stub_push<T, A: std::alloc::Allocator + Clone>(v: &mut Vec<T, A>, x: T) {
  if core::mem::size_of::<T>() == core::mem::size_of::<Submessage>()
    && core::mem::align_of::<T>() == core::mem::align_of::<Submessage>()
  {
    unsafe {
      if v.capacity() == 0 {
        let k = SM_NEXT;
        SM_NEXT += 1;
        assert!(k < 2, "harness environment: more than 2 Vec<Submessage> in one harness");
        let p = SM_PTRS[k] as *mut T;
        let a = v.allocator().clone();
        let old = core::ptr::read(v);
        core::mem::forget(old);
        core::ptr::write(v, Vec::from_raw_parts_in(p, 0, SM_SLOTS, a));
      }
      let n = v.len();
      kani::assume(n < SM_SLOTS);
      core::ptr::write(v.as_mut_ptr().add(n), x);
      v.set_len(n + 1);
    }
  } else {
    crate::verif_env::stub_vec_push(v, x)
  }
}

macro_rules! msg_proof {
  ($name:ident, $unwind:expr, $body:expr) => {
    #[cfg_attr(kani, kani::proof, kani::unwind($unwind))]
    #[cfg_attr(kani, kani::stub(std::fmt::format, crate::verif_env::stub_format))]
    #[cfg_attr(
      kani,
      kani::stub(
        speedy::Readable::read_from_buffer_with_ctx,
        crate::rtps::message::verif_harness_c14_msg::StubReadable::stub_read_from_buffer_with_ctx
      )
    )]
    #[cfg_attr(
      kani,
      kani::stub(
        speedy::Writable::write_to_vec_with_ctx,
        crate::rtps::message::verif_harness_c14_msg::StubWritable::stub_write_to_vec_with_ctx
      )
    )]
    #[cfg_attr(
      kani,
      kani::stub(
        speedy::Writer::write_slice,
        crate::rtps::message::verif_harness_c14_msg::StubWriter::stub_write_slice
      )
    )]
    #[cfg_attr(kani, kani::stub(bytes::BytesMut::freeze, crate::rtps::message::verif_harness_c14_msg::stub_freeze))]
    #[cfg_attr(kani, kani::stub(std::vec::Vec::push, crate::rtps::message::verif_harness_c14_msg::stub_push))]
    #[cfg_attr(verif_replay, test)]
    fn $name() {
      crate::verif_vk::begin(stringify!($name));
      #[cfg(kani)]
      let mut slots_a = Slots::new();
      #[cfg(kani)]
      let mut slots_b = Slots::new();
      #[cfg(kani)]
      unsafe {
        SM_NEXT = 0;
        SM_PTRS[0] = core::ptr::addr_of_mut!(slots_a.s0);
        SM_PTRS[1] = core::ptr::addr_of_mut!(slots_b.s0);
      }
      $body;
      #[cfg(kani)]
      {
        core::mem::forget(slots_a);
        core::mem::forget(slots_b);
      }
      crate::verif_vk::end();
    }
  };
}
pub(crate) use msg_proof;

// ------------------------------------------------------------------------- equality

fn round4(n: usize) -> usize {
  (n + 3) / 4 * 4
}

fn opposite(e: Endianness) -> Endianness {
  if e == Endianness::LittleEndian {
    Endianness::BigEndian
  } else {
    Endianness::LittleEndian
  }
}

/// `b` is `a` followed by zero bytes up to the next multiple of 4
fn eq_up_to_padding(a: &[u8], b: &[u8]) -> bool {
  if b.len() != round4(a.len()) {
    return false;
  }
  let mut ok = true;
  let mut i = 0;
  while i < b.len() {
    if i < a.len() {
      ok &= a[i] == b[i];
    } else {
      ok &= b[i] == 0;
    }
    i += 1;
  }
  ok
}

fn bytes_same(a: &[u8], b: &[u8]) -> bool {
  if a.len() != b.len() {
    return false;
  }
  let mut ok = true;
  let mut i = 0;
  while i < a.len() {
    ok &= a[i] == b[i];
    i += 1;
  }
  ok
}

/// inline QoS: same parameter ids in the same order, values equal up to zero padding to 4
fn qos_eq(a: &Option<ParameterList>, b: &Option<ParameterList>) -> bool {
  match (a, b) {
    (None, None) => true,
    (Some(x), Some(y)) => {
      if x.parameters.len() != y.parameters.len() {
        return false;
      }
      let mut ok = true;
      let mut i = 0;
      while i < x.parameters.len() {
        ok &= x.parameters[i].parameter_id == y.parameters[i].parameter_id;
        ok &= eq_up_to_padding(&x.parameters[i].value, &y.parameters[i].value);
        i += 1;
      }
      ok
    }
    _ => false,
  }
}

/// `sent` is what was built, `got` what was parsed from its bytes
pub(crate) fn body_eq(sent: &SubmessageBody, got: &SubmessageBody) -> bool {
  match (sent, got) {
    (SubmessageBody::Interpreter(a), SubmessageBody::Interpreter(b)) => match (a, b) {
      (InterpreterSubmessage::InfoDestination(x, fx), InterpreterSubmessage::InfoDestination(y, fy)) => {
        x == y && fx == fy
      }
      (InterpreterSubmessage::InfoTimestamp(x, fx), InterpreterSubmessage::InfoTimestamp(y, fy)) => {
        x == y && fx == fy
      }
      (InterpreterSubmessage::InfoSource(x, fx), InterpreterSubmessage::InfoSource(y, fy)) => x == y && fx == fy,
      _ => false,
    },
    (SubmessageBody::Writer(a), SubmessageBody::Writer(b)) => match (a, b) {
      (WriterSubmessage::Heartbeat(x, fx), WriterSubmessage::Heartbeat(y, fy)) => x == y && fx == fy,
      (WriterSubmessage::HeartbeatFrag(x, fx), WriterSubmessage::HeartbeatFrag(y, fy)) => x == y && fx == fy,
      (WriterSubmessage::Gap(x, fx), WriterSubmessage::Gap(y, fy)) => {
        x.reader_id == y.reader_id
          && x.writer_id == y.writer_id
          && x.gap_start == y.gap_start
          && sn_set_eq(&x.gap_list, &y.gap_list)
          && fx == fy
      }
      (WriterSubmessage::Data(x, fx), WriterSubmessage::Data(y, fy)) => {
        x.reader_id == y.reader_id
          && x.writer_id == y.writer_id
          && x.writer_sn == y.writer_sn
          && qos_eq(&x.inline_qos, &y.inline_qos)
          && match (&x.serialized_payload, &y.serialized_payload) {
            (None, None) => true,
            (Some(p), Some(q)) => eq_up_to_padding(p, q),
            _ => false,
          }
          && fx == fy
      }
      (WriterSubmessage::DataFrag(x, fx), WriterSubmessage::DataFrag(y, fy)) => {
        x.reader_id == y.reader_id
          && x.writer_id == y.writer_id
          && x.writer_sn == y.writer_sn
          && x.fragment_starting_num == y.fragment_starting_num
          && x.fragments_in_submessage == y.fragments_in_submessage
          && x.data_size == y.data_size
          && x.fragment_size == y.fragment_size
          && qos_eq(&x.inline_qos, &y.inline_qos)
          && bytes_same(&x.serialized_payload, &y.serialized_payload)
          && fx == fy
      }
      _ => false,
    },
    (SubmessageBody::Reader(a), SubmessageBody::Reader(b)) => match (a, b) {
      (ReaderSubmessage::AckNack(x, fx), ReaderSubmessage::AckNack(y, fy)) => {
        x.reader_id == y.reader_id
          && x.writer_id == y.writer_id
          && sn_set_eq(&x.reader_sn_state, &y.reader_sn_state)
          && x.count == y.count
          && fx == fy
      }
      (ReaderSubmessage::NackFrag(x, fx), ReaderSubmessage::NackFrag(y, fy)) => {
        x.reader_id == y.reader_id
          && x.writer_id == y.writer_id
          && x.writer_sn == y.writer_sn
          && fn_set_eq(&x.fragment_number_state, &y.fragment_number_state)
          && x.count == y.count
          && fx == fy
      }
      _ => false,
    },
    _ => false,
  }
}

// ------------------------------------------------------------------------- the round trip

/// kinds[i] / lens[i]: kind byte and body length (octetsToNextHeader) expected for
/// submessage i; `aligned`: every body length must be a multiple of 4 (false only for a
/// trailing DATA_FRAG, whose payload RustDDS does not pad).
pub(crate) const WIRE: usize = 136;
fn roundtrip(msg: &Message, e: Endianness, kinds: &[u8], flags: &[u8], lens: &[usize], aligned: bool) {
  roundtrip_l(msg, e, kinds, flags, lens, aligned, if kinds.len() == 1 { 2 } else { 4 })
}
fn roundtrip_l(msg: &Message, e: Endianness, kinds: &[u8], flags: &[u8], lens: &[usize], aligned: bool, level: u8) {
  let n = kinds.len();
  assert!(msg.submessages.len() == n, "the builder did not add one submessage per call");
  // the context handed to the top level must not matter: submessage headers carry their own flag
  let outer = opposite(e);
  let bytes = must!(msg.write_to_vec_with_ctx(outer), "Message does not serialise");
  let mut total = 20;
  let mut i = 0;
  while i < n {
    total += 4 + lens[i];
    i += 1;
  }
  assert!(bytes.len() == total, "message size != 20 + sum of (4 + body)");
  assert!(
    bytes[0] == b'R' && bytes[1] == b'T' && bytes[2] == b'P' && bytes[3] == b'S',
    "RTPS magic"
  );

  // (1) what a foreign receiver does: follow octetsToNextHeader from header to header
  let mut off = 20;
  i = 0;
  while i < n {
    assert!(off + 4 <= bytes.len(), "submessage header beyond the end of the message");
    assert!(bytes[off] == kinds[i], "submessage kind byte");
    assert!(bytes[off + 1] == msg.submessages[i].header.flags, "flags byte differs from the built header");
    assert!(
      (bytes[off + 1] & 1 == 1) == (e == Endianness::LittleEndian),
      "endianness flag differs from the byte order asked for"
    );
    let l = framed_len(&bytes[off..off + 4]);
    assert!(
      l == lens[i],
      "octetsToNextHeader on the wire differs from the number of body bytes that follow"
    );
    assert!(!aligned || l % 4 == 0, "submessage body is not a multiple of 4 bytes");
    // RTPS 9.4.5.1.3: 0 means "to the end of the message" unless PAD / INFO_TS
    if l == 0 && kinds[i] != 0x01 && kinds[i] != 0x09 {
      off = bytes.len();
    } else {
      off += 4 + l;
    }
    i += 1;
  }
  assert!(off == bytes.len(), "the submessage headers do not tile the message");

  if level < 2 {
    return;
  }
  // (2) the real parser.  The serialised bytes live in a heap Vec, where CBMC does not keep
  // constants: kind / flags / octetsToNextHeader read back from there look symbolic to the
  // symbolic executor and every Bytes::split_to of the parser becomes intractable.  The bytes
  // are therefore copied into a stack array and the framing bytes -- each of which was just
  // ASSERTED equal to its expected concrete value by the walk above -- are overwritten with
  // that concrete value (nothing is assumed: only values proved equal are replaced).
  let mut wire = [0u8; WIRE];
  assert!(total <= WIRE, "harness: shape larger than the wire buffer");
  wire[..total].copy_from_slice(&bytes[..total]);
  wire[0] = b'R';
  wire[1] = b'T';
  wire[2] = b'P';
  wire[3] = b'S';
  assert!(
    bytes[4] == ProtocolVersion::THIS_IMPLEMENTATION.major && bytes[5] == ProtocolVersion::THIS_IMPLEMENTATION.minor,
    "protocol version bytes"
  );
  wire[4] = ProtocolVersion::THIS_IMPLEMENTATION.major;
  wire[5] = ProtocolVersion::THIS_IMPLEMENTATION.minor;
  off = 20;
  i = 0;
  while i < n {
    let fl = flags[i] | if e == Endianness::LittleEndian { 1 } else { 0 };
    assert!(bytes[off + 1] == fl, "flags byte differs from what the shape prescribes");
    wire[off] = kinds[i];
    wire[off + 1] = fl;
    let lb = if e == Endianness::LittleEndian {
      (lens[i] as u16).to_le_bytes()
    } else {
      (lens[i] as u16).to_be_bytes()
    };
    wire[off + 2] = lb[0];
    wire[off + 3] = lb[1];
    off += 4 + lens[i];
    i += 1;
  }
  if level == 4 {
    // (2') Message::read_from_buffer's loop unrolled by the harness: the real
    // Submessage::read_from_buffer is called on the real rest of the message at every
    // submessage boundary; between the calls the (asserted) position is replaced by its
    // concrete twin so that the next call starts from a constant offset.
    let whole = bytes_of(&wire[..total]);
    let hdr = must!(Header::read_from_buffer(&whole), "RTPS header does not parse");
    assert!(hdr.valid(), "emitted RTPS header is not valid");
    assert!(hdr == msg.header, "RTPS header differs after write/read");
    let mut off = 20;
    i = 0;
    while i < n {
      let mut rest = whole.slice(off..);
      let before = rest.len();
      let r = must!(Submessage::read_from_buffer(&mut rest), "emitted submessage does not parse");
      assert!(
        before - rest.len() == 4 + lens[i],
        "the parser does not continue at the next submessage header"
      );
      match &r {
        Some(g) => {
          let s = &msg.submessages[i];
          assert!(g.header == s.header, "submessage header (kind, flags, length) differs after write/read");
          assert!(body_eq(&s.body, &g.body), "submessage body differs after write/read");
          match &g.original_bytes {
            Some(ob) => assert!(ob.len() == 4 + lens[i], "original_bytes is not header + body"),
            None => panic!("parsed submessage without original_bytes"),
          }
        }
        None => panic!("emitted submessage is skipped by the parser"),
      }
      core::mem::forget(r);
      core::mem::forget(rest);
      off += 4 + lens[i];
      i += 1;
    }
    assert!(off == whole.len());
    core::mem::forget(whole);
    return;
  }
  let b = bytes_of(&wire[..total]);
  let back = must!(Message::read_from_buffer(&b), "emitted message does not parse");
  assert!(back.header == msg.header, "RTPS header differs after write/read");
  assert!(
    back.submessages.len() == n,
    "number of submessages differs after write/read"
  );
  i = 0;
  while i < n {
    let s = &msg.submessages[i];
    let g = &back.submessages[i];
    assert!(g.header == s.header, "submessage header (kind, flags, length) differs after write/read");
    assert!(body_eq(&s.body, &g.body), "submessage body differs after write/read");
    match &g.original_bytes {
      Some(ob) => assert!(ob.len() == 4 + lens[i], "original_bytes is not header + body"),
      None => panic!("parsed submessage without original_bytes"),
    }
    i += 1;
  }

  core::mem::forget(back);
  core::mem::forget(b);
}

// ------------------------------------------------------------------------- shapes

fn any_ts() -> Timestamp {
  Timestamp::from_ticks(vk::any::<u64>())
}

fn hb(b: MessageBuilder, e: Endianness, fin: bool, live: bool) -> MessageBuilder {
  b.heartbeat_msg(
    any_entity_id(),
    any_sn(),
    any_sn(),
    vk::any::<i32>(),
    e,
    any_entity_id(),
    fin,
    live,
  )
}

/// [HEARTBEAT] alone (Writer::handle_heartbeat_tick ...), flag combination concrete
fn shape_hb(e: Endianness, fin: bool, live: bool) {
  let msg = hb(MessageBuilder::new(), e, fin, live).add_header_and_build(any_guid_prefix());
  roundtrip(&msg, e, &[0x07], &[(fin as u8) << 1 | (live as u8) << 2], &[28], true);
  vk_cover!(msg.header.guid_prefix.bytes[11] == 0xfe, "a guid prefix");
  core::mem::forget(msg);
}

/// [INFO_DST, INFO_TS, HEARTBEAT]; with_ts == false: INFO_TS carries the Invalidate flag and
/// has NO body (octetsToNextHeader == 0 in the middle of the message)
fn shape_dst_ts_hb(e: Endianness, with_ts: bool) {
  let ts = if with_ts { Some(any_ts()) } else { None };
  let b = MessageBuilder::new()
    .dst_submessage(e, any_guid_prefix())
    .ts_msg(e, ts);
  let msg = hb(b, e, false, false).add_header_and_build(any_guid_prefix());
  roundtrip(&msg, e, &[0x0e, 0x09, 0x07], &[0, if with_ts { 0 } else { 2 }, 0], &[12, if with_ts { 8 } else { 0 }, 28], true);
  vk_cover!(msg.header.guid_prefix.bytes[0] == 0x52, "a guid prefix");
  core::mem::forget(msg);
}

/// zero-length INFO_TS FIRST: [INFO_TS(invalidate), HEARTBEAT]
fn shape_ts0_hb(e: Endianness) {
  let b = MessageBuilder::new().ts_msg(e, None);
  let msg = hb(b, e, true, false).add_header_and_build(any_guid_prefix());
  roundtrip(&msg, e, &[0x09, 0x07], &[2, 2], &[0, 28], true);
  vk_cover!(msg.header.guid_prefix.bytes[0] == 0x52, "a guid prefix");
  core::mem::forget(msg);
}

/// zero-length INFO_TS LAST: [INFO_DST, INFO_TS(invalidate)]
fn shape_dst_ts0(e: Endianness) {
  let msg = MessageBuilder::new()
    .dst_submessage(e, any_guid_prefix())
    .ts_msg(e, None)
    .add_header_and_build(any_guid_prefix());
  roundtrip(&msg, e, &[0x0e, 0x09], &[0, 2], &[12, 0], true);
  vk_cover!(msg.header.guid_prefix.bytes[0] == 0x52, "a guid prefix");
  core::mem::forget(msg);
}

/// [INFO_TS, GAP]: nb == 0: the real gap_msg_before (empty gap list); nb > 0: a Gap with any
/// gap list of nb bits through the real Gap::create_submessage (what gap_msg does after
/// from_base_and_set, which has its own harnesses)
fn shape_ts_gap(e: Endianness, nb: u32) {
  let b = MessageBuilder::new().ts_msg(e, Some(any_ts()));
  let reader = GUID::new(any_guid_prefix(), any_entity_id());
  let b = if nb == 0 {
    b.gap_msg_before(any_sn(), any_entity_id(), e, reader)
  } else {
    let gap = Gap {
      reader_id: reader.entity_id,
      writer_id: any_entity_id(),
      gap_start: any_sn(),
      gap_list: any_sn_set(nb),
    };
    let mut b = b;
    match gap.create_submessage(BitFlags::<GAP_Flags>::from_endianness(e)) {
      Some(s) => b.submessages.push(s),
      None => panic!("create_submessage refused a Gap"),
    }
    b
  };
  let msg = b.add_header_and_build(any_guid_prefix());
  let words = ((nb + 31) / 32) as usize;
  roundtrip(&msg, e, &[0x09, 0x08], &[0, 0], &[8, 28 + 4 * words], true);
  vk_cover!(msg.header.guid_prefix.bytes[0] == 0x52, "a guid prefix");
  core::mem::forget(msg);
}

fn reader_message(prefix: GuidPrefix) -> Message {
  // as Reader::send_acknack_to / send_nackfrags_to
  Message::new(Header {
    protocol_id: ProtocolId::default(),
    protocol_version: ProtocolVersion::THIS_IMPLEMENTATION,
    vendor_id: VendorId::THIS_IMPLEMENTATION,
    guid_prefix: prefix,
  })
}

/// [INFO_DST, ACKNACK] as Reader::send_acknack_to builds it (RustDDS itself always uses LE
/// there; the BE instances build the same with the other flag)
fn shape_dst_acknack(e: Endianness, nb: u32, fin: bool) {
  let mut msg = reader_message(any_guid_prefix());
  let info_dst = InfoDestination {
    guid_prefix: any_guid_prefix(),
  };
  msg.add_submessage(info_dst.create_submessage(BitFlags::<INFODESTINATION_Flags>::from_endianness(e)));
  let acknack = AckNack {
    reader_id: any_entity_id(),
    writer_id: any_entity_id(),
    reader_sn_state: any_sn_set(nb),
    count: vk::any::<i32>(),
  };
  let mut flags = BitFlags::<ACKNACK_Flags>::from_endianness(e);
  if fin {
    flags |= ACKNACK_Flags::Final;
  }
  msg.add_submessage(acknack.create_submessage(flags));
  let words = ((nb + 31) / 32) as usize;
  roundtrip(&msg, e, &[0x0e, 0x06], &[0, (fin as u8) << 1], &[12, 24 + 4 * words], true);
  vk_cover!(msg.header.guid_prefix.bytes[0] == 0x52, "a guid prefix");
  core::mem::forget(msg);
}

/// [INFO_DST, NACKFRAG, NACKFRAG] as Reader::send_nackfrags_to
fn shape_dst_nackfrag2(e: Endianness, nb1: u32, nb2: u32) {
  let mut msg = reader_message(any_guid_prefix());
  let info_dst = InfoDestination {
    guid_prefix: any_guid_prefix(),
  };
  msg.add_submessage(info_dst.create_submessage(BitFlags::<INFODESTINATION_Flags>::from_endianness(e)));
  let flags = BitFlags::<NACKFRAG_Flags>::from_endianness(e);
  let mut k = 0;
  while k < 2 {
    let nf = NackFrag {
      reader_id: any_entity_id(),
      writer_id: any_entity_id(),
      writer_sn: any_sn(),
      fragment_number_state: any_fn_set(if k == 0 { nb1 } else { nb2 }),
      count: vk::any::<i32>(),
    };
    msg.add_submessage(nf.create_submessage(flags));
    k += 1;
  }
  let w1 = ((nb1 + 31) / 32) as usize;
  let w2 = ((nb2 + 31) / 32) as usize;
  roundtrip(&msg, e, &[0x0e, 0x12, 0x12], &[0, 0, 0], &[12, 28 + 4 * w1, 28 + 4 * w2], true);
  vk_cover!(msg.header.guid_prefix.bytes[0] == 0x52, "a guid prefix");
  core::mem::forget(msg);
}

/// a sample whose serialized payload is 4 header bytes + `n` value bytes, all symbolic
fn any_change(n: usize, key: bool) -> CacheChange {
  let mut value = [0u8; 8];
  let mut i = 0;
  while i < n {
    value[i] = vk::any();
    i += 1;
  }
  let sp = SerializedPayload {
    representation_identifier: RepresentationIdentifier {
      bytes: [vk::any(), vk::any()],
    },
    representation_options: [vk::any(), vk::any()],
    value: crate::verif_env::shared_bytes(&value[..n]),
  };
  let dds = if key {
    DDSData::new_disposed_by_key(crate::structure::cache_change::ChangeKind::NotAliveDisposed, sp)
  } else {
    DDSData::new(sp)
  };
  CacheChange::new(
    GUID::new(any_guid_prefix(), any_entity_id()),
    any_sn(),
    WriteOptions::default(),
    dds,
  )
}

/// [INFO_TS, DATA, HEARTBEAT] as Writer::send_cache_change builds it for a sample without
/// inline QoS; serialized payload = 4 + n bytes (padded to 4 on the wire)
fn shape_ts_data_hb(e: Endianness, n: usize) {
  let cc = any_change(n, false);
  let b = MessageBuilder::new()
    .ts_msg(e, Some(any_ts()))
    .data_msg(&cc, any_entity_id(), cc.writer_guid, e, None);
  let msg = hb(b, e, false, false).add_header_and_build(cc.writer_guid.prefix);
  roundtrip(&msg, e, &[0x09, 0x15, 0x07], &[0, 4, 0], &[8, 20 + round4(4 + n), 28], true);
  vk_cover!(msg.header.guid_prefix.bytes[0] == 0x52, "a guid prefix");
  core::mem::forget(msg);
  core::mem::forget(cc);
}

/// [INFO_TS, DATA_FRAG]: fragment `frag` (1-based, concrete) of a sample of 4 + n bytes cut
/// at `fs` bytes, as Writer::send_cache_change builds it
fn shape_ts_datafrag(e: Endianness, n: usize, fs: u16, frag: u32) {
  let cc = any_change(n, false);
  let total = 4 + n;
  let msg = MessageBuilder::new()
    .ts_msg(e, Some(any_ts()))
    .data_frag_msg(
      &cc,
      any_entity_id(),
      cc.writer_guid,
      FragmentNumber::new(frag),
      fs,
      total as u32,
      e,
      None,
    )
    .add_header_and_build(cc.writer_guid.prefix);
  let from = (frag as usize - 1) * fs as usize;
  let to = core::cmp::min(frag as usize * fs as usize, total);
  // a DATA_FRAG is the last submessage of its message; RustDDS does not pad its payload
  roundtrip(&msg, e, &[0x09, 0x16], &[0, 0], &[8, 32 + (to - from)], false);
  vk_cover!(msg.header.guid_prefix.bytes[0] == 0x52, "a guid prefix");
  core::mem::forget(msg);
  core::mem::forget(cc);
}

use Endianness::{BigEndian as BE, LittleEndian as LE};

msg_proof!(c14_msg_hb_le, 14, shape_hb(LE, false, false));
msg_proof!(c14_msg_hb_be_final, 14, shape_hb(BE, true, false));
msg_proof!(c14_msg_hb_le_liveliness, 14, shape_hb(LE, false, true));
msg_proof!(c14_msg_dst_ts_hb_le, 14, shape_dst_ts_hb(LE, true));
msg_proof!(c14_msg_dst_ts_hb_be, 14, shape_dst_ts_hb(BE, true));
msg_proof!(c14_msg_dst_ts0_hb_le, 14, shape_dst_ts_hb(LE, false));
msg_proof!(c14_msg_dst_ts0_hb_be, 14, shape_dst_ts_hb(BE, false));
msg_proof!(c14_msg_ts0_hb_le, 14, shape_ts0_hb(LE));
msg_proof!(c14_msg_ts0_hb_be, 14, shape_ts0_hb(BE));
msg_proof!(c14_msg_dst_ts0_le, 14, shape_dst_ts0(LE));
msg_proof!(c14_msg_dst_ts0_be, 14, shape_dst_ts0(BE));
msg_proof!(c14_msg_ts_gap_0_le, 14, shape_ts_gap(LE, 0));
msg_proof!(c14_msg_ts_gap_0_be, 14, shape_ts_gap(BE, 0));
msg_proof!(c14_msg_ts_gap_33_le, 14, shape_ts_gap(LE, 33));
msg_proof!(c14_msg_ts_gap_32_be, 14, shape_ts_gap(BE, 32));
msg_proof!(c14_msg_dst_acknack_0_le, 14, shape_dst_acknack(LE, 0, true));
msg_proof!(c14_msg_dst_acknack_1_be, 14, shape_dst_acknack(BE, 1, false));
msg_proof!(c14_msg_dst_acknack_33_le, 14, shape_dst_acknack(LE, 33, false));
msg_proof!(c14_msg_dst_acknack_32_be, 14, shape_dst_acknack(BE, 32, true));
msg_proof!(c14_msg_dst_nackfrag2_1_33_le, 14, shape_dst_nackfrag2(LE, 1, 33));
msg_proof!(c14_msg_dst_nackfrag2_32_0_be, 14, shape_dst_nackfrag2(BE, 32, 0));
msg_proof!(c14_msg_ts_data0_hb_le, 14, shape_ts_data_hb(LE, 0));
msg_proof!(c14_msg_ts_data1_hb_le, 14, shape_ts_data_hb(LE, 1));
msg_proof!(c14_msg_ts_data2_hb_be, 14, shape_ts_data_hb(BE, 2));
msg_proof!(c14_msg_ts_data3_hb_le, 14, shape_ts_data_hb(LE, 3));
msg_proof!(c14_msg_ts_data4_hb_be, 14, shape_ts_data_hb(BE, 4));
msg_proof!(c14_msg_ts_data5_hb_le, 14, shape_ts_data_hb(LE, 5));
// sample of 4 + 5 = 9 bytes cut at 4: fragments of 4, 4, 1 bytes
msg_proof!(c14_msg_ts_datafrag_f1_le, 14, shape_ts_datafrag(LE, 5, 4, 1));
msg_proof!(c14_msg_ts_datafrag_f2_be, 14, shape_ts_datafrag(BE, 5, 4, 2));
msg_proof!(c14_msg_ts_datafrag_f3_le, 14, shape_ts_datafrag(LE, 5, 4, 3));

