// C11, writer side: matched-reader set and PublicationMatched / OfferedIncompatibleQos
// events of the real rtps::writer::Writer follow discovery exactly.
// Child module of crate::rtps::writer (sibling of verif_harness_writer, whose rig it uses).
//
// World: 2 remote participants x 2 readers each = 4 remote readers R0..R3 (index
// i = 2*(p-1) + (e-1)), each with a FIXED QoS class (compatible | incompatible with the
// local writer: Reliability Reliable requested vs BestEffort offered).  Events are chosen
// SYMBOLICALLY from a concrete menu:
//     0..3  announce / re-announce R_i      (Writer::update_reader_proxy)
//     4..7  dispose R_i                     (Writer::reader_lost)
//     8,9   participant 1 / 2 lost          (Writer::participant_lost)
// After EVERY event the real writer is compared with an independent ghost (bitmask).
#![allow(dead_code, unused_imports, unused_variables, unused_mut, clippy::all)]
use super::verif_harness_writer::{make_wrig, reader_qos, writer_qos, WRig};
use super::*;
use crate::{
  dds::qos::QosPolicyId,
  structure::guid::EntityKind,
  verif_vk as vk,
  verif_vk::vk_cover,
};

// ------------------------------------------------------------------ status recorder
/// One DataWriterStatus flattened to scalars (Copy: nothing to drop symbolically).
#[derive(Clone, Copy)]
pub(crate) struct StRec {
  pub kind: u8, // 0 empty, 1 PublicationMatched, 2 OfferedIncompatibleQos, 3 anything else
  pub who: GUID,
  pub total: i32,
  pub total_change: i32,
  pub cur: i32,
  pub cur_change: i32,
  pub policy_is_reliability: bool,
}
impl StRec {
  pub const fn empty() -> Self {
    StRec {
      kind: 0,
      who: GUID::GUID_UNKNOWN,
      total: 0,
      total_change: 0,
      cur: 0,
      cur_change: 0,
      policy_is_reliability: false,
    }
  }
  /// Flatten and LEAK the status value (the incompatible-QoS variant owns two
  /// Box<QosPolicies>; their drop glue is not the subject).
  pub fn of(s: DataWriterStatus) -> Self {
    let r = match &s {
      DataWriterStatus::PublicationMatched { total, current, reader } => StRec {
        kind: 1,
        who: *reader,
        total: total.count(),
        total_change: total.count_change(),
        cur: current.count(),
        cur_change: current.count_change(),
        policy_is_reliability: false,
      },
      DataWriterStatus::OfferedIncompatibleQos {
        count,
        last_policy_id,
        reader,
        ..
      } => StRec {
        kind: 2,
        who: *reader,
        total: count.count(),
        total_change: count.count_change(),
        cur: 0,
        cur_change: 0,
        policy_is_reliability: *last_policy_id == QosPolicyId::Reliability,
      },
      _ => StRec {
        kind: 3,
        ..StRec::empty()
      },
    };
    core::mem::forget(s);
    r
  }
}

pub(crate) const MAXST: usize = 3;
#[derive(Clone, Copy)]
pub(crate) struct StLog {
  pub recs: [StRec; MAXST],
  pub n: usize,
}
impl StLog {
  pub const fn new() -> Self {
    StLog {
      recs: [StRec::empty(); MAXST],
      n: 0,
    }
  }
  pub fn push(&mut self, r: StRec) {
    // hand-unrolled store at a possibly symbolic position
    if self.n == 0 {
      self.recs[0] = r;
    } else if self.n == 1 {
      self.recs[1] = r;
    } else if self.n == 2 {
      self.recs[2] = r;
    }
    self.n += 1;
  }
}

#[cfg(kani)]
pub(crate) static mut C11_WSTATUS: StLog = StLog::new();

/// kani::stub target for Writer::send_status (the real body wraps mio-extras try_send; see
/// writer.rs): record the event, flattened.
#[cfg(kani)]
pub(crate) fn c11_stub_send_status(_this: &Writer, status: DataWriterStatus) {
  let r = StRec::of(status);
  unsafe { (*core::ptr::addr_of_mut!(C11_WSTATUS)).push(r) }
}

/// Status events emitted since the last call.  Kani: the recorder.  Native replay: the real
/// StatusChannelReceiver the DataWriter would read.
#[cfg(kani)]
pub(crate) fn take_status(_rig: &WRig) -> StLog {
  unsafe { core::mem::replace(&mut *core::ptr::addr_of_mut!(C11_WSTATUS), StLog::new()) }
}
#[cfg(not(kani))]
pub(crate) fn take_status(rig: &WRig) -> StLog {
  let mut out = StLog::new();
  while let Ok(s) = rig.status_rx.try_recv() {
    out.push(StRec::of(s));
  }
  while let Ok(e) = rig.pstatus_rx.try_recv() {
    core::mem::forget(e);
  }
  out
}

// ------------------------------------------------------------------ the remote world
/// Prefix layouts: see c11_reader.rs.  0: participants differ in the FIRST prefix byte.
/// 1: only in the LAST byte, adjacent values.  2: in a middle byte, last byte at the extremes.
pub(crate) fn c11_prefix(layout: u8, p: u8) -> GuidPrefix {
  match layout {
    0 => GuidPrefix {
      bytes: [p, 1, 2, 3, 4, 5, 6, 7, 8, 9, 10, 11],
    },
    1 => GuidPrefix {
      bytes: [9, 9, 9, 9, 9, 9, 9, 9, 9, 9, 9, 0x0F + p],
    },
    _ => GuidPrefix {
      bytes: [9, 9, 9, 9, 9, 9, 9, p, 9, 9, 9, if p == 1 { 0xFF } else { 0x00 }],
    },
  }
}
/// Layouts 1/2 put the two readers of a participant at the far ends of the entity-id space
/// (key 00 00 00 / FF FF FF, built-in kind 0xC7 is the largest reader kind).
pub(crate) fn c11_reader_eid(layout: u8, e: u8) -> EntityId {
  if layout == 0 {
    EntityId::new([0, 0, e], EntityKind::READER_WITH_KEY_USER_DEFINED)
  } else if e == 1 {
    EntityId::new([0, 0, 0], EntityKind::READER_NO_KEY_USER_DEFINED)
  } else {
    EntityId::new([0xFF, 0xFF, 0xFF], EntityKind::READER_WITH_KEY_BUILT_IN)
  }
}
/// GUID of remote reader i (0..3): participant 1 + i/2, entity 1 + i%2
pub(crate) fn c11_rguid(layout: u8, i: usize) -> GUID {
  GUID::new(
    c11_prefix(layout, 1 + (i / 2) as u8),
    c11_reader_eid(layout, 1 + (i % 2) as u8),
  )
}

/// Ghost: what discovery has told the writer, independent of the implementation.
#[derive(Clone, Copy)]
pub(crate) struct World {
  pub layout: u8,
  pub compat: u8,    // bit i: reader i requests a compatible QoS (fixed for the whole history)
  pub announced: u8, // bit i: reader i currently announced (and its participant not lost)
  pub total: i32,    // matches ever made
  pub incompat: i32, // incompatible-QoS events so far
}
impl World {
  pub fn new(layout: u8, compat: u8) -> Self {
    World {
      layout,
      compat,
      announced: 0,
      total: 0,
      incompat: 0,
    }
  }
  pub fn matched(&self) -> u8 {
    self.announced & self.compat
  }
}
pub(crate) fn part_mask(p: u8) -> u8 {
  if p == 1 {
    0b0011
  } else {
    0b1100
  }
}

impl WRig {
  pub fn c11_announce(&mut self, w: &World, i: usize) {
    // a fresh proxy, as discovery builds it from the DiscoveredReaderData (locators are
    // irrelevant for matching and left empty); the local writer offers BestEffort
    let reliable = w.compat & (1 << i) == 0;
    let p = RtpsReaderProxy::new(c11_rguid(w.layout, i), reader_qos(reliable), false);
    let q = reader_qos(reliable);
    self.writer.update_reader_proxy(&p, &q);
    core::mem::forget(p);
    core::mem::forget(q);
  }
}

/// The matched set of the real writer as a bitmask over the 4 remote readers, plus its size.
pub(crate) fn real_matched(rig: &WRig, layout: u8) -> (u8, usize) {
  let mut m = 0u8;
  let mut i = 0;
  while i < 4 {
    if rig.writer.readers.contains_key(&c11_rguid(layout, i)) {
      m |= 1 << i;
    }
    i += 1;
  }
  (m, rig.writer.readers.len())
}

fn idx_of(layout: u8, g: GUID) -> usize {
  let mut r = 9;
  let mut i = 0;
  while i < 4 {
    if g == c11_rguid(layout, i) {
      r = i;
    }
    i += 1;
  }
  r
}

/// One discovery event on the real writer + the C11 oracle for it.
pub(crate) fn step(rig: &mut WRig, w: &mut World, ev: u8) {
  let before = w.matched();
  let n_before = before.count_ones() as i32;
  // ---- the real code
  match ev {
    0 => rig.c11_announce(w, 0),
    1 => rig.c11_announce(w, 1),
    2 => rig.c11_announce(w, 2),
    3 => rig.c11_announce(w, 3),
    4 => rig.writer.reader_lost(c11_rguid(w.layout, 0)),
    5 => rig.writer.reader_lost(c11_rguid(w.layout, 1)),
    6 => rig.writer.reader_lost(c11_rguid(w.layout, 2)),
    7 => rig.writer.reader_lost(c11_rguid(w.layout, 3)),
    8 => rig.writer.participant_lost(c11_prefix(w.layout, 1)),
    _ => rig.writer.participant_lost(c11_prefix(w.layout, 2)),
  }
  // ---- the ghost
  let mut incompatible_announced = false;
  if ev < 4 {
    w.announced |= 1 << ev;
    incompatible_announced = w.compat & (1 << ev) == 0;
  } else if ev < 8 {
    w.announced &= !(1 << (ev - 4));
  } else {
    w.announced &= !part_mask(ev - 7);
  }
  let after = w.matched();
  let n_after = after.count_ones() as i32;
  let added = after & !before;
  let removed = before & !after;
  w.total += added.count_ones() as i32;

  // ---- matched set
  let (real, len) = real_matched(rig, w.layout);
  assert!(real == after, "matched-reader set differs from the set of announced, compatible endpoints of live participants");
  assert!(len as i32 == n_after, "readers map holds an entry that is none of the announced readers");
  if ev >= 8 {
    let other = part_mask(if ev == 8 { 2 } else { 1 });
    assert!(real & other == before & other, "participant loss touched a reader of another participant");
    assert!(real & part_mask(ev - 7) == 0, "a reader of the lost participant is still matched");
  }

  // ---- status events of this step
  let st = take_status(rig);
  let changed = added | removed;
  let expect_n = changed.count_ones() as usize + if incompatible_announced { 1 } else { 0 };
  assert!(st.n == expect_n, "number of status events differs from the number of membership changes (+ incompatible announcements)");
  let mut seen = 0u8;
  let mut cur_sum = 0i32;
  let mut cur_min = i32::MAX;
  let mut j = 0;
  while j < MAXST {
    if j < st.n {
      let r = st.recs[j];
      if incompatible_announced {
        assert!(r.kind == 2, "incompatible reader did not produce OfferedIncompatibleQos");
        assert!(r.who == c11_rguid(w.layout, ev as usize), "incompatible-QoS event names another reader");
        assert!(r.total == w.incompat + 1 && r.total_change == 1, "incompatible-QoS count not incremented by one");
        assert!(r.policy_is_reliability, "incompatible-QoS event names another policy than Reliability");
      } else {
        assert!(r.kind == 1, "membership change did not produce PublicationMatched");
        let i = idx_of(w.layout, r.who);
        assert!(i < 4 && changed & (1 << i) != 0, "matched event for a reader whose membership did not change");
        assert!(seen & (1 << i) == 0, "two matched events for one membership change");
        seen |= 1 << i;
        if added != 0 {
          assert!(r.cur_change == 1, "current.count_change != +1 on a new match");
          assert!(r.cur == n_after, "current.count != size of the matched set");
          assert!(r.total == w.total && r.total_change == 1, "total count not incremented by one on a new match");
        } else {
          assert!(r.cur_change == -1, "current.count_change != -1 on an unmatch");
          assert!(r.cur >= n_after && r.cur < n_before, "current.count outside [size after, size before)");
          assert!(r.total == w.total, "total count changed on an unmatch");
          assert!(r.total_change == 0, "total.count_change != 0 although total did not change");
          cur_sum += r.cur;
          if r.cur < cur_min {
            cur_min = r.cur;
          }
        }
      }
    }
    j += 1;
  }
  if removed != 0 {
    // several unmatches in one call (participant loss): each intermediate set size is
    // reported once, in whatever order; the last word is the final size
    assert!(cur_min == n_after, "no unmatch event reports the final size of the matched set");
    let k = n_before - n_after; // sizes n_after .. n_before-1
    assert!(cur_sum == k * n_after + k * (k - 1) / 2, "unmatch events do not report each intermediate set size once");
  }
  if incompatible_announced {
    w.incompat += 1;
  }
}

// ==================================================================== harnesses
/// Same environment as writer.rs's writer_harness! (stubs listed in evidence) except that
/// status events go to the flattening recorder of this file.
macro_rules! c11_writer_harness {
  ($(#[$m:meta])* fn $name:ident($unwind:expr) $body:block) => {
    $(#[$m])*
    #[cfg_attr(kani, kani::proof, kani::unwind($unwind))]
    #[cfg_attr(
      kani,
      kani::stub(Writer::send_message_to_readers, crate::rtps::writer::verif_harness_writer::stub_send_message_to_readers),
      kani::stub(Writer::send_status, c11_stub_send_status),
      kani::stub(Writer::send_participant_status, crate::rtps::writer::verif_harness_writer::stub_send_participant_status),
      kani::stub(crate::dds::statusevents::StatusChannelSender::try_send, crate::rtps::writer::verif_harness_writer::stub_status_try_send),
      kani::stub(mio_extras::channel::Receiver::try_recv, crate::rtps::writer::verif_harness_writer::stub_cmd_try_recv),
      kani::stub(crate::structure::time::Timestamp::now, crate::structure::time::verif_harness_env_time::stub_now),
      kani::stub(std::time::Instant::now, crate::structure::time::verif_harness_env_time::stub_instant_now),
      kani::stub(crate::mio_source::make_poll_channel, crate::mio_source::verif_harness_env_mio::stub_make_poll_channel),
      kani::stub(crate::mio_source::PollEventSender::send, crate::mio_source::verif_harness_env_mio::stub_send),
      kani::stub(crate::mio_source::PollEventSource::drain, crate::mio_source::verif_harness_env_mio::stub_drain),
      kani::stub(std::fmt::format, crate::verif_env::stub_format),
      kani::stub(std::vec::Vec::push, crate::verif_env::stub_vec_push),
      kani::stub(alloc::vec::from_elem, crate::verif_env::stub_vec_from_elem)
    )]
    #[cfg_attr(verif_replay, test)]
    fn $name() {
      vk::begin(stringify!($name));
      $body;
      vk::end();
    }
  };
}

/// Covers collected along one history.
#[derive(Clone, Copy)]
pub(crate) struct Seen {
  pub lost_two: bool,        // one participant loss unmatched two readers
  pub rematch: bool,         // a reader matched again after having been unmatched (total > current)
  pub incompat: bool,        // an incompatible reader was announced
  pub quiet: bool,           // an event that must emit nothing (re-announcement, unknown reader lost, second loss)
  pub lost_one_of_two: bool, // participant loss while a reader of the OTHER participant stays matched
}

pub(crate) const fn menu(evs: &[u8]) -> u16 {
  let mut m = 0u16;
  let mut j = 0;
  while j < evs.len() {
    m |= 1 << evs[j];
    j += 1;
  }
  m
}
pub(crate) const FULL: u16 = 0x3FF;

/// `pre`: CONCRETE prefix of events, then `k` events, each chosen SYMBOLICALLY among the
/// events of `menu` (see c11_reader.rs for the cost figures behind this shape).
fn history(layout: u8, compat: u8, pre: &[u8], k: usize, menu: u16) -> Seen {
  // local writer: BestEffort offered (a reader requesting Reliable is incompatible);
  // TransientLocal, so that matching does not compute pending GAPs (empty history anyway)
  let mut rig = make_wrig(writer_qos(false, None, true));
  let mut w = World::new(layout, compat);
  let mut j = 0;
  while j < pre.len() {
    step(&mut rig, &mut w, pre[j]);
    j += 1;
  }
  let mut seen = Seen {
    lost_two: false,
    rematch: false,
    incompat: false,
    quiet: false,
    lost_one_of_two: false,
  };
  let mut j = 0;
  while j < k {
    let ev = vk::range_u8(0, 9);
    vk::assume(menu & (1u16 << ev) != 0);
    let before = w.matched();
    let total0 = w.total;
    let inc0 = w.incompat;
    // a real `match`: the arms are exclusive in the control flow, so each one runs on the
    // state BEFORE the event (a sequence of `if ev == e {..}` lets arm e+1 start from the
    // join of arm e with the old state: measured > 600 s instead of ~100 s)
    match ev {
      0 if menu & (1 << 0) != 0 => step(&mut rig, &mut w, 0),
      1 if menu & (1 << 1) != 0 => step(&mut rig, &mut w, 1),
      2 if menu & (1 << 2) != 0 => step(&mut rig, &mut w, 2),
      3 if menu & (1 << 3) != 0 => step(&mut rig, &mut w, 3),
      4 if menu & (1 << 4) != 0 => step(&mut rig, &mut w, 4),
      5 if menu & (1 << 5) != 0 => step(&mut rig, &mut w, 5),
      6 if menu & (1 << 6) != 0 => step(&mut rig, &mut w, 6),
      7 if menu & (1 << 7) != 0 => step(&mut rig, &mut w, 7),
      8 if menu & (1 << 8) != 0 => step(&mut rig, &mut w, 8),
      9 if menu & (1 << 9) != 0 => step(&mut rig, &mut w, 9),
      _ => {}
    }
    let after = w.matched();
    if ev >= 8 && (before & !after).count_ones() == 2 {
      seen.lost_two = true;
    }
    if ev >= 8 && before != after && after != 0 {
      seen.lost_one_of_two = true;
    }
    if ev < 4 && w.total > total0 && w.total > after.count_ones() as i32 {
      seen.rematch = true;
    }
    if w.incompat > inc0 {
      seen.incompat = true;
    }
    if before == after && w.incompat == inc0 {
      seen.quiet = true;
    }
    j += 1;
  }
  rig.finish();
  seen
}

// ---- quick tier: k = 2, four-event menus
c11_writer_harness! {
/// Announce / re-announce / dispose / incompatible, from the fresh writer.
fn c11_writer_k2_announce_dispose(6) {
  let s = history(0, 0b0111, &[], 2, menu(&[0, 1, 3, 4]));
  vk_cover!(s.incompat, "an incompatible reader was announced");
  vk_cover!(s.quiet, "an event that must emit nothing (re-announcement / loss of an unknown reader)");
}
}
c11_writer_harness! {
/// Participant loss and rediscovery; participants differ only in the LAST prefix byte and
/// are adjacent, the readers sit at both ends of the entity-id space.
fn c11_writer_k2_participant_loss_adjacent(6) {
  let s = history(1, 0b1111, &[0, 1, 2, 3], 2, menu(&[8, 9, 1, 6]));
  vk_cover!(s.lost_two, "a participant loss unmatched two readers at once");
  vk_cover!(s.lost_one_of_two, "the other participant's readers stayed matched");
  vk_cover!(s.rematch, "a reader matched again after its participant was lost (total > current)");
  vk_cover!(s.quiet, "second loss of the same participant emits nothing");
}
}
c11_writer_harness! {
/// One symbolic event of the FULL menu from the state 'everything announced'; participants
/// differ only in the LAST prefix byte and are adjacent (range bounds of GuidPrefix::range touch).
fn c11_writer_k1_full_menu(6) {
  let s = history(1, 0b0111, &[0, 1, 2, 3], 1, FULL);
  vk_cover!(s.lost_two, "a participant loss unmatched two readers at once");
  vk_cover!(s.lost_one_of_two, "loss of the participant with one matched reader leaves the other participant's two matched");
  vk_cover!(s.incompat, "re-announcement of the incompatible reader");
  vk_cover!(s.quiet, "re-announcement of a matched reader emits nothing");
}
}
c11_writer_harness! {
/// Everything announced, participant 1 lost (concrete), then one symbolic event of the FULL
/// menu: rediscovery (its readers are announced again), second loss, loss of the other one, ...
fn c11_writer_k1_after_loss(6) {
  let s = history(2, 0b1111, &[0, 1, 2, 3, 8], 1, FULL);
  vk_cover!(s.rematch, "a reader matched again after its participant was lost (total > current)");
  vk_cover!(s.lost_two, "the other participant lost as well");
  vk_cover!(s.quiet, "second loss of the same participant emits nothing");
}
}

// ---- thorough tier.  STATUS (measured, VERIF_MEM_MB=8000, loaded box): k2_participant_loss_adjacent and
// k3_announce_dispose exceed the 8 GB cap after ~640 s; k2_full_menu (reader) 400 s / 7.5 GB.  The k3_* and
// *_from_all harnesses are NOT in the table (tools/props/C11.py).
c11_writer_harness! {
fn c11_writer_k3_participant_loss_adjacent(6) {
  let s = history(2, 0b1111, &[0, 1, 2, 3], 3, menu(&[8, 9, 1, 6]));
  vk_cover!(s.lost_two && s.rematch, "lost, found again");
}
}
c11_writer_harness! {
fn c11_writer_k3_announce_dispose(6) {
  let s = history(2, 0b0111, &[], 3, menu(&[0, 1, 3, 4]));
  vk_cover!(s.rematch, "announce, dispose, announce again: total > current");
  vk_cover!(s.incompat && s.quiet, "incompatible reader and a silent event in one history");
}
}
c11_writer_harness! {
/// k = 2 over the full 10-event menu from the fresh writer.
fn c11_writer_k2_full_menu(6) {
  let s = history(0, 0b0111, &[], 2, FULL);
  vk_cover!(s.incompat, "an incompatible reader was announced");
  vk_cover!(s.quiet, "no-op event");
}
}
