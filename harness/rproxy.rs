// Kernel harnesses on the real RtpsReaderProxy (writer side bookkeeping per matched reader)
// — child module of crate::rtps::rtps_reader_proxy.  Serves C02 (repair obligations) and
// C04 (requests answered, single-reader samples gapped).
#![allow(dead_code, unused_imports, clippy::all)]
use super::*;
use crate::{
  messages::submessages::submessages::AckNack,
  structure::guid::{EntityKind, GuidPrefix},
  verif_env::{self, CAP},
  verif_vk as vk,
  verif_vk::vk_cover,
};

const W: i64 = crate::verif_cfg::SN_WINDOW; // SNs 0..W+1 are in play

fn rguid() -> GUID {
  GUID::new(
    GuidPrefix {
      bytes: [1, 1, 2, 3, 4, 5, 6, 7, 8, 9, 10, 11],
    },
    EntityId::new([0, 0, 1], EntityKind::READER_WITH_KEY_USER_DEFINED),
  )
}

/// arbitrary valid set over SNs 0..=W+1, returned with its mask
fn any_sn_set() -> (verif_env::BTreeSet<SequenceNumber>, u32) {
  let len = vk::range_usize(0, CAP);
  let mut keys: [Option<SequenceNumber>; CAP] = [None; CAP];
  let mut mask = 0u32;
  let mut prev: i64 = -1;
  let mut j = 0;
  while j < CAP {
    if j < len {
      let s = vk::range_i64(0, W + 1);
      vk::assume(s > prev);
      prev = s;
      keys[j] = Some(SequenceNumber::new(s));
      mask |= 1 << s;
    }
    j += 1;
  }
  (verif_env::set_from_parts(len, keys), mask)
}

fn mask_of(s: &verif_env::BTreeSet<SequenceNumber>) -> u32 {
  let mut m = 0u32;
  let mut i = 0;
  while i < W + 2 {
    if s.contains(&SequenceNumber::new(i)) {
      m |= 1 << i;
    }
    i += 1;
  }
  m
}

fn below(n: i64) -> u32 {
  if n <= 0 {
    0
  } else if n >= 31 {
    !0u32 >> 1
  } else {
    (1u32 << n) - 1
  }
}

/// ONE ACKNACK from ANY valid proxy state (any acked frontier, any unsent set, any pending-gap
/// set): afterwards
///   * acknowledged-before == max(base, 1),
///   * to-be-sent == ((old to-be-sent ∪ requested) minus everything below the new frontier),
///     cut at the last available SN — so every requested, available SN will be served and
///     nothing acknowledged is resent,
///   * pending GAPs == old pending GAPs at or above the new frontier — an unacknowledged
///     single-reader / pre-match SN keeps its GAP obligation, an acknowledged one loses it.
#[cfg_attr(kani, kani::proof, kani::unwind(9))]
#[cfg_attr(kani, kani::stub(std::fmt::format, crate::verif_env::stub_format))]
#[cfg_attr(verif_replay, test)]
fn c02_rproxy_acknack_step() {
  vk::begin("c02_rproxy_acknack_step");
  let mut p = RtpsReaderProxy::new(rguid(), QosPolicies::qos_none(), false);
  let (unsent, unsent_mask) = any_sn_set();
  let (pending, pending_mask) = any_sn_set();
  p.unsent_changes = unsent;
  p.pending_gap = pending;
  p.all_acked_before = SequenceNumber::new(vk::range_i64(0, W + 1));
  let last_available = vk::range_i64(0, W);

  let base = vk::range_i64(0, W + 1);
  let bits4 = vk::range_u8(0, 15) as u32; // 4-bit bitmap at `base`
  let an = AckSubmessage::AckNack(AckNack {
    reader_id: rguid().entity_id,
    writer_id: EntityId::UNKNOWN,
    reader_sn_state: crate::structure::sequence_number::verif_harness_seqnum::sn_set_from_bits(base, 4, bits4 << 28),
    count: 1,
  });
  p.handle_ack_nack(&an, SequenceNumber::new(last_available));
  core::mem::forget(an);

  let new_base = if base < 1 { 1 } else { base };
  assert!(p.all_acked_before == SequenceNumber::new(new_base), "acknowledged-before is not max(base,1)");
  // requested SNs as a mask
  let mut req = 0u32;
  let mut k = 0;
  while k < 4 {
    if bits4 & (8 >> k) != 0 && base + k <= W + 1 {
      req |= 1 << (base + k);
    }
    k += 1;
  }
  vk::assume(base + 3 <= W + 1 || bits4 & 1 == 0 || base + 3 <= 31); // masks stay inside u32
  let expected_unsent = ((unsent_mask & !below(new_base)) | req) & below(last_available + 1);
  // the real code truncates at last_available only when something lies beyond it: same set
  assert!(mask_of(&p.unsent_changes) == expected_unsent, "to-be-sent set after the ACKNACK is wrong");
  assert!(
    mask_of(&p.pending_gap) == pending_mask & !below(new_base),
    "pending GAPs after the ACKNACK are not exactly the unacknowledged ones"
  );
  assert!(verif_env::set_is_valid(&p.unsent_changes) && verif_env::set_is_valid(&p.pending_gap));
  vk_cover!(pending_mask & (1 << new_base) != 0, "pending GAP exactly at the ACKNACK base survives");
  vk_cover!(req & !below(last_available + 1) != 0, "request beyond the last available SN is cut");
  vk_cover!(unsent_mask & below(new_base) != 0, "acknowledged SN leaves the to-be-sent set");
  core::mem::forget(p);
  vk::end();
}

/// The other bookkeeping steps, from ANY valid state: a new sample becomes to-be-sent, a sent
/// one leaves, single-reader / pre-match SNs become pending GAPs.
#[cfg_attr(kani, kani::proof, kani::unwind(9))]
#[cfg_attr(kani, kani::stub(std::fmt::format, crate::verif_env::stub_format))]
#[cfg_attr(verif_replay, test)]
fn c02_rproxy_bookkeeping_step() {
  vk::begin("c02_rproxy_bookkeeping_step");
  let mut p = RtpsReaderProxy::new(rguid(), QosPolicies::qos_none(), false);
  let (unsent, unsent_mask) = any_sn_set();
  let (pending, pending_mask) = any_sn_set();
  p.unsent_changes = unsent;
  p.pending_gap = pending;
  let s = vk::range_i64(1, W + 1);
  let mut eu = unsent_mask;
  let mut ep = pending_mask;
  match vk::range_u8(0, 4) {
    0 => {
      p.notify_new_cache_change(SequenceNumber::new(s));
      eu |= 1 << s;
    }
    1 => {
      p.mark_change_sent(SequenceNumber::new(s));
      eu &= !(1 << s);
    }
    2 => {
      p.remove_from_unsent_set_all_before(SequenceNumber::new(s));
      eu &= !below(s);
    }
    3 => {
      p.insert_pending_gap(SequenceNumber::new(s));
      ep |= 1 << s;
    }
    _ => {
      vk::assume(s <= 3 && pending_mask & !below(4) == 0); // keeps the result inside CAP entries
      p.set_pending_gap_up_to(SequenceNumber::new(s));
      ep |= below(s + 1) & !1;
    }
  }
  assert!(mask_of(&p.unsent_changes) == eu, "to-be-sent set wrong");
  assert!(mask_of(&p.pending_gap) == ep, "pending-GAP set wrong");
  assert!(p.first_unsent_change().map(i64::from) == if eu == 0 { None } else { Some(eu.trailing_zeros() as i64) }, "first_unsent_change is not the lowest to-be-sent SN");
  vk_cover!(eu != unsent_mask);
  vk_cover!(ep != pending_mask);
  core::mem::forget(p);
  vk::end();
}
