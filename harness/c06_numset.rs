// C06 (parser half) harnesses on NumberSet<N> — child module of
// crate::structure::sequence_number (sees bitmap_base / num_bits / bitmap and the iterator's
// at_bit / rev_at_bit).  Also exports the helpers every other c06_*.rs file uses.
//
// Oracle: Kani's built-in checks (no reachable panic / arithmetic overflow / index out of
// bounds / unwrap on None) for ANY input bytes at a concrete buffer length; Err is fine.
#![allow(dead_code, unused_imports, unused_macros, unused_variables, clippy::all)]
use super::*;
use crate::{verif_env, verif_vk as vk, verif_vk::vk_cover};
use speedy::Endianness;

// ------------------------------------------------------------------------- finding flags
// Placeholders until the lead generates these from known_findings.json into
// crate::verif_cfg.  true = the finding is OPEN: the general harnesses exclude exactly its
// input class, the dedicated c06_finding_* harness pins it.  Set to false (or switch to
// crate::verif_cfg::KF_C06_...) once /repo is repaired: the general harness then covers the
// class as well.
/// NumberSetIter::{next, next_back}: `N::from(bit index) + bitmap_base` overflows for a set
/// bit i < num_bits with base + i > N::MAX.
pub(crate) const KF_C06_NUMSET_ITER_OVERFLOW: bool = crate::verif_cfg::KF_C06_NUMSET_ITER_OVERFLOW; // generated from /verif/known_findings.json: true while the finding is open

// ------------------------------------------------------------------------- environment
// speedy's slice entry point decides "bytes left" by raw pointer subtraction, which CBMC
// cannot fold; under Kani it is redirected to speedy's own stream entry point over the same
// bytes (same trick as /verif/harness/c15_qos.rs; copied here so that C06 does not depend
// on the C15 harness file).  All RustDDS Readable impls run unchanged; native replay uses
// the original entry point.
pub(crate) trait StubReadable<'a, C: speedy::Context>: Sized + speedy::Readable<'a, C> {
  fn stub_read_from_buffer_with_ctx(context: C, buffer: &'a [u8]) -> Result<Self, C::Error> {
    Self::read_from_stream_unbuffered_with_ctx(context, buffer)
  }
}
impl<'a, C: speedy::Context, T: speedy::Readable<'a, C>> StubReadable<'a, C> for T {}

/// kani::stub target for speedy::Reader::read_vec (used by ParameterList::read_from for the
/// parameter value).  The original allocates `length` elements (a u16 straight from the wire)
/// and then reads; an allocation of symbolic size is intractable for CBMC.  Model: a
/// CONCRETE allocation of READ_VEC_CAP bytes; for length <= READ_VEC_CAP exactly the
/// original's primitive-element path (read length bytes straight into the buffer, Err at end
/// of input); for length > READ_VEC_CAP the original can only succeed if more than
/// READ_VEC_CAP bytes are left in the input — the stub tries to read READ_VEC_CAP bytes and
/// returns the reader's own end-of-input error when that fails (exact for every harness whose
/// input is shorter than READ_VEC_CAP bytes, which all of C06's are); if it succeeds the input
/// is outside the bound.  Native replay runs the original.
pub(crate) const READ_VEC_CAP: usize = 64;
pub(crate) const READ_VEC_ELEMS: usize = 2;
#[cfg(kani)]
pub(crate) trait StubReader<'a, C: speedy::Context>: speedy::Reader<'a, C> {
  fn stub_read_vec<T>(&mut self, length: usize) -> Result<Vec<T>, C::Error>
  where
    T: speedy::Readable<'a, C>,
  {
    if !(T::speedy_is_primitive() && core::mem::size_of::<T>() == 1) {
      // element-wise (speedy's non-primitive path), at most READ_VEC_ELEMS elements; a larger
      // count can only succeed if more than READ_VEC_ELEMS elements are in the input: try to
      // read one more than that and hand back the reader's own error
      let mut vec: Vec<T> = Vec::with_capacity_in(READ_VEC_ELEMS + 1, std::alloc::Global);
      let mut i = 0;
      while i <= READ_VEC_ELEMS && i < length {
        match self.read_value::<T>() {
          Ok(v) => unsafe {
            core::ptr::write(vec.as_mut_ptr().add(i), v);
            vec.set_len(i + 1);
          },
          Err(e) => {
            core::mem::forget(vec);
            return Err(e);
          }
        }
        i += 1;
      }
      kani::assume(length <= READ_VEC_ELEMS);
      return Ok(vec);
    }
    let mut vec: Vec<T> = Vec::with_capacity_in(READ_VEC_CAP, std::alloc::Global);
    if length > READ_VEC_CAP {
      let mut scratch = [0u8; READ_VEC_CAP + 1];
      match self.read_bytes(&mut scratch) {
        Err(e) => {
          core::mem::forget(vec);
          return Err(e);
        }
        Ok(()) => {
          kani::assume(false);
        }
      }
    }
    unsafe {
      self.read_bytes_into_ptr(vec.as_mut_ptr() as *mut u8, length)?;
      vec.set_len(length);
    }
    Ok(vec)
  }
}
#[cfg(kani)]
impl<'a, C: speedy::Context, R: speedy::Reader<'a, C>> StubReader<'a, C> for R {}

/// Declares a harness with the attributes every byte-level C06 harness needs.
macro_rules! c06_proof {
  ($name:ident, $unwind:expr, $body:expr) => {
    #[cfg_attr(kani, kani::proof, kani::unwind($unwind))]
    #[cfg_attr(kani, kani::stub(std::fmt::format, crate::verif_env::stub_format))]
    #[cfg_attr(
      kani,
      kani::stub(
        speedy::Readable::read_from_buffer_with_ctx,
        crate::structure::sequence_number::verif_harness_c06_numset::StubReadable::stub_read_from_buffer_with_ctx
      )
    )]
    #[cfg_attr(
      kani,
      kani::stub(
        speedy::Reader::read_vec,
        crate::structure::sequence_number::verif_harness_c06_numset::StubReader::stub_read_vec
      )
    )]
    #[cfg_attr(kani, kani::stub(std::vec::Vec::with_capacity, crate::verif_env::stub_vec_with_capacity))]
    #[cfg_attr(kani, kani::stub(std::vec::Vec::push, crate::verif_env::stub_vec_push))]
    #[cfg_attr(verif_replay, test)]
    fn $name() {
      crate::verif_vk::begin(stringify!($name));
      $body;
      crate::verif_vk::end();
    }
  };
}
pub(crate) use c06_proof;

/// N arbitrary bytes (N concrete).  Drawn 8 at a time so that the generator loop stays
/// short (every loop is unrolled up to the harness's unwind bound).
pub(crate) fn any_bytes<const N: usize>() -> [u8; N] {
  let mut buf = [0u8; N];
  let mut i = 0;
  while i < N {
    let w = vk::any::<u64>().to_le_bytes();
    // hand-unrolled: the only loop left has ceil(N/8) iterations
    macro_rules! put {
      ($j:expr) => {
        if i + $j < N {
          buf[i + $j] = w[$j];
        }
      };
    }
    put!(0);
    put!(1);
    put!(2);
    put!(3);
    put!(4);
    put!(5);
    put!(6);
    put!(7);
    i += 8;
  }
  buf
}

/// `Bytes` of concrete length holding `data`, Arc-backed representation (see
/// verif_env::shared_bytes).  Own copy because the byte-level harnesses stub
/// Vec::with_capacity (capacity 16), which verif_env::shared_bytes itself calls.
#[cfg(kani)]
pub(crate) fn bytes_of(data: &[u8]) -> bytes::Bytes {
  let mut v: Vec<u8> = Vec::with_capacity_in(data.len() + 1, std::alloc::Global);
  unsafe {
    core::ptr::copy_nonoverlapping(data.as_ptr(), v.as_mut_ptr(), data.len());
    v.set_len(data.len());
  }
  bytes::Bytes::from(v)
}
#[cfg(not(kani))]
pub(crate) fn bytes_of(data: &[u8]) -> bytes::Bytes {
  bytes::Bytes::copy_from_slice(data)
}

pub(crate) fn rd_u32(b: &[u8], off: usize, e: Endianness) -> u32 {
  let a = [b[off], b[off + 1], b[off + 2], b[off + 3]];
  if e == Endianness::LittleEndian {
    u32::from_le_bytes(a)
  } else {
    u32::from_be_bytes(a)
  }
}
pub(crate) fn rd_u16(b: &[u8], off: usize, e: Endianness) -> u16 {
  let a = [b[off], b[off + 1]];
  if e == Endianness::LittleEndian {
    u16::from_le_bytes(a)
  } else {
    u16::from_be_bytes(a)
  }
}

pub(crate) fn words_of(num_bits: u32) -> usize {
  ((num_bits as usize) + 31) / 32
}

/// Index of the highest set bit below num_bits (RTPS 9.4.2.6 numbering: bit i is bit
/// 31 - i%32 of word i/32), or None.  Loop over the (<= 8) words only.
fn highest_member(words: &[u32], num_bits: u32) -> Option<u32> {
  let mut hi: Option<u32> = None;
  let mut j = 0usize;
  while j < words.len() && j < 8 {
    let lo_bit = 32 * (j as u32);
    if num_bits > lo_bit {
      let valid = if num_bits - lo_bit >= 32 { 32 } else { num_bits - lo_bit };
      let mask: u32 = if valid == 32 { !0 } else { !0u32 << (32 - valid) };
      let m = words[j] & mask;
      if m != 0 {
        hi = Some(lo_bit + 31 - m.trailing_zeros());
      }
    }
    j += 1;
  }
  hi
}

/// true iff iterating `ns` adds a bit index to the base beyond i64::MAX (the open finding).
pub(crate) fn sn_iter_overflows(ns: &SequenceNumberSet) -> bool {
  match highest_member(&ns.bitmap, ns.num_bits) {
    Some(h) => i64::from(ns.bitmap_base) > i64::MAX - (h as i64),
    None => false,
  }
}
pub(crate) fn fn_iter_overflows(ns: &FragmentNumberSet) -> bool {
  match highest_member(&ns.bitmap, ns.num_bits) {
    Some(h) => u32::from(ns.bitmap_base) > u32::MAX - h,
    None => false,
  }
}

// ------------------------------------------------------------------------- parse
// Buffer of L arbitrary bytes -> read_from.  Ok implies the structural invariant every user
// of the set relies on (num_bits <= 256, bitmap.len() == ceil(num_bits/32), nothing read
// beyond the buffer); Err implies the bytes really were malformed (numBits > 256 or bitmap
// words missing) — a well-formed set from a well-behaved peer is never discarded.

fn parse_sn<const L: usize>(e: Endianness) {
  let buf = any_bytes::<L>();
  let r = SequenceNumberSet::read_from_buffer_with_ctx(e, &buf);
  let nb = if L >= 12 { rd_u32(&buf, 8, e) } else { 0 };
  let need = 12 + 4 * words_of(nb);
  match &r {
    Ok(ns) => {
      assert!(L >= 12, "SequenceNumberSet parsed from fewer than 12 bytes");
      assert!(ns.num_bits == nb && nb <= 256, "numBits > 256 accepted");
      assert!(ns.bitmap.len() == words_of(nb), "bitmap length != ceil(numBits/32)");
      assert!(need <= L, "bitmap words taken from beyond the buffer");
      assert!(ns.len_serialized() == need, "len_serialized of a parsed set");
    }
    Err(_) => {
      assert!(L < 12 || nb > 256 || need > L, "well-formed SequenceNumberSet rejected");
    }
  }
  vk_cover!(
    if L >= 12 { r.is_ok() && need == (L / 4) * 4 } else { r.is_err() },
    "largest set that fits the buffer accepted (buffer below the fixed part: rejected)"
  );
  vk_cover!(L < 12 || (r.is_err() && nb == u32::MAX), "numBits 2^32-1 rejected");
  vk_cover!(L < 12 || L >= 44 || (r.is_err() && nb <= 256), "bitmap longer than the buffer rejected (44 bytes hold every legal set)");
  core::mem::forget(r);
}

fn parse_fn<const L: usize>(e: Endianness) {
  let buf = any_bytes::<L>();
  let r = FragmentNumberSet::read_from_buffer_with_ctx(e, &buf);
  let nb = if L >= 8 { rd_u32(&buf, 4, e) } else { 0 };
  let need = 8 + 4 * words_of(nb);
  match &r {
    Ok(ns) => {
      assert!(L >= 8, "FragmentNumberSet parsed from fewer than 8 bytes");
      assert!(ns.num_bits == nb && nb <= 256, "numBits > 256 accepted");
      assert!(ns.bitmap.len() == words_of(nb), "bitmap length != ceil(numBits/32)");
      assert!(need <= L, "bitmap words taken from beyond the buffer");
      assert!(ns.len_serialized() == need, "len_serialized of a parsed set");
    }
    Err(_) => {
      assert!(L < 8 || nb > 256 || need > L, "well-formed FragmentNumberSet rejected");
    }
  }
  vk_cover!(
    if L >= 8 { r.is_ok() && need == (L / 4) * 4 } else { r.is_err() },
    "largest set that fits the buffer accepted (buffer below the fixed part: rejected)"
  );
  vk_cover!(L < 8 || (r.is_err() && nb == u32::MAX), "numBits 2^32-1 rejected");
  vk_cover!(L < 8 || L >= 40 || (r.is_err() && nb <= 256), "bitmap longer than the buffer rejected (40 bytes hold every legal set)");
  core::mem::forget(r);
}

c06_proof!(c06_numset_parse_sn_8_le, 11, parse_sn::<8>(Endianness::LittleEndian));
c06_proof!(c06_numset_parse_sn_12_le, 11, parse_sn::<12>(Endianness::LittleEndian));
c06_proof!(c06_numset_parse_sn_16_le, 11, parse_sn::<16>(Endianness::LittleEndian));
c06_proof!(c06_numset_parse_sn_20_le, 11, parse_sn::<20>(Endianness::LittleEndian));
c06_proof!(c06_numset_parse_sn_44_le, 11, parse_sn::<44>(Endianness::LittleEndian));
c06_proof!(c06_numset_parse_sn_8_be, 11, parse_sn::<8>(Endianness::BigEndian));
c06_proof!(c06_numset_parse_sn_12_be, 11, parse_sn::<12>(Endianness::BigEndian));
c06_proof!(c06_numset_parse_sn_16_be, 11, parse_sn::<16>(Endianness::BigEndian));
c06_proof!(c06_numset_parse_sn_20_be, 11, parse_sn::<20>(Endianness::BigEndian));
c06_proof!(c06_numset_parse_sn_44_be, 11, parse_sn::<44>(Endianness::BigEndian));
c06_proof!(c06_numset_parse_fn_4_le, 11, parse_fn::<4>(Endianness::LittleEndian));
c06_proof!(c06_numset_parse_fn_8_le, 11, parse_fn::<8>(Endianness::LittleEndian));
c06_proof!(c06_numset_parse_fn_12_le, 11, parse_fn::<12>(Endianness::LittleEndian));
c06_proof!(c06_numset_parse_fn_16_le, 11, parse_fn::<16>(Endianness::LittleEndian));
c06_proof!(c06_numset_parse_fn_40_le, 11, parse_fn::<40>(Endianness::LittleEndian));
c06_proof!(c06_numset_parse_fn_8_be, 11, parse_fn::<8>(Endianness::BigEndian));
c06_proof!(c06_numset_parse_fn_12_be, 11, parse_fn::<12>(Endianness::BigEndian));
c06_proof!(c06_numset_parse_fn_16_be, 11, parse_fn::<16>(Endianness::BigEndian));
c06_proof!(c06_numset_parse_fn_40_be, 11, parse_fn::<40>(Endianness::BigEndian));

// ------------------------------------------------------------------------- iterate a PARSED set
// Inductive over the iterator position (as in C14, but on a set that came out of read_from
// and with NO restriction on the base): iter() starts at (0, num_bits); one next() and one
// next_back() from ANY position 0 <= a <= r <= num_bits is panic-free and leaves a position
// of the same form, so every sequence of calls (drain forwards, backwards, mixed) is.

fn iter_parsed_sn<const L: usize>(e: Endianness, exclude_overflow: bool) {
  let buf = any_bytes::<L>();
  let r = SequenceNumberSet::read_from_buffer_with_ctx(e, &buf);
  if let Ok(ns) = &r {
    if exclude_overflow {
      vk::assume(!sn_iter_overflows(ns));
    }
    let it0 = ns.iter();
    assert!(it0.at_bit == 0 && it0.rev_at_bit == ns.num_bits, "iter() does not start at [0, num_bits)");
    let a = vk::any::<u32>();
    let rv = vk::any::<u32>();
    vk::assume(a <= rv && rv <= ns.num_bits);
    let mut it = NumberSetIter {
      seq: ns,
      at_bit: a,
      rev_at_bit: rv,
    };
    let x = it.next();
    assert!(it.at_bit > a || x.is_none(), "next() reported a member without advancing");
    assert!(it.at_bit <= rv && it.rev_at_bit == rv, "next() left the window");
    let mut it2 = NumberSetIter {
      seq: ns,
      at_bit: a,
      rev_at_bit: rv,
    };
    let y = it2.next_back();
    assert!(it2.rev_at_bit < rv || y.is_none(), "next_back() reported a member without advancing");
    assert!(it2.rev_at_bit >= a && it2.at_bit == a, "next_back() left the window");
    // what Writer::handle_ack_nack does first with a received ACKNACK
    let first = ns.iter().next().map(i64::from);
    let empty = ns.is_empty();
    assert!(empty == first.is_none());
    vk_cover!(x.is_some() && i64::from(ns.bitmap_base) < 0, "member of a set with a negative base");
    vk_cover!(
      x.is_some() && i64::from(ns.bitmap_base) == i64::MAX,
      "member of a set whose base is i64::MAX (only bit 0 can be reported without overflow)"
    );
    vk_cover!(y.is_some() && ns.num_bits as usize == (L - 12) * 8, "last bit of the largest window");
  }
  vk_cover!(r.is_err(), "malformed set");
  core::mem::forget(r);
}

fn iter_parsed_fn<const L: usize>(e: Endianness, exclude_overflow: bool) {
  let buf = any_bytes::<L>();
  let r = FragmentNumberSet::read_from_buffer_with_ctx(e, &buf);
  if let Ok(ns) = &r {
    if exclude_overflow {
      vk::assume(!fn_iter_overflows(ns));
    }
    let a = vk::any::<u32>();
    let rv = vk::any::<u32>();
    vk::assume(a <= rv && rv <= ns.num_bits);
    let mut it = NumberSetIter {
      seq: ns,
      at_bit: a,
      rev_at_bit: rv,
    };
    let x = it.next();
    assert!(it.at_bit > a || x.is_none(), "next() reported a member without advancing");
    assert!(it.at_bit <= rv && it.rev_at_bit == rv, "next() left the window");
    let mut it2 = NumberSetIter {
      seq: ns,
      at_bit: a,
      rev_at_bit: rv,
    };
    let y = it2.next_back();
    assert!(it2.rev_at_bit < rv || y.is_none(), "next_back() reported a member without advancing");
    assert!(it2.rev_at_bit >= a && it2.at_bit == a, "next_back() left the window");
    vk_cover!(x.is_some() && u32::from(ns.bitmap_base) == 0, "member of a set with base 0");
    vk_cover!(x.is_some() && u32::from(ns.bitmap_base) == u32::MAX, "member of a set whose base is u32::MAX");
    vk_cover!(y.is_some() && ns.num_bits as usize == (L - 8) * 8, "last bit of the largest window");
  }
  vk_cover!(r.is_err(), "malformed set");
  core::mem::forget(r);
}

c06_proof!(c06_numset_iter_parsed_sn_16_le, 36, iter_parsed_sn::<16>(Endianness::LittleEndian, KF_C06_NUMSET_ITER_OVERFLOW));
c06_proof!(c06_numset_iter_parsed_sn_16_be, 36, iter_parsed_sn::<16>(Endianness::BigEndian, KF_C06_NUMSET_ITER_OVERFLOW));
c06_proof!(c06_numset_iter_parsed_sn_20_le, 68, iter_parsed_sn::<20>(Endianness::LittleEndian, KF_C06_NUMSET_ITER_OVERFLOW));
c06_proof!(c06_numset_iter_parsed_sn_44_le, 260, iter_parsed_sn::<44>(Endianness::LittleEndian, KF_C06_NUMSET_ITER_OVERFLOW));
c06_proof!(c06_numset_iter_parsed_fn_12_le, 36, iter_parsed_fn::<12>(Endianness::LittleEndian, KF_C06_NUMSET_ITER_OVERFLOW));
c06_proof!(c06_numset_iter_parsed_fn_12_be, 36, iter_parsed_fn::<12>(Endianness::BigEndian, KF_C06_NUMSET_ITER_OVERFLOW));
c06_proof!(c06_numset_iter_parsed_fn_16_le, 68, iter_parsed_fn::<16>(Endianness::LittleEndian, KF_C06_NUMSET_ITER_OVERFLOW));

// ------------------------------------------------------------------------- FINDING
// NumberSetIter::next / next_back compute `N::from(bit index) + bitmap_base` with the
// derived (unchecked) `+`: a parsed set with base + i > MAX for a set bit i < num_bits
// overflows.  Dev profile (what Kani models): panic "attempt to add with overflow"; release:
// wraps to a negative SequenceNumber / small FragmentNumber.  Reachable from the network:
// Writer::handle_ack_nack calls `an.reader_sn_state.iter().next()` on every ACKNACK before
// any validity check; Reader::handle_gap_msg iterates gap.gap_list (base > 0 only).
// No kani::stub on Vec here is needed for extraction, the same attribute set is used.
c06_proof!(c06_finding_numset_iter_overflow_sn, 36, iter_parsed_sn::<16>(Endianness::LittleEndian, false));
c06_proof!(c06_finding_numset_iter_overflow_fn, 36, iter_parsed_fn::<12>(Endianness::LittleEndian, false));
