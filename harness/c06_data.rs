// C06 (parser half) harnesses on ParameterList::read_from, Data::deserialize_data and
// DataFrag::deserialize — child module of crate::messages::submessages::data.
//
// Buffers have a CONCRETE length and arbitrary content, so every embedded length
// (parameter lengths, octetsToInlineQos, fragment sizes, sample size) and every flag is
// hostile.  Oracle: Kani's built-in checks; plus, where a short reference decoder can say it,
// "accepted iff well-formed".
#![allow(dead_code, unused_imports, unused_macros, unused_variables, clippy::all)]
use super::*;
use crate::{
  structure::sequence_number::{
    verif_harness_c06_numset::{any_bytes, c06_proof, rd_u16, rd_u32},
    FragmentNumber,
  },
  verif_vk as vk,
  verif_vk::vk_cover,
};
use speedy::Endianness;

fn any_endianness() -> Endianness {
  if vk::any::<bool>() {
    Endianness::LittleEndian
  } else {
    Endianness::BigEndian
  }
}

// ------------------------------------------------------------------------- ParameterList
/// Reference walk over a parameter list at buf[off..]: Some(bytes consumed incl. the
/// sentinel's 4 bytes, number of parameters) iff a sentinel is reached with every parameter
/// header and value inside the buffer.  (The sentinel's own length field is not followed:
/// RTPS 9.4.2.11 — and RustDDS agrees.)
fn ref_plist(buf: &[u8], start: usize, e: Endianness) -> Option<(usize, usize)> {
  let n = buf.len();
  let mut off = start;
  let mut count = 0usize;
  let mut i = 0;
  // at most n/4 + 1 headers fit
  while i <= n / 4 {
    if off + 4 > n {
      return None;
    }
    let pid = rd_u16(buf, off, e);
    let len = rd_u16(buf, off + 2, e) as usize;
    off += 4;
    if pid == 0x0001 {
      return Some((off - start, count));
    }
    if off + len > n {
      return None;
    }
    off += len;
    count += 1;
    i += 1;
  }
  None
}

fn plist_case<const L: usize>(e: Endianness) {
  let buf = any_bytes::<L>();
  let r = ParameterList::read_from_buffer_with_ctx(e, &buf);
  let want = ref_plist(&buf, 0, e);
  match &r {
    Ok(pl) => {
      match want {
        Some((_, count)) => assert!(pl.parameters.len() == count, "number of parameters"),
        None => panic!("parameter list accepted although the sentinel is missing or a parameter runs beyond the buffer"),
      }
      if pl.parameters.len() > 0 {
        assert!(pl.parameters[0].value.len() == rd_u16(&buf, 2, e) as usize, "first parameter's length");
        assert!(pl.parameters[0].value.len() + 8 <= L, "parameter value longer than the bytes received");
      }
    }
    Err(_) => assert!(want.is_none(), "well-formed parameter list rejected"),
  }
  vk_cover!(
    if L >= 8 { matches!(&r, Ok(pl) if pl.parameters.len() == 1) } else { r.is_ok() },
    "one parameter then the sentinel (4 bytes: the sentinel alone)"
  );
  vk_cover!(L < 8 || matches!(&r, Ok(pl) if pl.parameters.len() == (L - 4) / 4), "as many empty parameters as fit");
  vk_cover!(L < 8 || (r.is_err() && rd_u16(&buf, 2, e) == 0xffff), "parameter length 65535");
  vk_cover!(L < 12 || matches!(&r, Ok(pl) if pl.parameters.len() == 1 && pl.parameters[0].value.len() % 4 == 3), "length not a multiple of 4 is taken literally");
  core::mem::forget(r);
}
c06_proof!(c06_plist_parse_3_le, 4, plist_case::<3>(Endianness::LittleEndian));
c06_proof!(c06_plist_parse_4_le, 4, plist_case::<4>(Endianness::LittleEndian));
c06_proof!(c06_plist_parse_4_be, 4, plist_case::<4>(Endianness::BigEndian));
c06_proof!(c06_plist_parse_8_le, 5, plist_case::<8>(Endianness::LittleEndian));
c06_proof!(c06_plist_parse_8_be, 5, plist_case::<8>(Endianness::BigEndian));
c06_proof!(c06_plist_parse_12_le, 6, plist_case::<12>(Endianness::LittleEndian));
c06_proof!(c06_plist_parse_12_be, 6, plist_case::<12>(Endianness::BigEndian));
c06_proof!(c06_plist_parse_16_le, 7, plist_case::<16>(Endianness::LittleEndian));
c06_proof!(c06_plist_parse_16_be, 7, plist_case::<16>(Endianness::BigEndian));
c06_proof!(c06_plist_parse_23_le, 8, plist_case::<23>(Endianness::LittleEndian));

// ------------------------------------------------------------------------- DATA
// Data::deserialize_data on a Bytes of concrete length L; all content and the five flag bits
// symbolic: octetsToInlineQos below 16 / beyond the buffer, InlineQos flag with garbage,
// payload shorter than 4 bytes or absent.

macro_rules! data_proof {
  ($name:ident, $unwind:expr, $body:expr) => {
    #[cfg_attr(kani, kani::proof, kani::unwind($unwind))]
    #[cfg_attr(kani, kani::stub(std::fmt::format, crate::verif_env::stub_format))]
    #[cfg_attr(
      kani,
      kani::stub(
        speedy::Reader::read_vec,
        crate::structure::sequence_number::verif_harness_c06_numset::StubReader::stub_read_vec
      )
    )]
    #[cfg_attr(kani, kani::stub(std::vec::Vec::push, crate::verif_env::stub_vec_push))]
    #[cfg_attr(verif_replay, test)]
    fn $name() {
      crate::verif_vk::begin(stringify!($name));
      $body;
      crate::verif_vk::end();
    }
  };
}

/// `o2q`: Some(v) pins octetsToInlineQos to v (concrete grid), None leaves it symbolic.
/// `fl`:  Some(f) pins the flags byte.
/// `expect`: 0 = every input of the instance must be rejected, 1 = accepted and rejected inputs
/// both exist, 2 = every input is accepted (witnessed by vk_cover!).
fn data_case<const L: usize>(o2q: Option<u16>, fl: Option<u8>, expect: u8) {
  let flags_byte = match fl {
    Some(f) => f,
    None => vk::any::<u8>(),
  };
  let flags = BitFlags::<DATA_Flags>::from_bits_truncate(flags_byte);
  let e = endianness_flag(flags.bits());
  let mut buf = any_bytes::<L>();
  if let Some(v) = o2q {
    if L >= 4 {
      let b = if e == Endianness::LittleEndian { v.to_le_bytes() } else { v.to_be_bytes() };
      buf[2] = b[0];
      buf[3] = b[1];
    }
  }
  let bytes = crate::verif_env::shared_bytes(&buf);
  let r = Data::deserialize_data(&bytes, flags);
  let o = if L >= 4 { rd_u16(&buf, 2, e) as usize } else { 0 };
  let q = flags.contains(DATA_Flags::InlineQos);
  let d = flags.contains(DATA_Flags::Data) || flags.contains(DATA_Flags::Key);
  // reference: fixed part 20 bytes, inline QoS / payload start at 4 + octetsToInlineQos
  let start = 4 + o;
  let well_formed = L >= 20 && o >= 16 && start <= L && (!q || ref_plist(&buf, start, e).is_some());
  match &r {
    Ok(data) => {
      assert!(well_formed, "malformed DATA accepted");
      let qlen = if q { ref_plist(&buf, start, e).unwrap().0 } else { 0 };
      assert!(data.inline_qos.is_some() == q, "inline QoS presence != flag Q");
      match &data.serialized_payload {
        Some(p) => {
          assert!(d, "payload without flag D or K");
          assert!(p.len() == L - start - qlen, "payload is not exactly the rest of the submessage");
        }
        None => assert!(!d, "flag D/K set but no payload"),
      }
      assert!(data.writer_id.entity_key[0] == buf[8], "writerId not at its fixed offset");
    }
    Err(_) => assert!(!well_formed, "well-formed DATA rejected"),
  }
  assert!(expect != 0 || r.is_err(), "instance that must be rejected was accepted");
  assert!(expect != 2 || r.is_ok(), "instance that must be accepted was rejected");
  vk_cover!(expect == 0 || r.is_ok(), "accepted");
  vk_cover!(expect == 2 || r.is_err(), "rejected");
  let q_possible = fl.map_or(true, |f| f & 0x02 != 0);
  let d_possible = fl.map_or(true, |f| f & 0x0c != 0);
  let free = o2q.is_none() && L >= 20;
  vk_cover!(!free || (r.is_err() && o > 16), "octetsToInlineQos beyond the buffer (or garbage inline QoS behind it)");
  vk_cover!(!free || (r.is_err() && o < 16), "octetsToInlineQos overlapping the fixed fields");
  vk_cover!(!free || !q_possible || L < 24 || matches!(&r, Ok(x) if x.inline_qos.is_some()), "inline QoS parsed");
  vk_cover!(
    !free || !d_possible || matches!(&r, Ok(x) if matches!(&x.serialized_payload, Some(p) if p.len() < 4)),
    "payload shorter than a SerializedPayload header handed on as is"
  );
  core::mem::forget(r);
  core::mem::forget(bytes);
}
// flags byte concrete per instance (E little/big, Q, D, K), octetsToInlineQos and all else symbolic
data_proof!(c06_data_parse_19_d, 5, data_case::<19>(None, Some(0x05), 0));
data_proof!(c06_data_parse_20_d, 5, data_case::<20>(None, Some(0x05), 1));
data_proof!(c06_data_parse_20_none_be, 5, data_case::<20>(None, Some(0x00), 1));
data_proof!(c06_data_parse_23_k_be, 5, data_case::<23>(None, Some(0x08), 1));
data_proof!(c06_data_parse_24_d, 5, data_case::<24>(None, Some(0x05), 1));
data_proof!(c06_data_parse_24_qd, 5, data_case::<24>(None, Some(0x07), 1));
data_proof!(c06_data_parse_24_q_be, 5, data_case::<24>(None, Some(0x02), 1));
data_proof!(c06_data_parse_28_qd, 6, data_case::<28>(None, Some(0x07), 1));
data_proof!(c06_data_parse_32_qk_be, 7, data_case::<32>(None, Some(0x0a), 1));
data_proof!(c06_data_parse_36_qd, 8, data_case::<36>(None, Some(0x07), 1));
// all five flag bits symbolic as well
data_proof!(c06_data_parse_24_anyflags, 5, data_case::<24>(None, None, 1));
// octetsToInlineQos from the concrete grid {0, 15, 17, L-4, L-3, 0xFFFF}
data_proof!(c06_data_parse_28_qd_o0, 6, data_case::<28>(Some(0), Some(0x07), 0));
data_proof!(c06_data_parse_28_qd_o15, 6, data_case::<28>(Some(15), Some(0x07), 0));
data_proof!(c06_data_parse_28_qd_o17, 6, data_case::<28>(Some(17), Some(0x07), 1));
data_proof!(c06_data_parse_28_d_o24, 6, data_case::<28>(Some(24), Some(0x05), 2));
data_proof!(c06_data_parse_28_qd_o24, 6, data_case::<28>(Some(24), Some(0x07), 0));
data_proof!(c06_data_parse_28_d_o25, 6, data_case::<28>(Some(25), Some(0x05), 0));
data_proof!(c06_data_parse_28_d_omax, 6, data_case::<28>(Some(0xFFFF), Some(0x05), 0));

// ------------------------------------------------------------------------- DATA_FRAG
// DataFrag::deserialize on a Bytes of concrete length L, everything symbolic incl. the flags:
// fragmentStartingNum 0 / beyond the count, fragmentsInSubmessage 0 / 65535, fragmentSize 0
// (division by zero in total_number_of_fragments?) / > sampleSize, sampleSize smaller than
// the payload / 2^32-1, octetsToInlineQos below 28 / beyond the buffer, garbage inline QoS.
//
// Ok additionally implies EXACTLY the validity conditions that FragmentAssembler relies on
// (and c06_frag.rs assumes, nothing more):
//   (D1) writer_sn >= 1
//   (D2) 1 <= fragment_size <= data_size
//   (D3) 1 <= fragment_starting_num <= ceil(data_size / fragment_size)
// and nothing about fragments_in_submessage or the payload length.
/// kani::stub target for DataFrag::total_number_of_fragments in the DATA_FRAG parse harnesses:
/// ANY value (over-approximation: whatever the real function returns is among them), recorded
/// so that (D3) can be stated against the value the decoder compared with.  The two 32-bit
/// divisions of the real function made every instance exceed 600 s; the real function itself
/// is decided panic-free for every (data_size, fragment_size) in c06_datafrag_total_fragments,
/// and one instance (c06_datafrag_parse_32_realdiv, thorough) runs the decoder with it.
pub(crate) static mut LAST_TOTAL: u32 = 0;
#[cfg(kani)]
pub(crate) fn stub_total_number_of_fragments(_this: &DataFrag) -> FragmentNumber {
  let v: u32 = kani::any();
  unsafe {
    LAST_TOTAL = v;
  }
  FragmentNumber::new(v)
}

fn total_fragments_case() {
  let probe = DataFrag {
    reader_id: EntityId::UNKNOWN,
    writer_id: EntityId::UNKNOWN,
    writer_sn: SequenceNumber::new(1),
    fragment_starting_num: FragmentNumber::new(1),
    fragments_in_submessage: 1,
    data_size: vk::any::<u32>(),
    fragment_size: vk::any::<u16>(),
    inline_qos: None,
    serialized_payload: Bytes::new(),
  };
  let t = u32::from(probe.total_number_of_fragments());
  assert!(probe.fragment_size != 0 || t == 0, "fragment_size 0 must yield FragmentNumber::INVALID, not a division");
  vk_cover!(probe.fragment_size == 0, "fragmentSize 0: no division");
  vk_cover!(probe.data_size == u32::MAX && probe.fragment_size == 1, "2^32-1 fragments");
  core::mem::forget(probe);
}
#[cfg_attr(kani, kani::proof, kani::unwind(3))]
#[cfg_attr(verif_replay, test)]
fn c06_datafrag_total_fragments() {
  vk::begin("c06_datafrag_total_fragments");
  total_fragments_case();
  vk::end();
}

macro_rules! datafrag_proof {
  ($name:ident, $unwind:expr, $body:expr) => {
    #[cfg_attr(kani, kani::proof, kani::unwind($unwind))]
    #[cfg_attr(kani, kani::stub(std::fmt::format, crate::verif_env::stub_format))]
    #[cfg_attr(
      kani,
      kani::stub(
        speedy::Reader::read_vec,
        crate::structure::sequence_number::verif_harness_c06_numset::StubReader::stub_read_vec
      )
    )]
    #[cfg_attr(kani, kani::stub(std::vec::Vec::push, crate::verif_env::stub_vec_push))]
    #[cfg_attr(kani, kani::stub(crate::messages::submessages::data_frag::DataFrag::total_number_of_fragments, stub_total_number_of_fragments))]
    #[cfg_attr(verif_replay, test)]
    fn $name() {
      crate::verif_vk::begin(stringify!($name));
      $body;
      crate::verif_vk::end();
    }
  };
}

fn datafrag_case<const L: usize>(o2q: Option<u16>, fl: Option<u8>, expect: u8, real_total: bool) {
  let flags_byte = match fl {
    Some(f) => f,
    None => vk::any::<u8>(),
  };
  let flags = BitFlags::<DATAFRAG_Flags>::from_bits_truncate(flags_byte);
  let e = endianness_flag(flags.bits());
  let mut buf = any_bytes::<L>();
  if let Some(v) = o2q {
    if L >= 4 {
      let b = if e == Endianness::LittleEndian { v.to_le_bytes() } else { v.to_be_bytes() };
      buf[2] = b[0];
      buf[3] = b[1];
    }
  }
  let bytes = crate::verif_env::shared_bytes(&buf);
  let r = DataFrag::deserialize(&bytes, flags);
  let o = if L >= 4 { rd_u16(&buf, 2, e) as usize } else { 0 };
  let q = flags.contains(DATAFRAG_Flags::InlineQos);
  let start = 4 + o;
  match &r {
    Ok(df) => {
      assert!(L >= 32 && o >= 28 && start <= L, "DATA_FRAG with a cut-off header or octetsToInlineQos out of range accepted");
      assert!(!q || ref_plist(&buf, start, e).is_some(), "DATA_FRAG with garbage inline QoS accepted");
      let qlen = if q { ref_plist(&buf, start, e).unwrap().0 } else { 0 };
      assert!(df.inline_qos.is_some() == q);
      assert!(df.serialized_payload.len() == L - start - qlen, "payload is not exactly the rest of the submessage");
      // fields at their wire offsets
      assert!(u32::from(df.fragment_starting_num) == rd_u32(&buf, 20, e));
      assert!(df.fragments_in_submessage == rd_u16(&buf, 24, e));
      assert!(df.fragment_size == rd_u16(&buf, 26, e));
      assert!(df.data_size == rd_u32(&buf, 28, e));
      // (D1) - (D3)
      assert!(df.writer_sn >= SequenceNumber::new(1), "D1");
      assert!(df.fragment_size >= 1 && (df.fragment_size as u32) <= df.data_size, "D2");
      // D3 against the total the decoder compared with (under Kani: the recorded value of the
      // stand-in, i.e. D3 holds whatever total_number_of_fragments returns; natively / in the
      // _realdiv instance: the real function)
      let total = if cfg!(kani) && !real_total { unsafe { LAST_TOTAL } } else { u32::from(df.total_number_of_fragments()) };
      let s = u32::from(df.fragment_starting_num);
      assert!(s >= 1 && s <= total, "D3");
    }
    Err(_) => {}
  }
  let (k0, kmax, dmax, dsmall) = match &r {
    Ok(df) => (
      df.fragments_in_submessage == 0,
      df.fragments_in_submessage == 0xffff && df.serialized_payload.len() <= 8,
      df.data_size == u32::MAX,
      (df.data_size as usize) < df.serialized_payload.len(),
    ),
    Err(_) => (false, false, false, false),
  };
  assert!(expect != 0 || r.is_err(), "instance that must be rejected was accepted");
  vk_cover!(expect == 0 || r.is_ok(), "accepted");
  vk_cover!(r.is_err(), "rejected");
  let free = o2q.is_none() && L >= 32;
  vk_cover!(!free || k0, "fragmentsInSubmessage 0 is let through");
  vk_cover!(!free || kmax, "fragmentsInSubmessage 65535 with a tiny payload is let through");
  vk_cover!(!free || dmax, "sampleSize 2^32-1 is let through");
  vk_cover!(!free || L < 40 || dsmall, "sampleSize smaller than the payload carried is let through");
  vk_cover!(!free || (r.is_err() && o == 28 && rd_u16(&buf, 26, e) == 0), "fragmentSize 0 rejected (no division by zero)");
  vk_cover!(!free || (r.is_err() && o == 28 && rd_u32(&buf, 20, e) == 0), "fragmentStartingNum 0 rejected");
  vk_cover!(!free || (r.is_err() && o > 28), "octetsToInlineQos beyond the buffer (or garbage inline QoS behind it)");
  core::mem::forget(r);
  core::mem::forget(bytes);
}
datafrag_proof!(c06_datafrag_parse_31, 5, datafrag_case::<31>(None, Some(0x01), 0, false));
datafrag_proof!(c06_datafrag_parse_32, 5, datafrag_case::<32>(None, Some(0x01), 1, false));
datafrag_proof!(c06_datafrag_parse_32_be, 5, datafrag_case::<32>(None, Some(0x00), 1, false));
datafrag_proof!(c06_datafrag_parse_36, 6, datafrag_case::<36>(None, Some(0x01), 1, false));
datafrag_proof!(c06_datafrag_parse_36_q, 6, datafrag_case::<36>(None, Some(0x03), 1, false));
datafrag_proof!(c06_datafrag_parse_40_k_be, 6, datafrag_case::<40>(None, Some(0x04), 1, false));
datafrag_proof!(c06_datafrag_parse_40_q, 7, datafrag_case::<40>(None, Some(0x03), 1, false));
datafrag_proof!(c06_datafrag_parse_48_q_be, 9, datafrag_case::<48>(None, Some(0x02), 1, false));
datafrag_proof!(c06_datafrag_parse_36_anyflags, 6, datafrag_case::<36>(None, None, 1, false));
// octetsToInlineQos from the concrete grid {0, 27, 29, L-4, L-3, 0xFFFF}
datafrag_proof!(c06_datafrag_parse_40_o0, 6, datafrag_case::<40>(Some(0), Some(0x01), 0, false));
datafrag_proof!(c06_datafrag_parse_40_o27, 6, datafrag_case::<40>(Some(27), Some(0x01), 0, false));
datafrag_proof!(c06_datafrag_parse_40_o29, 6, datafrag_case::<40>(Some(29), Some(0x01), 1, false));
datafrag_proof!(c06_datafrag_parse_40_o36, 6, datafrag_case::<40>(Some(36), Some(0x01), 1, false));
datafrag_proof!(c06_datafrag_parse_40_o37, 6, datafrag_case::<40>(Some(37), Some(0x01), 0, false));
datafrag_proof!(c06_datafrag_parse_40_omax, 6, datafrag_case::<40>(Some(0xFFFF), Some(0x01), 0, false));
// the decoder with the REAL total_number_of_fragments (two 32-bit divisions by a symbolic divisor)
data_proof!(c06_datafrag_parse_32_realdiv, 5, datafrag_case::<32>(None, Some(0x01), 1, true));
