// C15 — per-parameter round trips of the parts the discovery records are made of, and the
// generators the record harnesses (c15_sedp.rs, c15_spdp.rs) share.
// Child module of crate::serialization::speedy_pl_cdr_helpers (sees StringWithNul's field).
//
// Path under test (all real code): <T as speedy::Writable>::write_to -> bytes ->
// <T as speedy::Readable>::read_from, both byte orders — the calls the emit! / get_*_from_pl_map
// helpers of every record make for one parameter value.
#![allow(dead_code, unused_imports, unused_macros, clippy::all)]
use std::net::{Ipv4Addr, Ipv6Addr, SocketAddrV4, SocketAddrV6};

use speedy::Endianness;

use super::*;
use crate::{
  dds::qos::verif_harness_c15_qos::{any_duration, must, StubReadable, StubWritable},
  discovery::builtin_endpoint::{BuiltinEndpointQos, BuiltinEndpointSet},
  structure::{
    duration::Duration,
    guid::{EntityId, GuidPrefix, GUID},
    locator::Locator,
  },
  verif_vk as vk,
  verif_vk::vk_cover,
};

// ------------------------------------------------------------------------- environment
/// kani::stub target for String::from_utf8 (speedy's String reader calls it).  std's
/// run_utf8_validation on symbolic bytes costs 768 loop unwindings for a 3-byte string (its
/// word-at-a-time ASCII fast path depends on the buffer's alignment).  Strings are ASCII in
/// every C15 harness (stated bound), so this checks exactly that — as an ASSERTION, so a
/// corrupted byte coming out of the code under test is reported, not assumed away.
/// Natively (replay) the real from_utf8 runs.
#[cfg(kani)]
pub(crate) fn stub_string_from_utf8(v: Vec<u8>) -> Result<String, std::string::FromUtf8Error> {
  let mut i = 0;
  while i < v.len() {
    assert!(v[i] < 128, "non-ASCII byte reached String::from_utf8 (outside the harness bound)");
    i += 1;
  }
  Ok(unsafe { String::from_utf8_unchecked(v) })
}
/// kani::stub target for chrono::Utc::now (clock_gettime FFI); natively the real clock runs.
/// `updated_time` is receive time by design and is never compared.
#[cfg(kani)]
pub(crate) fn fixed_now() -> chrono::DateTime<chrono::Utc> {
  chrono::DateTime::from_timestamp(1_790_000_000, 0).unwrap()
}
/// kani::stub target for std::time::Instant::now (`last_updated`, never compared)
#[cfg(kani)]
pub(crate) fn zero_instant() -> std::time::Instant {
  unsafe { core::mem::zeroed() }
}

/// Harness declaration of every new C15 harness: c15_proof! of c15_qos.rs (format! and the
/// two speedy entry points) plus String::from_utf8 and the two clocks.  No Vec::push stub:
/// every push in these harnesses happens under a concrete condition, and the stub's 16-slot
/// buffer (512 bytes of Parameter) would exceed the field-sensitivity limit.
macro_rules! c15_record_proof {
  ($name:ident, $unwind:literal, $body:block) => {
    #[cfg_attr(kani, kani::proof, kani::unwind($unwind))]
    #[cfg_attr(kani, kani::stub(std::fmt::format, crate::verif_env::stub_format))]
    #[cfg_attr(
      kani,
      kani::stub(
        speedy::Readable::read_from_buffer_with_ctx,
        crate::dds::qos::verif_harness_c15_qos::StubReadable::stub_read_from_buffer_with_ctx
      )
    )]
    #[cfg_attr(
      kani,
      kani::stub(
        speedy::Writable::write_to_vec_with_ctx,
        crate::dds::qos::verif_harness_c15_qos::StubWritable::stub_write_to_vec_with_ctx
      )
    )]
    #[cfg_attr(
      kani,
      kani::stub(
        std::string::String::from_utf8,
        crate::serialization::speedy_pl_cdr_helpers::verif_harness_c15_parts::stub_string_from_utf8
      )
    )]
    #[cfg_attr(
      kani,
      kani::stub(
        chrono::Utc::now,
        crate::serialization::speedy_pl_cdr_helpers::verif_harness_c15_parts::fixed_now
      )
    )]
    #[cfg_attr(
      kani,
      kani::stub(
        std::time::Instant::now,
        crate::serialization::speedy_pl_cdr_helpers::verif_harness_c15_parts::zero_instant
      )
    )]
    #[cfg_attr(verif_replay, test)]
    fn $name() {
      crate::verif_vk::begin(stringify!($name));
      $body;
      crate::verif_vk::end();
    }
  };
}
pub(crate) use c15_record_proof;

// ------------------------------------------------------------------------- generators
/// GUID with 16 symbolic bytes (prefix, entity key and entity kind all unconstrained).
pub(crate) fn any_guid() -> GUID {
  let mut b = [0u8; 16];
  let mut i = 0;
  while i < 16 {
    b[i] = vk::any();
    i += 1;
  }
  GUID::from_bytes(b)
}

pub(crate) fn any_guid_prefix() -> GuidPrefix {
  let mut bytes = [0u8; 12];
  let mut i = 0;
  while i < 12 {
    bytes[i] = vk::any();
    i += 1;
  }
  GuidPrefix { bytes }
}

/// Locator of the CONCRETE variant `v`, symbolic contents.
///   0 Invalid, 1 Reserved, 2 UdpV4 (any address, any port), 3 UdpV6 (any address, any port,
///   flowinfo = scope_id = 0: RTPS Locator_t has no field for them and RustDDS builds its own
///   locators with SocketAddr::new, which zeroes both), 4 Other {kind outside -1..=2}.
pub(crate) const N_LOCATOR: u8 = 5;
pub(crate) fn locator_v(v: u8) -> Locator {
  match v % N_LOCATOR {
    0 => Locator::Invalid,
    1 => Locator::Reserved,
    2 => Locator::UdpV4(SocketAddrV4::new(
      Ipv4Addr::new(vk::any(), vk::any(), vk::any(), vk::any()),
      vk::any::<u16>(),
    )),
    3 => {
      let mut a = [0u8; 16];
      let mut i = 0;
      while i < 16 {
        a[i] = vk::any();
        i += 1;
      }
      Locator::UdpV6(SocketAddrV6::new(Ipv6Addr::from(a), vk::any::<u16>(), 0, 0))
    }
    _ => {
      let kind: i32 = vk::any();
      // -1, 0, 1, 2 ARE the four variants above; `Other` with one of them is a value the
      // decoder never produces and RustDDS never builds (outside the property).
      vk::assume(kind < -1 || kind > 2);
      let mut address = [0u8; 16];
      let mut i = 0;
      while i < 16 {
        address[i] = vk::any();
        i += 1;
      }
      Locator::Other {
        kind,
        port: vk::any(),
        address,
      }
    }
  }
}

/// String of CONCRETE length n (<= 4), symbolic non-NUL ASCII bytes.
pub(crate) fn ascii_string(n: usize) -> String {
  let mut v: Vec<u8> = Vec::with_capacity(4);
  let mut i = 0;
  while i < n {
    let b: u8 = vk::any();
    vk::assume(b >= 1 && b < 128);
    v.push(b);
    i += 1;
  }
  // ASCII by construction
  unsafe { String::from_utf8_unchecked(v) }
}

/// bytewise string equality with a plain loop (no memcmp, no unwinding surprises)
pub(crate) fn str_eq(a: &str, b: &str) -> bool {
  let (a, b) = (a.as_bytes(), b.as_bytes());
  if a.len() != b.len() {
    return false;
  }
  let mut ok = true;
  let mut i = 0;
  while i < a.len() {
    ok &= a[i] == b[i];
    i += 1;
  }
  ok
}

pub(crate) fn any_builtin_endpoint_qos() -> BuiltinEndpointQos {
  // the field is private to discovery::builtin_endpoint and there is no constructor: go
  // through the real reader (any 32-bit value)
  let b: [u8; 4] = vk::any::<u32>().to_le_bytes();
  must!(
    BuiltinEndpointQos::read_from_buffer_with_ctx(Endianness::LittleEndian, &b),
    "BuiltinEndpointQos decode"
  )
}

// ------------------------------------------------------------------------- the wire path
/// one value -> bytes -> value, as emit! / get_first_from_pl_map do it for one parameter
pub(crate) fn over_the_wire<T>(x: &T, ctx: Endianness, wire_len: usize) -> T
where
  T: for<'a> speedy::Readable<'a, Endianness> + speedy::Writable<Endianness>,
{
  let bytes: Vec<u8> = must!(x.write_to_vec_with_ctx(ctx), "write failed");
  assert!(bytes.len() == wire_len, "unexpected size on the wire");
  let y = must!(T::read_from_buffer_with_ctx(ctx, &bytes), "read failed");
  core::mem::forget(bytes);
  y
}

// Locator: every variant RustDDS produces or keeps, any address / port, LE and BE; one
// variant per harness instance.
macro_rules! locator_part {
  ($name:ident, $v:expr) => {
    c15_record_proof!($name, 20, {
      let x = locator_v($v);
      let le = over_the_wire(&x, Endianness::LittleEndian, 24);
      assert!(le == x, "Locator changed over the wire (little endian)");
      let be = over_the_wire(&x, Endianness::BigEndian, 24);
      assert!(be == x, "Locator changed over the wire (big endian)");
      vk_cover!(
        $v != 2 || matches!(x, Locator::UdpV4(a) if a.port() == 7400 && a.ip().octets()[0] == 239),
        "UdpV4 239.x.x.x:7400"
      );
    });
  };
}
locator_part!(c15_part_locator_invalid, 0);
locator_part!(c15_part_locator_reserved, 1);
locator_part!(c15_part_locator_udp4, 2);
locator_part!(c15_part_locator_udp6, 3);
locator_part!(c15_part_locator_other, 4);

// GUID, Duration, BuiltinEndpointSet, BuiltinEndpointQos: every bit pattern, LE and BE.
c15_record_proof!(c15_part_guid_duration_endpoints, 20, {
  let g = any_guid();
  assert!(over_the_wire(&g, Endianness::LittleEndian, 16) == g, "GUID changed (LE)");
  assert!(over_the_wire(&g, Endianness::BigEndian, 16) == g, "GUID changed (BE)");
  let d = any_duration();
  assert!(over_the_wire(&d, Endianness::LittleEndian, 8) == d, "Duration changed (LE)");
  assert!(over_the_wire(&d, Endianness::BigEndian, 8) == d, "Duration changed (BE)");
  let s = BuiltinEndpointSet::from_u32(vk::any());
  assert!(over_the_wire(&s, Endianness::LittleEndian, 4) == s, "BuiltinEndpointSet changed (LE)");
  assert!(over_the_wire(&s, Endianness::BigEndian, 4) == s, "BuiltinEndpointSet changed (BE)");
  let q = any_builtin_endpoint_qos();
  assert!(over_the_wire(&q, Endianness::LittleEndian, 4) == q, "BuiltinEndpointQos changed (LE)");
  assert!(over_the_wire(&q, Endianness::BigEndian, 4) == q, "BuiltinEndpointQos changed (BE)");
  vk_cover!(d == Duration::INFINITE && g.entity_id == EntityId::SPDP_BUILTIN_PARTICIPANT_WRITER,
    "infinite duration, builtin entity id");
});

// StringWithNul: lengths 0..=3, any non-NUL ASCII contents; wire form = u32 length (with NUL),
// the bytes, one NUL — no padding inside the value (the Parameter writer pads).
macro_rules! string_part {
  ($name:ident, $n:expr) => {
    c15_record_proof!($name, 20, {
      let s = ascii_string($n);
      let x = StringWithNul::from(s);
      let le = over_the_wire(&x, Endianness::LittleEndian, 4 + $n + 1);
      assert!(str_eq(&le.string, &x.string), "string changed over the wire (little endian)");
      let be = over_the_wire(&x, Endianness::BigEndian, 4 + $n + 1);
      assert!(str_eq(&be.string, &x.string), "string changed over the wire (big endian)");
      assert!(x.len() == $n + 1);
      vk_cover!($n == 0 || x.string.as_bytes()[0] == b'Z', "a capital letter");
      core::mem::forget(le);
      core::mem::forget(be);
      core::mem::forget(x);
    });
  };
}
string_part!(c15_part_string_len0, 0);
string_part!(c15_part_string_len1, 1);
string_part!(c15_part_string_len2, 2);
string_part!(c15_part_string_len3, 3);
