// C06 ("time or memory out of proportion to the bytes received") on RtpsWriterProxy — child
// module of crate::rtps::rtps_writer_proxy.
//
// A HEARTBEAT is 32 bytes on the wire; its firstSN / lastSN are free 64-bit numbers.
// Reader::handle_heartbeat_msg hands them to RtpsWriterProxy::missing_seqnums and sends back at
// most the 256 sequence numbers an ACKNACK can carry.  What is decided here: the Vec that
// missing_seqnums builds (memory AND loop iterations, one per element) stays below an explicit
// bound for every advertised range.  The bound is a judgement: 300 sequence numbers for one 32-byte
// submessage (the ACKNACK answering the HEARTBEAT can carry 256; nothing beyond that is of any use).
// A repair that caps the work higher than 300 needs WORK_BOUND raised.  (8192 and 1024 were tried
// first: the unrepaired loop reached iteration 2048 in 25 minutes of symbolic execution, and the
// 1024 instance ran out of memory in the solver.)
#![allow(dead_code, unused_imports, unused_macros, unused_variables, unused_mut, clippy::all)]
use super::*;
use crate::{
  structure::guid::{EntityId, GuidPrefix, GUID},
  verif_vk as vk,
  verif_vk::vk_cover,
};

pub(crate) const WORK_BOUND: usize = 300; // sequence numbers; the ACKNACK answering the HEARTBEAT can carry 256

fn fresh_proxy() -> RtpsWriterProxy {
  RtpsWriterProxy::new(
    GUID::new(
      GuidPrefix {
        bytes: [1, 1, 2, 3, 4, 5, 6, 7, 8, 9, 10, 11],
      },
      EntityId::UNKNOWN,
    ),
    Vec::new(),
    Vec::new(),
    EntityId::UNKNOWN,
  )
}

/// HEARTBEAT(first, last) with last - first + 1 in WORK_BOUND+1 ..= WORK_BOUND+3 on a proxy that
/// has received nothing.  (The width is kept in a narrow band so that the loop that is being
/// judged can be unwound completely: a wider advertised range only makes it worse.)
fn hb_range_work(first: i64) {
  let p = fresh_proxy();
  let extra = vk::range_i64(1, 3);
  let last = first + (WORK_BOUND as i64) - 1 + extra;
  let m = p.missing_seqnums(SequenceNumber::new(first), SequenceNumber::new(last));
  assert!(
    m.len() <= WORK_BOUND,
    "memory retained and loop iterations out of proportion to one HEARTBEAT"
  );
  // what the caller needs is still there: the lowest missing SN comes first
  assert!(m.first().copied() == Some(SequenceNumber::new(first)), "lowest missing SN is not first");
  vk_cover!(extra == 2, "middle width");
  core::mem::forget(m);
  core::mem::forget(p);
}

#[cfg_attr(kani, kani::proof, kani::unwind(306))]
#[cfg_attr(verif_replay, test)]
fn c06_wproxy_hb_range_work_from_1() {
  vk::begin("c06_wproxy_hb_range_work_from_1");
  hb_range_work(1);
  vk::end();
}

#[cfg_attr(kani, kani::proof, kani::unwind(306))]
#[cfg_attr(verif_replay, test)]
fn c06_wproxy_hb_range_work_from_2_40() {
  vk::begin("c06_wproxy_hb_range_work_from_2_40");
  hb_range_work(1i64 << 40);
  vk::end();
}
