// C08 harnesses on the real DataSampleCache — child module of
// crate::dds::with_key::datasample_cache (sees private fields `datasamples`, `instance_map`).
//
// The cache is driven exactly the way with_key::DataReader drives it:
//   arrival        -> add_sample(..)                      (fill_from_deserialized_cache_change)
//   read(max,c)    -> select_keys_for_access(c); truncate(max); read_by_keys
//   take(max,c)    -> select_keys_for_access(c); truncate(max); take_by_keys
//   *_instance     -> select_instance_keys_for_access(key, c); truncate(max); *_by_keys
//                     (This: the key itself, Next: next_key(key))
//   iterators      -> read_bare_by_keys / take_bare_by_keys on the same selections
// and compared, step by step, with a short reference model of DDS 1.4 2.2.2.5.1.
#![allow(dead_code, unused_imports, unused_variables, clippy::all)]
use super::*;
use crate::{
  structure::guid::{EntityId, EntityKind, GuidPrefix},
  verif_vk as vk,
  verif_vk::vk_cover,
};

// ------------------------------------------------------------------ tiny keyed type
#[derive(Clone, Copy, PartialEq, Eq, Debug)]
pub(crate) struct VKeyed {
  pub(crate) k: u8,
  pub(crate) v: u8,
}
impl Keyed for VKeyed {
  type K = u8;
  fn key(&self) -> u8 {
    self.k
  }
}

pub(crate) type Cache = DataSampleCache<VKeyed>;

pub(crate) fn writer_guid(n: u8) -> GUID {
  // struct literal: GuidPrefix::new has a 12-iteration copy loop
  GUID::new(
    GuidPrefix {
      bytes: [n, 1, 2, 3, 4, 5, 6, 7, 8, 9, 10, 11],
    },
    EntityId::new([0, 0, n], EntityKind::WRITER_WITH_KEY_USER_DEFINED),
  )
}
pub(crate) fn writer_of(g: &GUID) -> u8 {
  g.prefix.bytes[0]
}

#[derive(Clone, Copy, PartialEq, Eq)]
pub(crate) enum Hist {
  Unset, // QosPolicies without History: the default is KeepLast(1)
  KeepLast(i32),
  KeepAll,
}

pub(crate) fn new_cache(h: Hist) -> Cache {
  let mut qos = QosPolicies::qos_none();
  qos.history = match h {
    Hist::Unset => None,
    Hist::KeepLast(depth) => Some(policy::History::KeepLast { depth }),
    Hist::KeepAll => Some(policy::History::KeepAll),
  };
  DataSampleCache::new(qos)
}

pub(crate) fn depth_of(h: Hist) -> Option<usize> {
  match h {
    Hist::Unset => Some(1),
    Hist::KeepLast(d) => Some(d as usize),
    Hist::KeepAll => None,
  }
}

pub(crate) fn ts_of(j: usize) -> Timestamp {
  // receive timestamps: concrete, strictly increasing with the arrival index
  Timestamp::from_ticks(100 + j as u64)
}

// ------------------------------------------------------------------ std sort stand-in
// DataSampleCache::sort_by_sequence_number is one call of std `sort_by_cached_key` keyed by the
// stored sequence number.  The std routine is intractable for CBMC on a slice of symbolic
// length (allocation of symbolic size, ipnsort branch for len > 20, permutation loop with
// symbolic indices: > 6 GB for one element), and Kani 0.68 refuses to stub the generic slice
// method itself ("Expected type `&mut [T]` ... found `&mut [T]`").  So the 3-line RustDDS
// function is replaced under Kani by a stable bubble sort (concrete indices, <= CAP elements)
// with the SAME key expression; natively (replay) the real function and std sort run.
#[cfg(kani)]
pub(crate) fn stub_sort_by_sequence_number<D: Keyed>(this: &DataSampleCache<D>, keys: &mut [(Timestamp, D::K)]) {
  use crate::verif_env::CAP;
  let n = keys.len();
  kani::assume(n <= CAP);
  // same key expression as the original closure (panics like it if a timestamp is unknown)
  let mut sn: [SequenceNumber; CAP] = [SequenceNumber::new(0); CAP];
  let mut j = 0;
  while j < CAP {
    if j < n {
      sn[j] = this.datasamples.get(&keys[j].0).unwrap().sequence_number;
    }
    j += 1;
  }
  let mut pass = 0;
  while pass + 1 < CAP {
    let mut j = 1;
    while j < CAP {
      if j < n && sn[j] < sn[j - 1] {
        // element-wise exchange (slice::swap goes through a byte-wise ptr::swap, after which CBMC no
        // longer sees the concrete timestamps of a concrete selection)
        let t = sn[j];
        sn[j] = sn[j - 1];
        sn[j - 1] = t;
        let kt = keys[j].clone();
        keys[j] = keys[j - 1].clone();
        keys[j - 1] = kt;
      }
      j += 1;
    }
    pass += 1;
  }
}

// (`Vec::with_capacity` / `Vec::push`: crate::verif_env stand-ins.)  `VecDeque::with_capacity(n)` with a symbolic n (result length of a
// selection) is an allocation of symbolic size, which CBMC handles 100-1000x slower: allocate
// a concrete VCAP elements instead; n > VCAP is outside the bound.
pub(crate) const VCAP: usize = 8;
#[cfg(kani)]
pub(crate) fn stub_vecdeque_with_capacity<T>(n: usize) -> VecDeque<T> {
  kani::assume(n <= VCAP);
  let mut v = VecDeque::new();
  v.reserve_exact(VCAP);
  v
}

// ------------------------------------------------------------------ cheapest end-to-end
#[cfg_attr(kani, kani::proof, kani::unwind(6))]
#[cfg_attr(kani, kani::stub(std::fmt::format, crate::verif_env::stub_format))]
#[cfg_attr(kani, kani::stub(DataSampleCache::sort_by_sequence_number, stub_sort_by_sequence_number))]
#[cfg_attr(kani, kani::stub(std::vec::Vec::with_capacity, crate::verif_env::stub_vec_with_capacity))]
#[cfg_attr(kani, kani::stub(std::collections::VecDeque::with_capacity, stub_vecdeque_with_capacity))]
#[cfg_attr(kani, kani::stub(std::vec::Vec::push, crate::verif_env::stub_vec_push))]
#[cfg_attr(verif_replay, test)]
fn c08_single_value_take() {
  vk::begin("c08_single_value_take");
  let mut c = new_cache(Hist::KeepLast(1));
  let k = vk::range_u8(0, 1);
  let v: u8 = vk::any();
  c.add_sample(
    Sample::Value(VKeyed { k, v }),
    writer_guid(1),
    SequenceNumber::new(1),
    ts_of(0),
    WriteOptions::from(None),
  );
  let keys = c.select_keys_for_access(ReadCondition::any());
  assert!(keys.len() == 1, "one sample received, one selected");
  let arr = [keys[0]]; // concrete length for take_by_keys
  let res = c.take_by_keys(&arr);
  assert!(res.len() == 1, "take returns the one received sample");
  {
    let r = &res[0];
    let si = r.sample_info();
    assert!(si.sample_state() == SampleState::NotRead, "never read before");
    assert!(si.view_state() == ViewState::New, "first access of the instance");
    assert!(si.instance_state() == InstanceState::Alive, "a value keeps the instance alive");
    assert!(si.disposed_generation_count() == 0 && si.no_writers_generation_count() == 0);
    assert!(si.sequence_number == SequenceNumber::new(1) && writer_of(&si.publication_handle) == 1);
    match r.value() {
      Sample::Value(d) => assert!(d.k == k && d.v == v, "payload intact"),
      Sample::Dispose(_) => assert!(false, "value turned into dispose"),
    }
  }
  let keys2 = c.select_keys_for_access(ReadCondition::any());
  assert!(keys2.is_empty(), "a taken sample is gone");
  let res2 = c.take_by_keys(&[]);
  assert!(res2.is_empty(), "second take returns nothing");
  vk_cover!(k == 1 && v == 200, "key 1, payload 200");
  core::mem::forget(res);
  core::mem::forget(res2);
  core::mem::forget(keys);
  core::mem::forget(keys2);
  core::mem::forget(c);
  vk::end();
}

// ------------------------------------------------------------------ reference model
// DDS 1.4 2.2.2.5.1 (SampleInfo), per instance and per sample; slot = step index of the
// arrival (concrete), so every array index in the model is concrete.
pub(crate) const MAXS: usize = 4; // steps per harness <= MAXS (<= SHIM_CAP)

#[derive(Clone, Copy)]
struct MSample {
  exists: bool, // an arrival happened at this step
  avail: bool,  // received, not taken, not evicted by History
  key: u8,
  writer: u8,
  sn: i64,
  is_value: bool,
  v: u8,
  read: bool, // sample_state
  dgc: i32,   // disposed_generation_count snapshot at reception (2.2.2.5.1.5)
}
#[derive(Clone, Copy)]
struct MInst {
  known: bool,
  alive: bool, // ALIVE / NOT_ALIVE_DISPOSED (NOT_ALIVE_NO_WRITERS is never produced by RustDDS)
  dgc: i32,    // current disposed_generation_count
  // view_state (2.2.2.5.1.8).  NEW <=> first access of the most recent generation.  Two
  // readings of the text differ when an access touched only samples of an OLDER generation:
  //   touched : some sample of the instance was accessed since it was (re)born
  //   viewed  : a sample of the most recent generation was accessed
  // The oracle only asserts where both readings agree: !touched => NEW, viewed => NOT_NEW.
  touched: bool,
  viewed: bool,
  last: usize, // slot of the most recent sample of the instance
}
struct Model {
  s: [MSample; MAXS],
  i: [MInst; 2],
  next_sn: [i64; 2],
}

fn model_new(base2: i64) -> Model {
  Model {
    s: [MSample {
      exists: false,
      avail: false,
      key: 0,
      writer: 0,
      sn: 0,
      is_value: false,
      v: 0,
      read: false,
      dgc: 0,
    }; MAXS],
    i: [MInst {
      known: false,
      alive: false,
      dgc: 0,
      touched: false,
      viewed: false,
      last: 0,
    }; 2],
    next_sn: [10, base2],
  }
}

fn popcount(x: u8) -> usize {
  let mut n = 0;
  let mut b = 0;
  while b < MAXS {
    if x & (1 << b) != 0 {
      n += 1;
    }
    b += 1;
  }
  n
}

/// the cache holds exactly the samples the model says are available
fn ghost_agrees(c: &Cache, m: &Model, upto: usize) -> bool {
  let mut ok = true;
  let mut cnt = 0;
  let mut s = 0;
  while s < MAXS {
    if s <= upto {
      let present = c.datasamples.contains_key(&ts_of(s));
      ok = ok && (present == (m.s[s].exists && m.s[s].avail));
      if present {
        cnt += 1;
      }
    }
    s += 1;
  }
  ok && c.datasamples.len() == cnt
}

// ------------------------------------------------------------------ arrival
fn step_arrival(c: &mut Cache, m: &mut Model, step: usize, hist: Hist, key: Option<u8>) {
  let key = match key {
    Some(k) => k,
    None => vk::range_u8(0, 1),
  };
  let w = vk::range_u8(0, 1); // writer index: GUID writer_guid(w + 1)
  let is_value: bool = vk::any();
  let v = 10 + step as u8;
  // next sequence number of that writer
  let mut sn = 0;
  let mut wi = 0;
  while wi < 2 {
    if wi == w as usize {
      sn = m.next_sn[wi];
      m.next_sn[wi] += 1;
    }
    wi += 1;
  }
  // model: instance life cycle
  let mut dgc_now = 0;
  let mut ii = 0;
  while ii < 2 {
    if ii == key as usize {
      let inst = &mut m.i[ii];
      if !inst.known {
        inst.known = true;
        inst.dgc = 0;
        inst.touched = false;
        inst.viewed = false;
      } else if !inst.alive && is_value {
        inst.dgc += 1; // NOT_ALIVE_DISPOSED -> ALIVE
        inst.touched = false;
        inst.viewed = false;
      }
      inst.alive = is_value;
      inst.last = step;
      dgc_now = inst.dgc;
    }
    ii += 1;
  }
  m.s[step] = MSample {
    exists: true,
    avail: true,
    key,
    writer: w,
    sn,
    is_value,
    v,
    read: false,
    dgc: dgc_now,
  };
  c.add_sample(
    if is_value {
      Sample::Value(VKeyed { k: key, v })
    } else {
      Sample::Dispose(key)
    },
    writer_guid(w + 1),
    SequenceNumber::new(sn),
    ts_of(step),
    WriteOptions::from(None),
  );
  // observe what History left; nothing taken/evicted may come back
  let mut s = 0;
  while s < MAXS {
    if s <= step && m.s[s].exists {
      let present = c.datasamples.contains_key(&ts_of(s));
      assert!(!(present && !m.s[s].avail), "a taken or evicted sample reappeared");
      m.s[s].avail = present;
    }
    s += 1;
  }
  // KeepLast(depth): at most depth samples of the instance, all among its depth most recent
  if let Some(depth) = depth_of(hist) {
    let mut cnt = 0;
    let mut s = 0;
    while s < MAXS {
      if s <= step && m.s[s].exists && m.s[s].avail && m.s[s].key == key {
        cnt += 1;
        let mut newer = 0;
        let mut u = s + 1;
        while u < MAXS {
          if u <= step && m.s[u].exists && m.s[u].key == key {
            newer += 1;
          }
          u += 1;
        }
        assert!(newer < depth, "a sample older than the depth most recent of its instance is still available");
      }
      s += 1;
    }
    assert!(cnt <= depth, "more than depth samples of one instance available");
  }
}

// ------------------------------------------------------------------ read / take
/// checks one returned sample against the model; returns its slot
fn check_one(
  m: &Model,
  si: &SampleInfo,
  val: (bool, u8, u8),
  expected: u8,
  seen: &mut u8,
  last_sn: &mut [i64; 2],
) {
  let w = writer_of(&si.publication_handle) - 1;
  let sn = i64::from(si.sequence_number);
  let mut found = false;
  let mut s = 0;
  while s < MAXS {
    let ms = &m.s[s];
    if ms.exists && ms.writer == w && ms.sn == sn {
      found = true;
      assert!(expected & (1 << s) != 0, "returned a sample that is taken, evicted or not selected by the condition");
      assert!(*seen & (1 << s) == 0, "same sample twice in one result");
      *seen |= 1 << s;
      assert!(
        (si.sample_state() == SampleState::Read) == ms.read,
        "sample_state differs from the model"
      );
      // payload / key
      assert!(val.0 == ms.is_value && val.1 == ms.key && (!ms.is_value || val.2 == ms.v), "payload differs");
      // generation counts: snapshot at reception
      assert!(
        si.disposed_generation_count() == ms.dgc && si.no_writers_generation_count() == 0,
        "generation counts differ from the model"
      );
      let mut ii = 0;
      while ii < 2 {
        if ii == ms.key as usize {
          let inst = &m.i[ii];
          // instance_state: snapshot at the time of the call
          assert!(
            si.instance_state()
              == if inst.alive {
                InstanceState::Alive
              } else {
                InstanceState::NotAliveDisposed
              },
            "instance_state differs from the model"
          );
          if inst.last == s {
            // most recent sample of its instance
            if !inst.touched {
              assert!(si.view_state() == ViewState::New, "first access of this generation must be NEW");
            }
            if inst.viewed {
              assert!(
                si.view_state() == ViewState::NotNew,
                "most recent generation already accessed and not reborn since: must be NOT_NEW"
              );
            }
          }
        }
        ii += 1;
      }
    }
    s += 1;
  }
  assert!(found, "returned a sample that was never received");
  // samples of one writer in sequence-number order
  let mut wi = 0;
  while wi < 2 {
    if wi == w as usize {
      assert!(sn > last_sn[wi], "samples of one writer out of sequence-number order");
      last_sn[wi] = sn;
    }
    wi += 1;
  }
}

pub(crate) fn value_of(s: &Sample<VKeyed, u8>) -> (bool, u8, u8) {
  match s {
    Sample::Value(d) => (true, d.k, d.v),
    Sample::Dispose(k) => (false, *k, 0),
  }
}
pub(crate) fn value_of_ref(s: &Sample<&VKeyed, u8>) -> (bool, u8, u8) {
  match s {
    Sample::Value(d) => (true, d.k, d.v),
    Sample::Dispose(k) => (false, *k, 0),
  }
}

/// read_by_keys / take_by_keys exactly as DataReader calls them, every returned SampleInfo
/// checked; returns the set of returned slots.
fn access(c: &mut Cache, m: &Model, keys: &[(Timestamp, u8)], take: bool, expected: u8) -> u8 {
  let n = keys.len();
  let mut seen = 0u8;
  let mut last_sn = [i64::MIN; 2];
  if take {
    let res = c.take_by_keys(keys);
    assert!(res.len() == n, "take returns one sample per selected key");
    let mut j = 0;
    while j < MAXS {
      if j < n {
        check_one(m, res[j].sample_info(), value_of(res[j].value()), expected, &mut seen, &mut last_sn);
      }
      j += 1;
    }
    core::mem::forget(res);
  } else {
    let res = c.read_by_keys(keys);
    assert!(res.len() == n, "read returns one sample per selected key");
    let mut j = 0;
    while j < MAXS {
      if j < n {
        check_one(m, res[j].sample_info(), value_of_ref(res[j].value()), expected, &mut seen, &mut last_sn);
      }
      j += 1;
    }
    core::mem::forget(res);
  }
  seen
}

#[derive(Clone, Copy, PartialEq, Eq)]
pub(crate) enum Scope {
  All,      // read / take
  Instance, // read_instance / take_instance, SelectByKey::This or ::Next
}

fn step_access(
  c: &mut Cache,
  m: &mut Model,
  step: usize, // number of arrivals so far
  take: bool,
  scope: Scope,
  not_read: Option<bool>,
  limit1: Option<bool>,
) {
  let not_read: bool = match not_read {
    Some(b) => b,
    None => vk::any(),
  };
  // max_samples = 1 (read_next_sample / take_next_sample) or unlimited
  let limit1: bool = match limit1 {
    Some(b) => b,
    None => vk::any(),
  };
  let cond = if not_read {
    ReadCondition::not_read()
  } else {
    ReadCondition::any()
  };
  // which instance (Scope::Instance): This(key) or Next(key) exactly like DataReader::infer_key
  let mut inst_key: Option<u8> = None;
  let keys = match scope {
    Scope::All => c.select_keys_for_access(cond),
    Scope::Instance => {
      let key = vk::range_u8(0, 1);
      let next: bool = vk::any();
      inst_key = if next { c.next_key(&key) } else { Some(key) };
      if next {
        // model of SelectByKey::Next: the smallest known instance key greater than `key`
        let expect = if key == 0 && m.i[1].known { Some(1u8) } else { None };
        assert!(inst_key == expect, "Next does not select the next known instance");
      }
      match inst_key {
        Some(k) => c.select_instance_keys_for_access(&k, cond),
        None => Vec::new(),
      }
    }
  };
  // expected selection
  let mut expected = 0u8;
  let mut s = 0;
  while s < MAXS {
    let ms = &m.s[s];
    if s < step && ms.exists && ms.avail && (!not_read || !ms.read) { // slots of earlier arrivals
      let in_scope = match scope {
        Scope::All => true,
        Scope::Instance => inst_key == Some(ms.key),
      };
      if in_scope {
        expected |= 1 << s;
      }
    }
    s += 1;
  }
  let n0 = keys.len();
  assert!(n0 == popcount(expected), "the condition does not select exactly the matching samples");
  let n = if limit1 && n0 > 1 { 1 } else { n0 }; // Vec::truncate(max_samples)
  let seen = access(c, m, &keys[..n], take, expected);
  core::mem::forget(keys);
  if n == n0 {
    assert!(seen == expected, "a matching sample is missing from the result");
  }
  // model update: sample_state, availability, view_state
  let mut s = 0;
  while s < MAXS {
    if seen & (1 << s) != 0 {
      if take {
        m.s[s].avail = false;
      } else {
        m.s[s].read = true;
      }
      let key = m.s[s].key;
      let dgc = m.s[s].dgc;
      let mut ii = 0;
      while ii < 2 {
        if ii == key as usize {
          m.i[ii].touched = true;
          if dgc == m.i[ii].dgc {
            m.i[ii].viewed = true;
          }
        }
        ii += 1;
      }
    }
    s += 1;
  }
  // take removed exactly the returned samples, read removed nothing
  assert!(ghost_agrees(c, m, MAXS), "cache content differs from received - taken - evicted");
}

// ------------------------------------------------------------------ operation sequences
// The KINDS of the operations are concrete per harness (a symbolic kind makes every container
// shape symbolic: measured > 8 GB for ONE symbolic-kind step); symbolic are: Value/Dispose,
// the writer of every arrival, writer 2's sequence-number base (so the sequence-number order
// across writers differs from the arrival order), and every Option that is None below.
#[derive(Clone, Copy)]
pub(crate) enum Op {
  Arr(Option<u8>), // arrival for this key (None: symbolic key in {0,1})
  Acc {
    take: bool,
    scope: Scope,
    not_read: Option<bool>, // ReadCondition::not_read() / any() (None: symbolic)
    limit1: Option<bool>,   // max_samples 1 / unlimited (None: symbolic)
  },
}
const A0: Op = Op::Arr(Some(0));
const A1: Op = Op::Arr(Some(1));
const AS: Op = Op::Arr(None);
const fn rd(not_read: Option<bool>, limit1: Option<bool>) -> Op {
  Op::Acc {
    take: false,
    scope: Scope::All,
    not_read,
    limit1,
  }
}
const fn tk(not_read: Option<bool>, limit1: Option<bool>) -> Op {
  Op::Acc {
    take: true,
    scope: Scope::All,
    not_read,
    limit1,
  }
}

fn run_plan<const L: usize>(hist: Hist, plan: [Op; L]) {
  let mut c = new_cache(hist);
  let base2 = vk::range_i64(1, 20); // writer 2's first SN; writer 1 starts at 10
  let mut m = model_new(base2);
  let mut arrivals = 0;
  let mut j = 0;
  while j < L {
    match plan[j] {
      Op::Arr(key) => {
        step_arrival(&mut c, &mut m, arrivals, hist, key);
        arrivals += 1;
      }
      Op::Acc {
        take,
        scope,
        not_read,
        limit1,
      } => step_access(&mut c, &mut m, arrivals, take, scope, not_read, limit1),
    }
    j += 1;
  }
  vk_cover!(m.i[0].dgc >= 1 || m.i[1].dgc >= 1, "an instance was reborn (disposed_generation_count >= 1)");
  vk_cover!(m.s[0].writer != m.s[1].writer && m.s[1].exists && m.s[1].sn < m.s[0].sn, "second arrival from the other writer with a smaller sequence number");
  core::mem::forget(c);
}

macro_rules! harness {
  ($name:ident, $body:expr) => {
    #[cfg_attr(kani, kani::proof, kani::unwind(6))]
    #[cfg_attr(kani, kani::stub(std::fmt::format, crate::verif_env::stub_format))]
    #[cfg_attr(kani, kani::stub(DataSampleCache::sort_by_sequence_number, stub_sort_by_sequence_number))]
    #[cfg_attr(kani, kani::stub(std::vec::Vec::with_capacity, crate::verif_env::stub_vec_with_capacity))]
    #[cfg_attr(kani, kani::stub(std::collections::VecDeque::with_capacity, stub_vecdeque_with_capacity))]
    #[cfg_attr(kani, kani::stub(std::vec::Vec::push, crate::verif_env::stub_vec_push))]
    #[cfg_attr(verif_replay, test)]
    fn $name() {
      vk::begin(stringify!($name));
      $body;
      vk::end();
    }
  };
}

// Model-driven plans (measured: symbolic execution alone > 7 min for two arrivals on a loaded
// machine; listed in the thorough tier only).
harness!(c08_plan_two_arrivals_take, run_plan(Hist::KeepAll, [A0, A0, tk(Some(false), Some(false))]));
harness!(c08_plan_read_take, run_plan(Hist::KeepAll, [A0, rd(None, None), tk(None, None)]));
harness!(c08_plan_two_instances_take, run_plan(Hist::KeepAll, [A0, A1, tk(Some(false), Some(false))]));
harness!(c08_plan_keeplast1, run_plan(Hist::KeepLast(1), [A0, A0]));

// ------------------------------------------------------------------ straight-line harnesses
fn add(c: &mut Cache, key: u8, is_value: bool, v: u8, w: u8, sn: i64, slot: usize) {
  c.add_sample(
    if is_value {
      Sample::Value(VKeyed { k: key, v })
    } else {
      Sample::Dispose(key)
    },
    writer_guid(w),
    SequenceNumber::new(sn),
    ts_of(slot),
    WriteOptions::from(None),
  );
}
fn istate(is_value: bool) -> InstanceState {
  if is_value {
    InstanceState::Alive
  } else {
    InstanceState::NotAliveDisposed
  }
}

/// one arrival (Value or Dispose): read, read(not_read), read, take(not_read), take
fn single_sample_life(key: u8) {
  let mut c = new_cache(Hist::KeepLast(1));
  let is_value: bool = vk::any();
  let v: u8 = vk::any();
  add(&mut c, key, is_value, v, 1, 7, 0);
  // read(any): NOT_READ, NEW
  let keys = c.select_keys_for_access(ReadCondition::any());
  assert!(keys.len() == 1, "one sample received, one selected");
  {
    let res = c.read_by_keys(&keys);
    assert!(res.len() == 1);
    let si = res[0].sample_info();
    assert!(si.sample_state() == SampleState::NotRead, "not read before");
    assert!(si.view_state() == ViewState::New, "first access of the instance");
    assert!(si.instance_state() == istate(is_value), "instance_state");
    assert!(si.disposed_generation_count() == 0 && si.no_writers_generation_count() == 0);
    assert!(value_of_ref(res[0].value()) == (is_value, key, if is_value { v } else { 0 }), "payload");
    core::mem::forget(res);
  }
  core::mem::forget(keys);
  assert!(c.datasamples.len() == 1, "read removes nothing");
  // not_read selects nothing now
  let keys = c.select_keys_for_access(ReadCondition::not_read());
  assert!(keys.is_empty(), "a read sample matches not_read");
  core::mem::forget(keys);
  // read(any) again: READ, NOT_NEW
  let keys = c.select_keys_for_access(ReadCondition::any());
  assert!(keys.len() == 1, "read removed the sample");
  {
    let res = c.read_by_keys(&keys);
    assert!(res.len() == 1);
    let si = res[0].sample_info();
    assert!(si.sample_state() == SampleState::Read, "read flips NOT_READ to READ");
    assert!(si.view_state() == ViewState::NotNew, "instance already accessed, not reborn");
    assert!(si.instance_state() == istate(is_value));
    core::mem::forget(res);
  }
  // take(any): still READ / NOT_NEW, then gone
  {
    let res = c.take_by_keys(&keys);
    assert!(res.len() == 1);
    let si = res[0].sample_info();
    assert!(si.sample_state() == SampleState::Read && si.view_state() == ViewState::NotNew);
    assert!(si.instance_state() == istate(is_value));
    assert!(si.disposed_generation_count() == 0);
    assert!(value_of(res[0].value()) == (is_value, key, if is_value { v } else { 0 }), "payload");
    core::mem::forget(res);
  }
  core::mem::forget(keys);
  assert!(c.datasamples.len() == 0, "take removes the sample");
  let keys = c.select_keys_for_access(ReadCondition::any());
  assert!(keys.is_empty(), "a taken sample is returned at most once");
  core::mem::forget(keys);
  vk_cover!(!is_value, "dispose as the first sample of an instance");
  vk_cover!(is_value && v == 9, "value 9");
  core::mem::forget(c);
}
harness!(c08_single_sample_life_k0, single_sample_life(0));
harness!(c08_single_sample_life_symkey, single_sample_life(vk::range_u8(0, 1)));

/// two arrivals on one instance, History KeepLast(1) / unset: only the newer one remains
fn two_arrivals_depth1(h: Hist) {
  let mut c = new_cache(h);
  let v0: bool = vk::any();
  let v1: bool = vk::any();
  add(&mut c, 0, v0, 1, 1, 1, 0);
  add(&mut c, 0, v1, 2, 1, 2, 1);
  assert!(c.datasamples.len() <= 1, "more than depth = 1 samples of one instance available");
  assert!(!c.datasamples.contains_key(&ts_of(0)), "the older sample survived instead of the most recent one");
  let keys = c.select_keys_for_access(ReadCondition::any());
  assert!(keys.len() <= 1);
  vk_cover!(keys.len() == 1 && !v0 && v1, "dispose then value, newest kept");
  core::mem::forget(keys);
  core::mem::forget(c);
}
harness!(c08_depth_keeplast1, two_arrivals_depth1(Hist::KeepLast(1)));
harness!(c08_depth_unset, two_arrivals_depth1(Hist::Unset));

/// Dispose/Value then Value on one instance (KeepAll): generation counts, instance_state, view
fn rebirth_generations() {
  let mut c = new_cache(Hist::KeepAll);
  let first_value: bool = vk::any();
  add(&mut c, 0, first_value, 1, 1, 1, 0);
  add(&mut c, 0, true, 2, 1, 2, 1);
  let keys = c.select_keys_for_access(ReadCondition::any());
  assert!(keys.len() == 2, "KeepAll keeps both");
  let res = c.take_by_keys(&keys);
  assert!(res.len() == 2);
  let a = res[0].sample_info();
  let b = res[1].sample_info();
  assert!(a.sequence_number == SequenceNumber::new(1) && b.sequence_number == SequenceNumber::new(2), "sequence-number order");
  assert!(a.instance_state() == InstanceState::Alive && b.instance_state() == InstanceState::Alive, "instance_state is the snapshot at the call");
  assert!(a.disposed_generation_count() == 0, "first sample: generation 0");
  assert!(b.disposed_generation_count() == if first_value { 0 } else { 1 }, "NOT_ALIVE_DISPOSED -> ALIVE increments disposed_generation_count");
  assert!(a.no_writers_generation_count() == 0 && b.no_writers_generation_count() == 0);
  assert!(b.view_state() == ViewState::New, "most recent sample, instance never accessed");
  assert!(a.sample_state() == SampleState::NotRead && b.sample_state() == SampleState::NotRead);
  vk_cover!(!first_value, "reborn instance");
  core::mem::forget(res);
  core::mem::forget(keys);
  assert!(c.datasamples.len() == 0, "take removes");
  core::mem::forget(c);
}
harness!(c08_rebirth_generations, rebirth_generations());

/// two instances (keys 0 and 1), default History (depth 1 per INSTANCE): instance selection
/// This/Next, per-instance instance_state, take returns both once
fn two_instances() {
  let mut c = new_cache(Hist::Unset);
  let v0: bool = vk::any();
  let v1: bool = vk::any();
  add(&mut c, 0, v0, 1, 1, 1, 0);
  add(&mut c, 1, v1, 2, 1, 2, 1);
  assert!(c.datasamples.len() == 2, "depth counts per instance");
  // SelectByKey::Next / This as in DataReader::infer_key
  assert!(c.next_key(&0) == Some(1) && c.next_key(&1) == None, "Next instance");
  let keys = c.select_instance_keys_for_access(&1, ReadCondition::any());
  assert!(keys.len() == 1 && keys[0].0 == ts_of(1), "read_instance selects exactly the samples of that instance");
  {
    let res = c.read_by_keys(&keys);
    assert!(res.len() == 1);
    let si = res[0].sample_info();
    assert!(si.instance_state() == istate(v1) && si.view_state() == ViewState::New);
    assert!(si.sample_state() == SampleState::NotRead);
    core::mem::forget(res);
  }
  core::mem::forget(keys);
  // not_read over all instances: only the sample of instance 0
  let keys = c.select_keys_for_access(ReadCondition::not_read());
  assert!(keys.len() == 1 && keys[0].0 == ts_of(0), "not_read selects exactly the unread samples");
  core::mem::forget(keys);
  let keys = c.select_keys_for_access(ReadCondition::any());
  assert!(keys.len() == 2);
  let res = c.take_by_keys(&keys);
  assert!(res.len() == 2);
  let a = res[0].sample_info();
  let b = res[1].sample_info();
  assert!(a.sequence_number == SequenceNumber::new(1) && b.sequence_number == SequenceNumber::new(2));
  assert!(a.instance_state() == istate(v0) && b.instance_state() == istate(v1), "instance_state per instance");
  assert!(a.view_state() == ViewState::New, "instance 0 never accessed");
  assert!(b.view_state() == ViewState::NotNew, "instance 1 accessed by read_instance, not reborn");
  assert!(a.sample_state() == SampleState::NotRead && b.sample_state() == SampleState::Read);
  assert!(a.disposed_generation_count() == 0 && b.disposed_generation_count() == 0);
  vk_cover!(v0 && !v1, "instance 0 alive, instance 1 disposed");
  core::mem::forget(res);
  core::mem::forget(keys);
  assert!(c.datasamples.len() == 0);
  core::mem::forget(c);
}
harness!(c08_two_instances, two_instances());

/// read, new arrival, not_read: exactly the unread sample, NOT_NEW unless reborn
fn not_read_after_read() {
  let mut c = new_cache(Hist::KeepAll);
  let v0: bool = vk::any();
  let v1: bool = vk::any();
  add(&mut c, 0, v0, 1, 1, 1, 0);
  let keys = c.select_keys_for_access(ReadCondition::any());
  assert!(keys.len() == 1);
  let res = c.read_by_keys(&keys);
  assert!(res.len() == 1);
  core::mem::forget(res);
  core::mem::forget(keys);
  add(&mut c, 0, v1, 2, 1, 2, 1);
  let keys = c.select_keys_for_access(ReadCondition::not_read());
  assert!(keys.len() == 1 && keys[0].0 == ts_of(1), "not_read selects exactly the unread sample");
  {
    let res = c.read_by_keys(&keys);
    assert!(res.len() == 1);
    let si = res[0].sample_info();
    let reborn = !v0 && v1;
    assert!(si.sample_state() == SampleState::NotRead);
    assert!(si.disposed_generation_count() == if reborn { 1 } else { 0 });
    assert!(si.instance_state() == istate(v1));
    assert!(
      si.view_state() == if reborn { ViewState::New } else { ViewState::NotNew },
      "NEW iff the instance was reborn since the last access"
    );
    core::mem::forget(res);
  }
  core::mem::forget(keys);
  let keys = c.select_keys_for_access(ReadCondition::any());
  assert!(keys.len() == 2, "read removes nothing");
  {
    let res = c.read_by_keys(&keys);
    assert!(res[0].sample_info().sample_state() == SampleState::Read && res[1].sample_info().sample_state() == SampleState::Read);
    assert!(res[1].sample_info().view_state() == ViewState::NotNew);
    assert!(res[0].sample_info().sequence_number == SequenceNumber::new(1));
    core::mem::forget(res);
  }
  vk_cover!(!v0 && v1, "reborn between the reads");
  core::mem::forget(keys);
  core::mem::forget(c);
}
harness!(c08_not_read_after_read, not_read_after_read());

/// three arrivals on one instance, KeepLast(2)
fn depth_keeplast2() {
  let mut c = new_cache(Hist::KeepLast(2));
  let v0: bool = vk::any();
  let v1: bool = vk::any();
  let v2: bool = vk::any();
  add(&mut c, 0, v0, 1, 1, 1, 0);
  add(&mut c, 0, v1, 2, 1, 2, 1);
  assert!(c.datasamples.len() <= 2);
  add(&mut c, 0, v2, 3, 1, 3, 2);
  assert!(c.datasamples.len() <= 2, "more than depth = 2 samples of one instance available");
  assert!(!c.datasamples.contains_key(&ts_of(0)), "a sample older than the 2 most recent survived");
  vk_cover!(c.datasamples.len() == 2, "depth reached");
  core::mem::forget(c);
}
harness!(c08_depth_keeplast2, depth_keeplast2());

/// The documented loop `while let Some(s) = reader.read_next_sample()` (= read(1, not_read))
/// over one instance written by two writers, then read(any): once the most recent generation
/// has been accessed and the instance is not reborn, its most recent sample must stay NOT_NEW.
fn next_sample_loop_view_state() {
  let mut c = new_cache(Hist::KeepAll);
  let s1 = vk::range_i64(1, 20); // writer 1's sequence number; writer 2 sends 1 and 2
  add(&mut c, 0, true, 1, 1, s1, 0); // W1: value        (generation 0)
  add(&mut c, 0, false, 0, 2, 1, 1); // W2: dispose
  add(&mut c, 0, true, 3, 2, 2, 2); // W2: value again  (generation 1, most recent sample)
  let mut round = 0;
  while round < 3 {
    let keys = c.select_keys_for_access(ReadCondition::not_read());
    assert!(keys.len() == 3 - round, "not_read selects exactly the unread samples");
    let res = c.read_by_keys(&keys[..1]); // truncate(1)
    assert!(res.len() == 1 && res[0].sample_info().sample_state() == SampleState::NotRead);
    core::mem::forget(res);
    core::mem::forget(keys);
    round += 1;
  }
  let keys = c.select_keys_for_access(ReadCondition::any());
  assert!(keys.len() == 3, "read removes nothing");
  let res = c.read_by_keys(&keys);
  let mut j = 0;
  while j < 3 {
    let si = res[j].sample_info();
    assert!(si.sample_state() == SampleState::Read);
    if writer_of(&si.publication_handle) == 2 && si.sequence_number == SequenceNumber::new(2) {
      assert!(si.disposed_generation_count() == 1);
      assert!(
        si.view_state() == ViewState::NotNew,
        "most recent sample reported NEW again although its generation was already accessed and the instance was not reborn"
      );
    }
    j += 1;
  }
  vk_cover!(s1 > 2, "writer 1's sample sorts after writer 2's");
  core::mem::forget(res);
  core::mem::forget(keys);
  core::mem::forget(c);
}
harness!(c08_finding_view_state_backwards_symsn, next_sample_loop_view_state());
