// C14 harnesses on SequenceNumber / FragmentNumber / NumberSet<N> — child module of
// crate::structure::sequence_number (sees the private fields bitmap_base / num_bits / bitmap,
// NumberSetIter::{at_bit, rev_at_bit} and NumberSet::insert).
//
// num_bits (the allocation size) is CONCRETE per harness instance (grid 0,1,31,32,33,255,256);
// base and every bitmap word are symbolic at full width — including bits of the last word at
// index >= num_bits, which a peer may set to anything.
#![allow(dead_code, unused_imports, unused_macros, clippy::all)]
use super::*;
use crate::{verif_env, verif_vk as vk, verif_vk::vk_cover};
use speedy::Endianness;

macro_rules! must {
  ($r:expr, $msg:literal) => {
    match $r {
      Ok(v) => v,
      Err(e) => {
        core::mem::forget(e);
        panic!($msg)
      }
    }
  };
}

fn any_endianness() -> Endianness {
  if vk::any::<bool>() {
    Endianness::LittleEndian
  } else {
    Endianness::BigEndian
  }
}

/// kani::stub target for Vec::with_capacity in the codec harnesses: a number (numBits, a
/// parameter length) that has travelled through the serialised bytes is no longer a constant
/// for CBMC, and an allocation of symbolic size is intractable.  Concrete allocation of VCAP
/// elements instead; asking for more is outside the bound.
pub(crate) const VCAP: usize = 96;
#[cfg(kani)]
pub(crate) fn stub_with_capacity<T>(n: usize) -> Vec<T> {
  kani::assume(n <= VCAP);
  Vec::with_capacity_in(VCAP, std::alloc::Global)
}
#[cfg(not(kani))]
pub(crate) fn stub_with_capacity<T>(n: usize) -> Vec<T> {
  Vec::with_capacity(n)
}

fn words_of(num_bits: u32) -> usize {
  ((num_bits + 31) / 32) as usize
}

fn any_words(num_bits: u32) -> Vec<u32> {
  let n = words_of(num_bits);
  let mut v = Vec::with_capacity(n);
  let mut i = 0;
  while i < n {
    v.push(vk::any::<u32>());
    i += 1;
  }
  v
}

/// Any SequenceNumberSet of the given (concrete) num_bits: any base, any bitmap words.
pub(crate) fn any_sn_set(num_bits: u32) -> SequenceNumberSet {
  NumberSet {
    bitmap_base: SequenceNumber(vk::any::<i64>()),
    num_bits,
    bitmap: any_words(num_bits),
  }
}

/// Any FragmentNumberSet of the given (concrete) num_bits.
pub(crate) fn any_fn_set(num_bits: u32) -> FragmentNumberSet {
  NumberSet {
    bitmap_base: FragmentNumber(vk::any::<u32>()),
    num_bits,
    bitmap: any_words(num_bits),
  }
}

/// Field-wise equality (Vec<u32> == Vec<u32> is a memcmp of up to 32 bytes, beyond the
/// driver's memcmp bound).
pub(crate) fn sn_set_eq(a: &SequenceNumberSet, b: &SequenceNumberSet) -> bool {
  a.bitmap_base == b.bitmap_base && a.num_bits == b.num_bits && words_eq(&a.bitmap, &b.bitmap)
}
pub(crate) fn fn_set_eq(a: &FragmentNumberSet, b: &FragmentNumberSet) -> bool {
  a.bitmap_base == b.bitmap_base && a.num_bits == b.num_bits && words_eq(&a.bitmap, &b.bitmap)
}
fn words_eq(a: &Vec<u32>, b: &Vec<u32>) -> bool {
  if a.len() != b.len() {
    return false;
  }
  let mut ok = true;
  let mut i = 0;
  while i < a.len() {
    ok &= a[i] == b[i];
    i += 1;
  }
  ok
}

/// chunked byte comparison (each chunk is a memcmp of <= 16 bytes)
pub(crate) fn bytes_eq(a: &[u8], b: &[u8]) -> bool {
  if a.len() != b.len() {
    return false;
  }
  let mut ok = true;
  let mut i = 0;
  while i < a.len() {
    let j = if i + 16 < a.len() { i + 16 } else { a.len() };
    ok &= a[i..j] == b[i..j];
    i = j;
  }
  ok
}

/// reference: RTPS 9.4.2.6 — bit i of the set is the (31 - i%32)-th bit of word i/32
fn ref_bit(words: &Vec<u32>, i: u32) -> bool {
  (words[(i / 32) as usize] >> (31 - (i % 32))) & 1 == 1
}

// ------------------------------------------------------------------ scalars

#[cfg_attr(kani, kani::proof, kani::unwind(10))]
#[cfg_attr(verif_replay, test)]
fn c14_seqnum_fragnum_roundtrip() {
  vk::begin("c14_seqnum_fragnum_roundtrip");
  let e = any_endianness();
  let v: i64 = vk::any();
  let sn = SequenceNumber::new(v);
  let b = must!(sn.write_to_vec_with_ctx(e), "SequenceNumber does not serialise");
  assert!(b.len() == 8);
  // RTPS 9.4.2.5: high word first, each word in the stream byte order
  let (hi, lo) = if e == Endianness::LittleEndian {
    (
      i32::from_le_bytes([b[0], b[1], b[2], b[3]]),
      u32::from_le_bytes([b[4], b[5], b[6], b[7]]),
    )
  } else {
    (
      i32::from_be_bytes([b[0], b[1], b[2], b[3]]),
      u32::from_be_bytes([b[4], b[5], b[6], b[7]]),
    )
  };
  assert!(hi == (v >> 32) as i32 && lo == v as u32, "SequenceNumber wire layout is not {{high, low}}");
  let back = must!(SequenceNumber::read_from_buffer_with_ctx(e, &b), "SequenceNumber does not parse");
  assert!(back == sn, "SequenceNumber differs after write/read");
  assert!(SequenceNumber::from_high_low(sn.high(), sn.low()) == sn, "high/low accessors lose bits");

  let f = FragmentNumber::new(vk::any::<u32>());
  let fb = must!(f.write_to_vec_with_ctx(e), "FragmentNumber does not serialise");
  assert!(fb.len() == 4);
  let fback = must!(FragmentNumber::read_from_buffer_with_ctx(e, &fb), "FragmentNumber does not parse");
  assert!(fback == f, "FragmentNumber differs after write/read");
  vk_cover!(v < 0 && e == Endianness::BigEndian, "negative SN, big endian");
  vk_cover!(v > (1 << 32) && (v as u32) >= 0x8000_0000 && e == Endianness::LittleEndian, "low word with top bit set");
  vk::end();
}

// ------------------------------------------------------------------ iterator semantics
//
// Inductive formulation (cost O(num_bits) instead of O(num_bits^2)):
//   base case : iter() starts at at_bit = 0, rev_at_bit = num_bits;
//   step      : from ANY position a <= num_bits one call of next() returns the least set bit
//               index j in [a, num_bits) as base + j and leaves at_bit = j + 1, or returns None
//               iff there is no such bit and leaves at_bit = num_bits.
// Together: the iterator yields exactly the set bits with index < num_bits, in increasing
// order, and nothing else — in particular never a member >= base + 256.

fn iter_step_sn(nb: u32, a_lo: u32) {
  let ns = any_sn_set(nb);
  let base = i64::from(ns.bitmap_base);
  // base + 255 must be representable (a base within 256 of i64::MAX is outside the bound)
  vk::assume(base <= i64::MAX - 256);
  let it0 = ns.iter();
  assert!(it0.at_bit == 0 && it0.rev_at_bit == nb, "iter() does not start at [0, num_bits)");
  let a = vk::range_u32(a_lo, nb);
  let mut it = NumberSetIter {
    seq: &ns,
    at_bit: a,
    rev_at_bit: nb,
  };
  let r = it.next();
  // reference: least set index in [a, nb)
  let mut first: u32 = nb;
  let mut i = nb;
  while i > a {
    i -= 1;
    if ref_bit(&ns.bitmap, i) {
      first = i;
    }
  }
  match r {
    Some(x) => {
      assert!(first < nb, "next() reported a member although no bit is set in the window");
      assert!(i64::from(x) == base + first as i64, "next() skipped or invented a member");
      assert!(i64::from(x) - base < 256, "member outside the 256 window");
      assert!(it.at_bit == first + 1, "iterator position after a hit");
    }
    None => {
      assert!(first == nb, "next() lost a member of the set");
      assert!(it.at_bit == nb, "iterator position at the end");
    }
  }
  vk_cover!(
    if nb > 1 { r.is_some() && first > a } else { r.is_none() },
    "skips clear bits, then reports (num_bits <= 1: nothing left in the window)"
  );
  vk_cover!(
    r.is_none() && (nb % 32 == 0 || ns.bitmap[words_of(nb) - 1] & 1 == 1),
    "exhausted; if num_bits is not a multiple of 32: although a bit beyond num_bits is set"
  );
}

fn iter_step_fn(nb: u32, a_lo: u32) {
  let ns = any_fn_set(nb);
  let base = u32::from(ns.bitmap_base);
  vk::assume(base <= u32::MAX - 256);
  let it0 = ns.iter();
  assert!(it0.at_bit == 0 && it0.rev_at_bit == nb, "iter() does not start at [0, num_bits)");
  let a = vk::range_u32(a_lo, nb);
  let mut it = NumberSetIter {
    seq: &ns,
    at_bit: a,
    rev_at_bit: nb,
  };
  let r = it.next();
  let mut first: u32 = nb;
  let mut i = nb;
  while i > a {
    i -= 1;
    if ref_bit(&ns.bitmap, i) {
      first = i;
    }
  }
  match r {
    Some(x) => {
      assert!(first < nb, "next() reported a member although no bit is set in the window");
      assert!(u32::from(x) == base + first, "next() skipped or invented a member");
      assert!(it.at_bit == first + 1, "iterator position after a hit");
    }
    None => {
      assert!(first == nb, "next() lost a member of the set");
      assert!(it.at_bit == nb, "iterator position at the end");
    }
  }
  vk_cover!(
    if nb > 1 { r.is_some() && first > a } else { r.is_none() },
    "skips clear bits, then reports (num_bits <= 1: nothing left in the window)"
  );
}

/// First call of next() on iter() (position 0 concrete): the whole window is scanned.
fn iter_first_sn(nb: u32) {
  let ns = any_sn_set(nb);
  let base = i64::from(ns.bitmap_base);
  vk::assume(base <= i64::MAX - 256);
  let mut it = ns.iter();
  let r = it.next();
  let mut first: u32 = nb;
  let mut i = nb;
  while i > 0 {
    i -= 1;
    if ref_bit(&ns.bitmap, i) {
      first = i;
    }
  }
  match r {
    Some(x) => {
      assert!(first < nb && i64::from(x) == base + first as i64, "first member wrong");
      assert!(it.at_bit == first + 1, "iterator position after a hit");
    }
    None => assert!(first == nb && it.at_bit == nb, "non-empty window reported empty"),
  }
  vk_cover!(r.is_some() && first == nb - 1, "only the last bit of the window is set");
  vk_cover!(r.is_none(), "empty");
}

/// Direct (non-inductive) check for small windows: drain iter() and compare with the
/// reference bit by bit.
fn iter_drain_sn(nb: u32) {
  let ns = any_sn_set(nb);
  let base = i64::from(ns.bitmap_base);
  vk::assume(base <= i64::MAX - 256);
  let mut it = ns.iter();
  let mut i = 0;
  let mut members = 0u32;
  while i < nb {
    if ref_bit(&ns.bitmap, i) {
      let x = it.next();
      assert!(x == Some(SequenceNumber::new(base + i as i64)), "iter() lost, reordered or invented a member");
      members += 1;
    }
    i += 1;
  }
  assert!(it.next().is_none(), "iter() yields more than the set bits below num_bits");
  assert!(ns.is_empty() == (members == 0), "is_empty disagrees with the bitmap");
  vk_cover!(if nb > 1 { members >= 2 } else { members == nb }, "two members (num_bits <= 1: all bits set)");
}

macro_rules! numset_iter {
  ($name:ident, $unwind:expr, $call:expr) => {
    #[cfg_attr(kani, kani::proof, kani::unwind($unwind))]
    #[cfg_attr(verif_replay, test)]
    fn $name() {
      vk::begin(stringify!($name));
      $call;
      vk::end();
    }
  };
}
numset_iter!(c14_numset_iter_step_sn_0, 3, iter_step_sn(0, 0));
numset_iter!(c14_numset_iter_step_sn_1, 4, iter_step_sn(1, 0));
numset_iter!(c14_numset_iter_step_sn_31, 34, iter_step_sn(31, 0));
numset_iter!(c14_numset_iter_step_sn_32, 35, iter_step_sn(32, 0));
numset_iter!(c14_numset_iter_step_sn_33, 36, iter_step_sn(33, 0));
numset_iter!(c14_numset_iter_step_fn_33, 36, iter_step_fn(33, 0));
// 255 / 256: the last 33 positions (boundary of the window) ...
numset_iter!(c14_numset_iter_tail_sn_255, 36, iter_step_sn(255, 222));
numset_iter!(c14_numset_iter_tail_sn_256, 36, iter_step_sn(256, 223));
numset_iter!(c14_numset_iter_tail_fn_256, 36, iter_step_fn(256, 223));
// ... and the first call from position 0 over the whole window
numset_iter!(c14_numset_iter_first_sn_255, 258, iter_first_sn(255));
numset_iter!(c14_numset_iter_first_sn_256, 259, iter_first_sn(256));
numset_iter!(c14_numset_iter_drain_sn_1, 4, iter_drain_sn(1));
numset_iter!(c14_numset_iter_drain_sn_8, 11, iter_drain_sn(8));

// ------------------------------------------------------------------ codec

fn codec_sn(nb: u32, e: Endianness) {
  let ns = any_sn_set(nb);
  let bytes = must!(ns.write_to_vec_with_ctx(e), "SequenceNumberSet does not serialise");
  assert!(bytes.len() == 12 + 4 * words_of(nb), "serialised size != 8 + 4 + 4*ceil(num_bits/32)");
  assert!(bytes.len() == ns.len_serialized(), "len_serialized disagrees with the bytes written");
  let back = must!(
    SequenceNumberSet::read_from_buffer_with_ctx(e, &bytes),
    "SequenceNumberSet does not parse back"
  );
  assert!(sn_set_eq(&back, &ns), "SequenceNumberSet differs after write/read");
  // (write(read(b)) == b follows: write_to is a function of the three fields just compared)
  vk_cover!(i64::from(ns.bitmap_base) > (1 << 33), "base above 2^33");
  vk_cover!(nb == 0 || ns.bitmap[0] == 0x8000_0001, "first and 32nd bit of word 0");
}

fn codec_fn(nb: u32, e: Endianness) {
  let ns = any_fn_set(nb);
  let bytes = must!(ns.write_to_vec_with_ctx(e), "FragmentNumberSet does not serialise");
  assert!(bytes.len() == 8 + 4 * words_of(nb), "serialised size != 4 + 4 + 4*ceil(num_bits/32)");
  assert!(bytes.len() == ns.len_serialized(), "len_serialized disagrees with the bytes written");
  let back = must!(
    FragmentNumberSet::read_from_buffer_with_ctx(e, &bytes),
    "FragmentNumberSet does not parse back"
  );
  assert!(fn_set_eq(&back, &ns), "FragmentNumberSet differs after write/read");
  // (write(read(b)) == b follows: write_to is a function of the three fields just compared)
  vk_cover!(u32::from(ns.bitmap_base) > (1 << 31), "large base");
}

// The byte order is concrete per instance: numBits travels through the bytes, and a symbolic
// byte order would make the allocation size of the parsed bitmap symbolic (intractable).
macro_rules! numset_codec {
  ($name:ident, $f:ident, $nb:expr, $e:ident) => {
    #[cfg_attr(kani, kani::proof, kani::unwind(11))]
    #[cfg_attr(kani, kani::stub(std::fmt::format, crate::verif_env::stub_format))]
    #[cfg_attr(kani, kani::stub(std::vec::Vec::with_capacity, stub_with_capacity))]
    #[cfg_attr(kani, kani::stub(std::vec::Vec::push, crate::verif_env::stub_vec_push))]
    #[cfg_attr(verif_replay, test)]
    fn $name() {
      vk::begin(stringify!($name));
      $f($nb, Endianness::$e);
      vk::end();
    }
  };
}
numset_codec!(c14_numset_codec_sn_0_le, codec_sn, 0, LittleEndian);
numset_codec!(c14_numset_codec_sn_1_le, codec_sn, 1, LittleEndian);
numset_codec!(c14_numset_codec_sn_31_le, codec_sn, 31, LittleEndian);
numset_codec!(c14_numset_codec_sn_32_le, codec_sn, 32, LittleEndian);
numset_codec!(c14_numset_codec_sn_33_le, codec_sn, 33, LittleEndian);
numset_codec!(c14_numset_codec_sn_255_le, codec_sn, 255, LittleEndian);
numset_codec!(c14_numset_codec_sn_256_le, codec_sn, 256, LittleEndian);
numset_codec!(c14_numset_codec_sn_0_be, codec_sn, 0, BigEndian);
numset_codec!(c14_numset_codec_sn_1_be, codec_sn, 1, BigEndian);
numset_codec!(c14_numset_codec_sn_31_be, codec_sn, 31, BigEndian);
numset_codec!(c14_numset_codec_sn_32_be, codec_sn, 32, BigEndian);
numset_codec!(c14_numset_codec_sn_33_be, codec_sn, 33, BigEndian);
numset_codec!(c14_numset_codec_sn_255_be, codec_sn, 255, BigEndian);
numset_codec!(c14_numset_codec_sn_256_be, codec_sn, 256, BigEndian);
numset_codec!(c14_numset_codec_fn_0_le, codec_fn, 0, LittleEndian);
numset_codec!(c14_numset_codec_fn_33_le, codec_fn, 33, LittleEndian);
numset_codec!(c14_numset_codec_fn_256_le, codec_fn, 256, LittleEndian);
numset_codec!(c14_numset_codec_fn_0_be, codec_fn, 0, BigEndian);
numset_codec!(c14_numset_codec_fn_33_be, codec_fn, 33, BigEndian);
numset_codec!(c14_numset_codec_fn_256_be, codec_fn, 256, BigEndian);

/// numBits > 256 on the wire is rejected (before anything is allocated), whatever follows.
#[cfg_attr(kani, kani::proof, kani::unwind(18))]
#[cfg_attr(kani, kani::stub(std::fmt::format, crate::verif_env::stub_format))]
#[cfg_attr(kani, kani::stub(std::vec::Vec::with_capacity, stub_with_capacity))]
#[cfg_attr(kani, kani::stub(std::vec::Vec::push, crate::verif_env::stub_vec_push))]
#[cfg_attr(verif_replay, test)]
fn c14_numset_read_rejects_over_256() {
  vk::begin("c14_numset_read_rejects_over_256");
  let e = any_endianness();
  let mut buf = [0u8; 16];
  let mut i = 0;
  while i < 16 {
    buf[i] = vk::any();
    i += 1;
  }
  // SequenceNumberSet: numBits at offset 8; FragmentNumberSet: at offset 4
  let nb_sn = if e == Endianness::LittleEndian {
    u32::from_le_bytes([buf[8], buf[9], buf[10], buf[11]])
  } else {
    u32::from_be_bytes([buf[8], buf[9], buf[10], buf[11]])
  };
  let nb_fn = if e == Endianness::LittleEndian {
    u32::from_le_bytes([buf[4], buf[5], buf[6], buf[7]])
  } else {
    u32::from_be_bytes([buf[4], buf[5], buf[6], buf[7]])
  };
  vk::assume(nb_sn > 256 && nb_fn > 256);
  let r = SequenceNumberSet::read_from_buffer_with_ctx(e, &buf);
  assert!(r.is_err(), "SequenceNumberSet with numBits > 256 accepted");
  core::mem::forget(r);
  let r2 = FragmentNumberSet::read_from_buffer_with_ctx(e, &buf);
  assert!(r2.is_err(), "FragmentNumberSet with numBits > 256 accepted");
  core::mem::forget(r2);
  vk_cover!(nb_sn == 257, "just above the limit");
  vk_cover!(nb_sn == u32::MAX, "the value whose +31 would overflow");
  vk::end();
}

// ------------------------------------------------------------------ from_base_and_set
//
// from_base_and_set(b, S) == S ∩ [b, b+256) for b >= 1 and min(S) >= b (every caller in
// RustDDS passes b <= min(S)).  S = {b+o1, b+o2, b+span}: base and span are concrete per
// instance (so that num_bits is concrete), o1 < o2 < span are symbolic.

fn from_base_and_set_case(base: i64, span: i64) {
  let mut keys: [Option<SequenceNumber>; verif_env::CAP] = [None; verif_env::CAP];
  let (o1, o2, len);
  if span >= 2 {
    o1 = vk::range_i64(0, span - 2);
    o2 = vk::range_i64(1, span - 1);
    vk::assume(o1 < o2);
    keys[0] = Some(SequenceNumber::new(base + o1));
    keys[1] = Some(SequenceNumber::new(base + o2));
    keys[2] = Some(SequenceNumber::new(base + span));
    len = 3;
  } else {
    // {b+span} alone
    o1 = span;
    o2 = span;
    keys[0] = Some(SequenceNumber::new(base + span));
    len = 1;
  }
  let set = verif_env::set_from_parts(len, keys);
  let ns = SequenceNumberSet::from_base_and_set(SequenceNumber::new(base), &set);
  assert!(ns.base() == SequenceNumber::new(base), "base changed");
  let expect_bits = if span >= 256 { 256 } else { span + 1 };
  assert!(ns.num_bits as i64 == expect_bits, "num_bits != min(span, 255) + 1");
  assert!(ns.bitmap.len() == words_of(ns.num_bits), "bitmap length");
  // membership, probed at ONE symbolic index of the full 256+32 range (covers every index)
  let p = vk::range_i64(0, 287);
  let in_s = p == o1 || p == o2 || p == span;
  let word = (p / 32) as usize;
  let reported = word < ns.bitmap.len() && ref_bit(&ns.bitmap, p as u32);
  if p < 256 {
    assert!(reported == in_s, "membership inside the 256 window not preserved");
  } else {
    assert!(!reported, "member beyond base+255 reported");
  }
  if p >= expect_bits {
    assert!(!reported, "bit set beyond num_bits");
  }
  // serialisable as is: fits the wire limit
  assert!(ns.num_bits <= 256);
  vk_cover!(p == o2 && reported, "second member found");
  vk_cover!(
    if span > 257 { o2 >= 256 && p == o2 } else { p == span },
    "a member beyond the window is dropped (span <= 257: probe at the largest member)"
  );
  vk_cover!(
    if span >= 256 { o2 == 255 && p == 255 } else { p == o1 },
    "last representable member kept (span < 256: probe at the first member)"
  );
  core::mem::forget(set);
}

macro_rules! fbs {
  ($name:ident, $base:expr, $span:expr) => {
    #[cfg_attr(kani, kani::proof, kani::unwind(11))]
    #[cfg_attr(kani, kani::stub(std::fmt::format, crate::verif_env::stub_format))]
    #[cfg_attr(kani, kani::stub(alloc::vec::from_elem, crate::verif_env::stub_vec_from_elem))]
    #[cfg_attr(verif_replay, test)]
    fn $name() {
      vk::begin(stringify!($name));
      from_base_and_set_case($base, $span);
      vk::end();
    }
  };
}
fbs!(c14_from_base_and_set_b1_s0, 1, 0);
fbs!(c14_from_base_and_set_b1_s33, 1, 33);
fbs!(c14_from_base_and_set_b1_s255, 1, 255);
fbs!(c14_from_base_and_set_b1_s256, 1, 256);
fbs!(c14_from_base_and_set_b1_s300, 1, 300);
fbs!(c14_from_base_and_set_b31_s64, (1i64 << 31) - 2, 64);
fbs!(c14_from_base_and_set_b32_s300, (1i64 << 32) - 1, 300);

