// Tier-O harnesses around the real rtps::message_receiver::MessageReceiver — child module of
// that file.  What happens to a submessage AFTER parsing: the dispatch in handle_submessage /
// handle_writer_submessage / handle_reader_submessage / handle_interpreter_submessage.
// Serves C02 (O6: every ReaderSubmessage addressed to this participant reaches the writer
// side), C12 (SPDP liveness plumbing), C01/C06 flavour (routing to Readers).
//
// The Readers registered in the MessageReceiver are REAL Reader objects built by the rig of
// harness/reader.rs (sibling module crate::rtps::reader::verif_harness_reader).
#![allow(dead_code, unused_imports, unused_variables, unused_mut, clippy::all)]
use ::std;
use std::panic as stdpanic; // `std::panic` is also a macro: Kani's stub path resolver needs the alias
use std::sync::{Arc, Mutex};

use super::*;
use crate::{
  dds::qos::{policy, QosPolicies},
  rtps::reader::verif_harness_reader as rrig,
  structure::{
    guid::EntityKind,
    sequence_number::{FragmentNumber, SequenceNumber},
  },
  verif_env,
  verif_vk as vk,
  verif_vk::vk_cover,
};

// ------------------------------------------------------------------ what left the MessageReceiver
/// One value sent on the acknack channel, flattened to scalars (Copy, nothing to drop).
#[derive(Clone, Copy)]
pub(crate) struct FwdRec {
  pub kind: u8, // 0 nothing, 1 ACKNACK, 2 NACKFRAG
  pub src: GuidPrefix,
  pub reader_id: EntityId,
  pub writer_id: EntityId,
  pub base: i64, // ACKNACK: base of the SN set; NACKFRAG: base of the fragment number set
  pub num_bits: u32,
  pub w0: u32,
  pub count: i32,
  pub writer_sn: i64, // NACKFRAG only
}
impl FwdRec {
  pub const fn empty() -> Self {
    FwdRec {
      kind: 0,
      src: GuidPrefix::UNKNOWN,
      reader_id: EntityId::UNKNOWN,
      writer_id: EntityId::UNKNOWN,
      base: 0,
      num_bits: 0,
      w0: 0,
      count: 0,
      writer_sn: 0,
    }
  }
  pub fn of(src: GuidPrefix, a: &AckSubmessage) -> Self {
    match a {
      AckSubmessage::AckNack(a) => {
        let (num_bits, _len, w0, _w1) =
          crate::structure::sequence_number::verif_harness_seqnum::ns_parts(&a.reader_sn_state);
        FwdRec {
          kind: 1,
          src,
          reader_id: a.reader_id,
          writer_id: a.writer_id,
          base: i64::from(a.reader_sn_state.base()),
          num_bits,
          w0,
          count: a.count,
          writer_sn: 0,
        }
      }
      AckSubmessage::NackFrag(n) => {
        let (num_bits, _len, w0, _w1) =
          crate::structure::sequence_number::verif_harness_seqnum::ns_parts(&n.fragment_number_state);
        FwdRec {
          kind: 2,
          src,
          reader_id: n.reader_id,
          writer_id: n.writer_id,
          base: u32::from(n.fragment_number_state.base()) as i64,
          num_bits,
          w0,
          count: n.count,
          writer_sn: i64::from(n.writer_sn),
        }
      }
    }
  }
}

pub(crate) const MAXFWD: usize = 2;
#[derive(Clone, Copy)]
pub(crate) struct Fwd {
  pub recs: [FwdRec; MAXFWD],
  pub n: usize,
}
impl Fwd {
  pub const fn new() -> Self {
    Fwd {
      recs: [FwdRec::empty(); MAXFWD],
      n: 0,
    }
  }
  pub fn push(&mut self, r: FwdRec) {
    if self.n == 0 {
      self.recs[0] = r;
    } else if self.n == 1 {
      self.recs[1] = r;
    }
    self.n += 1;
  }
}

/// Signals on the SPDP liveness channel: how many, and for whom (first two).
#[derive(Clone, Copy)]
pub(crate) struct Live {
  pub who: [GuidPrefix; 2],
  pub n: usize,
}
impl Live {
  pub const fn new() -> Self {
    Live {
      who: [GuidPrefix::UNKNOWN; 2],
      n: 0,
    }
  }
  pub fn push(&mut self, p: GuidPrefix) {
    if self.n == 0 {
      self.who[0] = p;
    } else if self.n == 1 {
      self.who[1] = p;
    }
    self.n += 1;
  }
}

#[cfg(kani)]
pub(crate) static mut FWD: Fwd = Fwd::new();
#[cfg(kani)]
pub(crate) static mut LIVE: Live = Live::new();
/// sends of any other payload type through a mio-extras SyncSender (none is expected: the
/// Reader's own channel users are stubbed one level higher, as in reader.rs)
pub(crate) static mut OTHER_SENDS: usize = 0;

/// kani::stub target for the generic mio_extras::channel::SyncSender::<T>::try_send.  The real
/// body wraps std's sync_channel try_send plus the readiness pipe; its error type carries an
/// io::Error whose recursive, dyn-dispatched drop glue explodes symbolic execution (measured
/// on the Reader/Writer rigs).  The MessageReceiver owns two such senders, told apart by the
/// payload type's size: GuidPrefix (12 bytes, liveness) and (GuidPrefix, AckSubmessage).
/// The value handed over by the REAL code is inspected, recorded and leaked.
#[cfg(kani)]
pub(crate) fn stub_sync_try_send<T>(
  _this: &mio_channel::SyncSender<T>,
  t: T,
) -> Result<(), mio_channel::TrySendError<T>> {
  let sz = core::mem::size_of::<T>();
  unsafe {
    if sz == core::mem::size_of::<(GuidPrefix, AckSubmessage)>() {
      let r: &(GuidPrefix, AckSubmessage) = &*(&t as *const T as *const (GuidPrefix, AckSubmessage));
      (*core::ptr::addr_of_mut!(FWD)).push(FwdRec::of(r.0, &r.1));
    } else if sz == core::mem::size_of::<GuidPrefix>() {
      let p: GuidPrefix = core::mem::transmute_copy(&t);
      (*core::ptr::addr_of_mut!(LIVE)).push(p);
    } else {
      OTHER_SENDS += 1;
    }
  }
  core::mem::forget(t);
  Ok(())
}

/// kani::stub target for std::panic::catch_unwind.  MessageReceiver::add_reader (and every map
/// insert) makes `drop_in_place::<Reader>` reachable (its Occupied arm drops the new Reader).
/// The Reader owns a mio-extras Timer -> thread JoinHandle -> Packet, whose Drop calls
/// catch_unwind; Kani 0.68 crashes on the intrinsic behind it (internal compiler error at
/// kani-compiler/src/intrinsics.rs:243, bisected: `drop(Timer)` alone triggers it).  No Reader
/// is ever dropped in these harnesses; the stub only keeps that body out of the compilation.
#[cfg(kani)]
pub(crate) fn stub_catch_unwind<F: FnOnce() -> R + std::panic::UnwindSafe, R>(f: F) -> std::thread::Result<R> {
  Ok(f())
}

/// kani::stub target for Reader::handle_data_msg: records that (and to which Reader) the DATA
/// was handed over.  What the Reader does with a DATA is decided on the Reader rig (C01/C03).
/// The liveness signal under test is sent by the MessageReceiver itself AFTER this call returns.
/// Natively the real Reader::handle_data_msg runs.  (The real body "did not finish within 300 s
/// when entered through the MessageReceiver" at a time when every DATA looked symbolic to CBMC,
/// see `writer_body`; it has not been re-measured with the concrete construction.)
#[cfg(kani)]
pub(crate) static mut DATA_TO: [EntityId; 2] = [EntityId::UNKNOWN; 2];
pub(crate) static mut DATA_N: usize = 0;
#[cfg(kani)]
pub(crate) fn stub_handle_data_msg(this: &mut Reader, data: Data, _flags: BitFlags<DATA_Flags>, _st: &MessageReceiverState) {
  unsafe {
    if DATA_N == 0 {
      DATA_TO[0] = this.entity_id();
    } else if DATA_N == 1 {
      DATA_TO[1] = this.entity_id();
    }
    DATA_N += 1;
  }
  core::mem::forget(data);
}

// ------------------------------------------------------------------ SubmessageBody::Writer(ws) that CBMC can see through
/// `SubmessageBody::Writer(ws)`.  Natively exactly that.
///
/// Under Kani the same value is produced by re-interpreting the bytes of `ws` (and checked, by
/// assertions, to BE `SubmessageBody::Writer` of the same variant with the same fields).  Why:
/// rustc niche-encodes both `WriterSubmessage` (tag = a u64 at offset 0, shared with the Vec
/// capacity niche of DataFrag::inline_qos) and `SubmessageBody` (further values of the same u64;
/// the Writer variant is the untagged one, so both types have the same size and the Writer payload
/// sits at offset 0).  Kani turns niche-encoded enums into C unions; CBMC's field sensitivity
/// reads a union-typed value that occurs INSIDE an expression through its widest member
/// (DataFrag), and the aggregate assignment Kani emits for the constructor
/// (`tmp.Writer := { ws }`) is such an expression: every field of the DATA view (the
/// discriminant word, reader_id, writer_id, writer_sn) is then re-derived by byte_extract from
/// the DataFrag view across uninitialised (nondet) bytes, which the simplifier cannot fold.  From
/// there on symbolic execution takes the discriminant and the entity ids of a perfectly concrete
/// DATA for symbolic: in MessageReceiver::handle_submessage / handle_writer_submessage it then
/// explores BOTH routing branches, all five arms of `match submessage` (the real
/// Reader::handle_heartbeat_msg / handle_gap_msg / handle_datafrag_msg ...), all five arms of the
/// derived WriterSubmessage::clone and drop glue (ParameterList, Bytes vtables), and unrolls
/// `for target in available_target_entity_ids` up to the unwind bound because the collected
/// Vec's length depends on the "symbolic" writer id.  That was the > 600 s time-out of every
/// c12_mr_liveness_* harness.  A whole-object copy between two objects of the same union type is
/// done field by field and keeps constants, and so does the pointer-cast read below.
/// (Measured on micro harnesses: constructor -> all inner match arms reachable for symex;
/// cast-read -> 0 VCCs left after simplification.)
#[cfg(not(kani))]
pub(crate) fn writer_body(ws: WriterSubmessage) -> SubmessageBody {
  SubmessageBody::Writer(ws)
}
#[cfg(kani)]
pub(crate) fn writer_body(ws: WriterSubmessage) -> SubmessageBody {
  // layout precondition of the re-interpretation (fails loudly, e.g. with the security feature)
  assert!(
    core::mem::size_of::<WriterSubmessage>() == core::mem::size_of::<SubmessageBody>(),
    "harness: SubmessageBody is not niche-encoded in WriterSubmessage any more"
  );
  let body: SubmessageBody = unsafe { core::ptr::read(&ws as *const WriterSubmessage as *const SubmessageBody) };
  // the re-interpreted value IS SubmessageBody::Writer(ws): same variants, same fields
  match (&body, &ws) {
    (SubmessageBody::Writer(WriterSubmessage::Data(a, fa)), WriterSubmessage::Data(b, fb)) => {
      assert!(
        a.reader_id == b.reader_id && a.writer_id == b.writer_id && a.writer_sn == b.writer_sn && fa == fb,
        "harness: writer_body changed a DATA"
      );
      assert!(
        a.inline_qos.is_none() && b.inline_qos.is_none() && a.serialized_payload.is_none() && b.serialized_payload.is_none(),
        "harness: writer_body is for payload-free DATA only"
      );
    }
    (SubmessageBody::Writer(WriterSubmessage::Heartbeat(a, fa)), WriterSubmessage::Heartbeat(b, fb)) => {
      assert!(a == b && fa == fb, "harness: writer_body changed a HEARTBEAT");
    }
    _ => panic!("harness: writer_body: not SubmessageBody::Writer of the same variant (or a variant this file does not feed)"),
  }
  core::mem::forget(ws);
  body
}

// ------------------------------------------------------------------ rig
#[cfg(kani)]
const CHAN: usize = 1;
#[cfg(not(kani))]
const CHAN: usize = 8;

pub(crate) const OWN: u8 = 100; // this participant (rrig::reader_guid() lives there too)
pub(crate) const OTHER: u8 = 77; // some other participant on the network
pub(crate) const SRC: u8 = 1; // the remote participant that sent the message

pub(crate) fn user_reader_eid(n: u8) -> EntityId {
  EntityId::new([0, 0, n], EntityKind::READER_WITH_KEY_USER_DEFINED)
}

pub(crate) struct MRig {
  pub mr: MessageReceiver,
  pub acknack_rx: mio_channel::Receiver<(GuidPrefix, AckSubmessage)>,
  pub liveness_rx: mio_channel::Receiver<GuidPrefix>,
}

pub(crate) fn make_mrig() -> MRig {
  let (acknack_sender, acknack_rx) = mio_channel::sync_channel::<(GuidPrefix, AckSubmessage)>(CHAN);
  let (spdp_liveness_sender, liveness_rx) = mio_channel::sync_channel::<GuidPrefix>(CHAN);
  let mr = MessageReceiver::new(rrig::prefix(OWN), acknack_sender, spdp_liveness_sender, None);
  MRig {
    mr,
    acknack_rx,
    liveness_rx,
  }
}

pub(crate) fn spdp_reader_qos() -> QosPolicies {
  // Discovery::create_spdp_participant_qos()
  let mut q = QosPolicies::qos_none();
  q.reliability = Some(policy::Reliability::BestEffort);
  q.history = Some(policy::History::KeepLast { depth: 1 });
  q
}

impl MRig {
  /// Register a REAL Reader with the given entity id (built by the Reader rig), with the remote
  /// writers `matched` (rrig::writer_guid(n)) matched.  The other ends of the Reader's channels
  /// are leaked, i.e. stay connected (nothing of the Reader rig is ever dropped: dropping the last
  /// handle of a TopicCache runs the Bytes drop glue of every possible cache change symbolically).
  pub fn add_reader(&mut self, eid: EntityId, qos: QosPolicies, matched: &[u8]) {
    let mut r = rrig::make_rig(qos.clone(), false, GUID::new(rrig::prefix(OWN), eid));
    let mut i = 0;
    while i < matched.len() {
      r.match_writer(matched[i], &qos);
      i += 1;
    }
    let _ = r.take_sent();
    // move the Reader out, leak the rest of the Reader rig (receivers, sockets)
    let reader = unsafe { core::ptr::read(&r.reader) };
    core::mem::forget(r);
    core::mem::forget(qos);
    self.mr.add_reader(reader);
  }

  /// What handle_parsed_message does before its submessage loop (security feature off).
  pub fn begin_message(&mut self, source: GuidPrefix) {
    self.mr.reset();
    self.mr.dest_guid_prefix = self.mr.own_guid_prefix;
    self.mr.source_guid_prefix = source;
  }

  /// One parsed submessage, as the loop of handle_parsed_message hands it over.
  pub fn feed(&mut self, kind: SubmessageKind, body: SubmessageBody) {
    let sub = Submessage {
      header: SubmessageHeader {
        kind,
        flags: 1,
        content_length: 0,
      },
      body,
      original_bytes: None,
    };
    self.mr.handle_submessage(sub);
    self.mr.submessage_count += 1;
  }

  pub fn feed_info_dst(&mut self, p: GuidPrefix) {
    self.feed(
      SubmessageKind::INFO_DST,
      SubmessageBody::Interpreter(InterpreterSubmessage::InfoDestination(
        InfoDestination { guid_prefix: p },
        BitFlags::<INFODESTINATION_Flags>::from_flag(INFODESTINATION_Flags::Endianness),
      )),
    );
  }

  pub fn feed_info_src(&mut self, p: GuidPrefix) {
    self.feed(
      SubmessageKind::INFO_SRC,
      SubmessageBody::Interpreter(InterpreterSubmessage::InfoSource(
        crate::messages::submessages::info_source::InfoSource {
          unused: 0,
          protocol_version: ProtocolVersion::THIS_IMPLEMENTATION,
          vendor_id: VendorId::THIS_IMPLEMENTATION,
          guid_prefix: p,
        },
        BitFlags::<INFOSOURCE_Flags>::from_flag(INFOSOURCE_Flags::Endianness),
      )),
    );
  }

  pub fn feed_acknack(&mut self, reader_id: EntityId, writer_id: EntityId, base: i64, bits: u32, count: i32) {
    let an = AckNack {
      reader_id,
      writer_id,
      reader_sn_state: crate::structure::sequence_number::verif_harness_seqnum::sn_set_from_bits(base, 8, bits),
      count,
    };
    self.feed(
      SubmessageKind::ACKNACK,
      SubmessageBody::Reader(ReaderSubmessage::AckNack(
        an,
        BitFlags::<ACKNACK_Flags>::from_flag(ACKNACK_Flags::Endianness),
      )),
    );
  }

  pub fn feed_nackfrag(&mut self, reader_id: EntityId, writer_id: EntityId, writer_sn: i64, base: u32, bits: u32, count: i32) {
    let nf = NackFrag {
      reader_id,
      writer_id,
      writer_sn: SequenceNumber::new(writer_sn),
      fragment_number_state: crate::structure::sequence_number::verif_harness_mr_sets::fn_set_from_bits(base, 8, bits),
      count,
    };
    self.feed(
      SubmessageKind::NACK_FRAG,
      SubmessageBody::Reader(ReaderSubmessage::NackFrag(
        nf,
        BitFlags::<NACKFRAG_Flags>::from_flag(NACKFRAG_Flags::Endianness),
      )),
    );
  }

  /// DATA without payload and without inline QoS (flags: endianness only).  Which Reader gets
  /// it and whether a liveness signal follows does not depend on the payload.  (The earlier
  /// time-outs of the Writer arm of handle_submessage, with or without payload, were caused by
  /// the way the SubmessageBody was built: see `writer_body`.  A payload-carrying DATA has not
  /// been re-measured since.)
  pub fn feed_data(&mut self, writer_id: EntityId, reader_id: EntityId, sn: i64) {
    let d = Data {
      reader_id,
      writer_id,
      writer_sn: SequenceNumber::new(sn),
      inline_qos: None,
      serialized_payload: None,
    };
    self.feed(
      SubmessageKind::DATA,
      writer_body(WriterSubmessage::Data(
        d,
        BitFlags::<DATA_Flags>::from_flag(DATA_Flags::Endianness),
      )),
    );
  }

  pub fn feed_heartbeat(&mut self, writer_id: EntityId, reader_id: EntityId, first: i64, last: i64, count: i32) {
    let hb = Heartbeat {
      reader_id,
      writer_id,
      first_sn: SequenceNumber::new(first),
      last_sn: SequenceNumber::new(last),
      count,
    };
    self.feed(
      SubmessageKind::HEARTBEAT,
      writer_body(WriterSubmessage::Heartbeat(
        hb,
        BitFlags::<HEARTBEAT_Flags>::from_flag(HEARTBEAT_Flags::Endianness),
      )),
    );
  }

  /// End of harness: leak everything (descriptors, channels, Readers).
  pub fn finish(self) {
    core::mem::forget(self);
  }
}

/// What arrived on the acknack channel since the last call.
#[cfg(kani)]
pub(crate) fn take_acks(_rig: &MRig) -> Fwd {
  unsafe { core::mem::replace(&mut *core::ptr::addr_of_mut!(FWD), Fwd::new()) }
}
#[cfg(not(kani))]
pub(crate) fn take_acks(rig: &MRig) -> Fwd {
  let mut out = Fwd::new();
  while let Ok((p, a)) = rig.acknack_rx.try_recv() {
    out.push(FwdRec::of(p, &a));
  }
  out
}

/// What arrived on the SPDP liveness channel since the last call.
#[cfg(kani)]
pub(crate) fn take_liveness(_rig: &MRig) -> Live {
  unsafe { core::mem::replace(&mut *core::ptr::addr_of_mut!(LIVE), Live::new()) }
}
#[cfg(not(kani))]
pub(crate) fn take_liveness(rig: &MRig) -> Live {
  let mut out = Live::new();
  while let Ok(p) = rig.liveness_rx.try_recv() {
    out.push(p);
  }
  out
}

/// All harnesses on the MessageReceiver share this environment: the Reader rig's stubs
/// (reader.rs, macro reader_harness!) plus the channel stub above.
macro_rules! mr_harness {
  ($(#[$m:meta])* fn $name:ident($unwind:expr) $body:block) => {
    $(#[$m])*
    #[cfg_attr(kani, kani::proof, kani::unwind($unwind))]
    #[cfg_attr(
      kani,
      kani::stub(mio_extras::channel::SyncSender::try_send, stub_sync_try_send),
      kani::stub(stdpanic::catch_unwind, stub_catch_unwind),
      kani::stub(Reader::handle_data_msg, stub_handle_data_msg),
      kani::stub(Reader::encode_and_send, crate::rtps::reader::verif_harness_reader::stub_encode_and_send),
      kani::stub(Reader::send_status_change, crate::rtps::reader::verif_harness_reader::stub_send_status_change),
      kani::stub(Reader::send_participant_status, crate::rtps::reader::verif_harness_reader::stub_send_participant_status),
      kani::stub(Reader::notify_cache_change, crate::rtps::reader::verif_harness_reader::stub_notify_cache_change),
      kani::stub(crate::structure::time::Timestamp::now, crate::structure::time::verif_harness_env_time::stub_now),
      kani::stub(std::time::Instant::now, crate::structure::time::verif_harness_env_time::stub_instant_now),
      kani::stub(crate::mio_source::make_poll_channel, crate::mio_source::verif_harness_env_mio::stub_make_poll_channel),
      kani::stub(crate::mio_source::PollEventSender::send, crate::mio_source::verif_harness_env_mio::stub_send),
      kani::stub(crate::mio_source::PollEventSource::drain, crate::mio_source::verif_harness_env_mio::stub_drain),
      kani::stub(std::fmt::format, crate::verif_env::stub_format),
      kani::stub(std::vec::Vec::push, crate::verif_env::stub_vec_push),
      kani::stub(alloc::vec::from_elem, crate::verif_env::stub_vec_from_elem)
    )]
    #[cfg_attr(verif_replay, test)]
    fn $name() {
      vk::begin(stringify!($name));
      $body;
      vk::end();
    }
  };
}

// ==================================================================== C02 / O6
// Every ReaderSubmessage addressed to this participant reaches the writer side, i.e. arrives
// on the acknack channel (whose receiving end is dp_event_loop -> Writer::handle_ack_nack)
// with the same content and the message's source prefix.

/// Destination menu: how the message says whom the reader submessage is for.
///  0: no INFO_DST (destination = this participant, as handle_parsed_message sets it)
///  1: INFO_DST(this participant)
///  2: INFO_DST(GUIDPREFIX_UNKNOWN)  -- spec 8.3.7.7: means "this participant"
///  3: receiver state left at UNKNOWN (the state reset() produces)
///  4: INFO_DST(another participant)  -- must NOT be forwarded
fn set_destination(rig: &mut MRig, choice: u8) -> bool {
  match choice {
    0 => true,
    1 => {
      rig.feed_info_dst(rrig::prefix(OWN));
      true
    }
    2 => {
      rig.feed_info_dst(GuidPrefix::UNKNOWN);
      true
    }
    3 => {
      rig.mr.dest_guid_prefix = GuidPrefix::UNKNOWN;
      true
    }
    _ => {
      rig.feed_info_dst(rrig::prefix(OTHER));
      false
    }
  }
}

fn my_writer_eid() -> EntityId {
  EntityId::new([0, 0, 5], EntityKind::WRITER_WITH_KEY_USER_DEFINED)
}

mr_harness! {
/// O6, ACKNACK: forwarded exactly once, content and source prefix intact, iff the message is
/// for this participant; never a liveness signal.
fn c02_mr_acknack_forwarded(8) {
  let mut rig = make_mrig();
  rig.add_reader(user_reader_eid(9), rrig::reliable_qos(), &[1]);
  let choice = vk::range_u8(0, 4);
  let base: i64 = vk::any();
  let bits: u32 = vk::any();
  let count: i32 = vk::any();
  let src0: u8 = vk::any();
  let src = rrig::prefix(src0);
  rig.begin_message(src);
  let for_me = set_destination(&mut rig, choice);
  rig.feed_acknack(user_reader_eid(3), my_writer_eid(), base, bits, count);
  let got = take_acks(&rig);
  let live = take_liveness(&rig);
  if for_me {
    assert!(got.n == 1, "ACKNACK addressed to this participant did not reach the acknack channel exactly once");
    let r = got.recs[0];
    assert!(r.kind == 1, "ACKNACK arrived as something else");
    assert!(r.src == src, "forwarded ACKNACK does not carry the message's source prefix");
    assert!(r.reader_id == user_reader_eid(3) && r.writer_id == my_writer_eid(), "entity ids changed on the way");
    assert!(r.base == base && r.num_bits == 8 && r.w0 == bits & 0xff00_0000 && r.count == count, "ACKNACK content changed on the way");
  } else {
    assert!(got.n == 0, "ACKNACK addressed to another participant was forwarded to local writers");
  }
  assert!(live.n == 0, "ACKNACK produced an SPDP liveness signal");
  vk_cover!(got.n == 1 && choice == 2 && bits & 0xc000_0000 == 0x4000_0000, "INFO_DST(UNKNOWN), second SN requested");
  vk_cover!(got.n == 0, "not for me");
  vk_cover!(got.n == 1 && choice == 3, "receiver state UNKNOWN accepted");
  rig.finish();
}
}

mr_harness! {
/// O6, NACKFRAG: same obligation.  EXPECTED TO FAIL on the unchanged tree:
/// MessageReceiver::handle_reader_submessage has `ReaderSubmessage::NackFrag(_, _) => { TODO }`.
fn c02_finding_nackfrag_dropped(8) {
  let mut rig = make_mrig();
  let explicit_dst: bool = vk::any();
  let writer_sn = vk::range_i64(1, 1 << 40);
  let bits: u32 = vk::any();
  let count: i32 = vk::any();
  let src = rrig::prefix(SRC);
  rig.begin_message(src);
  if explicit_dst {
    rig.feed_info_dst(rrig::prefix(OWN));
  }
  rig.feed_nackfrag(user_reader_eid(3), my_writer_eid(), writer_sn, 1, bits, count);
  let got = take_acks(&rig);
  vk_cover!(explicit_dst && bits & 0xff00_0000 != 0, "NACKFRAG requesting at least one fragment, after INFO_DST(own)");
  assert!(got.n == 1, "NACKFRAG addressed to this participant did not reach the acknack channel (dropped in MessageReceiver::handle_reader_submessage)");
  let r = got.recs[0];
  assert!(r.kind == 2, "NACKFRAG arrived as something else");
  assert!(r.src == src, "forwarded NACKFRAG does not carry the message's source prefix");
  assert!(r.reader_id == user_reader_eid(3) && r.writer_id == my_writer_eid(), "entity ids changed on the way");
  assert!(r.writer_sn == writer_sn && r.base == 1 && r.num_bits == 8 && r.w0 == bits & 0xff00_0000 && r.count == count, "NACKFRAG content changed on the way");
  rig.finish();
}
}

mr_harness! {
/// Negative twin of the finding harness, passes on the unchanged tree and must keep passing
/// after a fix: a NACKFRAG for ANOTHER participant is not forwarded.
fn c02_mr_nackfrag_not_for_me(8) {
  let mut rig = make_mrig();
  let writer_sn = vk::range_i64(1, 1 << 40);
  let bits: u32 = vk::any();
  rig.begin_message(rrig::prefix(SRC));
  rig.feed_info_dst(rrig::prefix(OTHER));
  rig.feed_nackfrag(user_reader_eid(3), my_writer_eid(), writer_sn, 1, bits, 1);
  let got = take_acks(&rig);
  assert!(got.n == 0, "NACKFRAG addressed to another participant was forwarded to local writers");
  vk_cover!(bits & 0xff00_0000 != 0, "requests a fragment");
  rig.finish();
}
}

// ==================================================================== C12: SPDP liveness plumbing
// A DATA from a remote SPDP_BUILTIN_PARTICIPANT_WRITER is a sign of life of that participant:
// exactly one signal with the SOURCE prefix on the liveness channel, whether the DATA names the
// SPDP reader explicitly or ENTITYID_UNKNOWN, and whether or not the Reader takes it as new.

/// (writer, reader_id in the DATA, is a sign of life)
fn liveness_menu(choice: u8) -> (EntityId, EntityId, bool) {
  match choice {
    0 => (EntityId::SPDP_BUILTIN_PARTICIPANT_WRITER, EntityId::SPDP_BUILTIN_PARTICIPANT_READER, true),
    1 => (EntityId::SPDP_BUILTIN_PARTICIPANT_WRITER, EntityId::UNKNOWN, true),
    2 => (EntityId::SEDP_BUILTIN_PUBLICATIONS_WRITER, EntityId::SPDP_BUILTIN_PARTICIPANT_READER, false),
    _ => (EntityId::P2P_BUILTIN_PARTICIPANT_MESSAGE_WRITER, EntityId::UNKNOWN, false),
  }
}

fn feed_choice(rig: &mut MRig, choice: u8, copies: usize) -> bool {
  let (w, r, alive) = liveness_menu(choice);
  let mut k = 0;
  while k < copies {
    rig.feed_data(w, r, 1);
    k += 1;
  }
  alive
}

/// One message with `copies` identical DATA submessages (same SN: the second is a duplicate for
/// the Reader) chosen by `choice` (a real `match` with concrete arms, so that every arm runs the
/// dispatch on concrete entity ids); optionally preceded by INFO_SRC(other source).
fn liveness_case(choice: u8, copies: usize, info_src: bool) {
  let mut rig = make_mrig();
  rig.add_reader(EntityId::SPDP_BUILTIN_PARTICIPANT_READER, spdp_reader_qos(), &[]);
  let src0: u8 = vk::any();
  vk::assume(src0 != OWN && src0 != OTHER && src0 != 0);
  let mut src = rrig::prefix(src0);
  rig.begin_message(src);
  if info_src {
    // the DATA that follow come from the participant named by INFO_SRC
    src = rrig::prefix(OTHER);
    rig.feed_info_src(src);
  }
  let alive = match choice {
    0 => feed_choice(&mut rig, 0, copies),
    1 => feed_choice(&mut rig, 1, copies),
    2 => feed_choice(&mut rig, 2, copies),
    _ => feed_choice(&mut rig, 3, copies),
  };
  let live = take_liveness(&rig);
  let acks = take_acks(&rig);
  if alive {
    assert!(live.n == copies, "a DATA from a remote SPDP participant writer did not produce exactly one liveness signal");
    assert!(live.who[0] == src, "liveness signal does not carry the source prefix of the DATA");
    if copies > 1 {
      assert!(live.who[1] == src, "second liveness signal does not carry the source prefix");
    }
  } else {
    assert!(live.n == 0, "DATA from a writer other than the SPDP participant writer produced a liveness signal");
  }
  assert!(acks.n == 0, "a DATA put something on the acknack channel");
  #[cfg(kani)]
  unsafe {
    // routing, observable through the recorder only: SPDP DATA (explicit or UNKNOWN reader id) and
    // anything addressed explicitly to the SPDP reader is handed to it; the UNKNOWN-addressed
    // DATA of an unmatched non-SPDP writer is handed to nobody
    let expect_delivered = if choice == 3 { 0 } else { copies };
    assert!(DATA_N == expect_delivered, "DATA handed to a wrong number of Readers");
    if expect_delivered > 0 {
      assert!(DATA_TO[0] == EntityId::SPDP_BUILTIN_PARTICIPANT_READER, "DATA handed to a wrong Reader");
    }
  }
  vk_cover!(live.n == copies || !alive, "signalled");
  vk_cover!(src0 == 200, "some other source");
  rig.finish();
}

macro_rules! liveness {
  ($name:ident, $choice:expr, $copies:expr, $info_src:expr) => {
    mr_harness! {
    fn $name(8) {
      liveness_case($choice, $copies, $info_src);
    }
    }
  };
}
liveness!(c12_mr_liveness_explicit_reader, 0, 1, false);
liveness!(c12_mr_liveness_unknown_reader, 1, 1, false);
liveness!(c12_mr_liveness_other_writer_explicit, 2, 1, false);
liveness!(c12_mr_liveness_other_writer_unknown, 3, 1, false);
liveness!(c12_mr_liveness_duplicate_unknown_reader, 1, 2, false);
liveness!(c12_mr_liveness_duplicate_explicit_reader, 0, 2, false);
liveness!(c12_mr_liveness_after_info_src, 1, 1, true);

mr_harness! {
/// The same with a SYMBOLIC choice among the four menu entries (one solver query).
fn c12_mr_liveness_menu(8) {
  let choice = vk::range_u8(0, 3);
  liveness_case(choice, 1, false);
}
}
