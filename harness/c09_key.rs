// C09 helper — child module of crate::dds::key (KeyHash's byte array is private there).
#![allow(dead_code, unused_imports, clippy::all)]
use super::*;

/// A KeyHash with exactly these 16 bytes (what a DATA submessage's inline-QoS KeyHash
/// parameter carries on the wire; Reader::data_to_dds_data copies it into
/// DDSData::DisposeByKeyHash unchanged).
pub(crate) fn key_hash_from(bytes: [u8; 16]) -> KeyHash {
  KeyHash(bytes)
}
pub(crate) fn key_hash_bytes(h: &KeyHash) -> [u8; 16] {
  h.0
}
