#!/bin/bash
# Run once after a fresh restore, offline.  Builds the Kani dependency cache (so that a check
# only recompiles the rustdds crate) and validates the container shim.
set -u
cd "$(dirname "$0")"
export CARGO_NET_OFFLINE=true
mkdir -p .cache evidence replay logs
./check SELFTEST --tier quick
rc=$?
if [ $rc -ne 0 ]; then echo "setup: self-test failed (rc=$rc)"; exit 1; fi
echo "setup: ok"
