#!/usr/bin/env python3
"""Regenerate /verif/MANIFEST.json from tools/table.py (keeps it valid at all times)."""
import json, os, sys
sys.path.insert(0, os.path.dirname(os.path.abspath(__file__)))
from table import PROPS, NOT_APPLICABLE, CLAIMED

VERIF = os.path.dirname(os.path.dirname(os.path.abspath(__file__)))
BASELINE = ("cd /repo && cargo nextest run --workspace --no-fail-fast --tool-config-file "
            "pb:/w/lib/nextest.toml --profile pb --test-threads 8 --offline || "
            "(cd /repo && cargo test --workspace --no-fail-fast --offline)")
m = {
    "version": 1,
    "setup_cmd": "./setup.sh",
    "hooks": {
        "guard": "cfg(kani) / cfg(verif_replay) — set only in the scratch copy the checks build; /repo carries no hook code",
        "enable": ("each check rsyncs /repo's working tree to /var/tmp/rustdds-verif/<id>, appends "
                   "`#[cfg(any(kani, verif_replay))] #[path=\"/verif/harness/<m>.rs\"] mod verif_harness_<m>;` to the "
                   "anchored module files of the COPY, rewrites std::collections imports to the array-backed shim "
                   "under cfg(kani) only, and runs `cargo kani -Z stubbing`"),
        "baseline_off_cmd": BASELINE,
        "source_commits": [],
        "add_only": True,
    },
    "engines": [{
        "name": "kani-cbmc",
        "path": "/verif/check",
        "serves_properties": CLAIMED,
        "kind_free_text": "Kani 0.68 -> CBMC 6.11 -> CaDiCaL: bounded symbolic model checking of the compiled RustDDS functions; native replay of counterexamples",
    }],
    "checks": [],
    "not_applicable": NOT_APPLICABLE,
    "notes": ("All checks are solver-based (Kani/CBMC). Exit 0 may print UNDECIDED lines for harnesses that hit a "
              "time/memory cap or whose counterexample did not reproduce natively; those are counted in evidence "
              "(discharged < obligations). The only commits to /repo are `fix:` commits for genuine defects, listed "
              "in /verif/known_findings.json."),
}
for pid in CLAIMED:
    s = PROPS[pid]
    m["checks"].append({
        "property_id": pid,
        "quick_cmd": f"./check {pid} --tier quick",
        "thorough_cmd": f"./check {pid} --tier thorough",
        "evidence_file": f"/verif/evidence/{pid}.json",
        "replay_cmd_template": f"./check {pid} --replay {{path}}",
        "engine": "kani-cbmc",
        "level_claimed": {"category": "other", "text": s["level_text"], "design_ref": s.get("design_ref", "DESIGN.md section 3")},
        "level_note": s["level_note"],
        "technique": s["technique"],
    })
with open(os.path.join(VERIF, "MANIFEST.json"), "w") as f:
    json.dump(m, f, indent=1)
try:
    import jsonschema
    jsonschema.validate(m, json.load(open("/root/.vp/MANIFEST.schema.json")))
    print("MANIFEST.json valid,", len(m["checks"]), "checks,", len(NOT_APPLICABLE), "not applicable")
except ImportError:
    print("MANIFEST.json written (jsonschema not available to validate)")
