#!/usr/bin/env python3
"""Staging, Kani driving, result parsing, native replay, evidence writing.

Everything here is regenerated from /repo's *current working tree* on every run:
stage() copies it to a scratch directory, injects the harness modules and (only under
cfg(kani)) the container shim, and the solver is run on that copy.  /repo is never
written to.
"""
import hashlib
import json
import os
import re
import shutil
import signal
import subprocess
import sys
import threading
import time

VERIF = os.path.dirname(os.path.dirname(os.path.abspath(__file__)))
REPO = os.environ.get("VERIF_REPO", "/repo")
SCRATCH_ROOT = os.environ.get("VERIF_SCRATCH", "/var/tmp/rustdds-verif")
CACHE = os.environ.get("VERIF_CACHE", os.path.join(VERIF, ".cache"))
NCPU = os.cpu_count() or 4

ENV_BASE = dict(os.environ)
ENV_BASE.update(
    {
        "CARGO_NET_OFFLINE": "true",
        "CARGO_TERM_COLOR": "never",
        "RUST_BACKTRACE": "0",
    }
)


def log(*a):
    print(*a, flush=True)


def sh(cmd, **kw):
    return subprocess.run(cmd, shell=isinstance(cmd, str), **kw)


# --------------------------------------------------------------------------------------
# staging
# --------------------------------------------------------------------------------------

SHIM_USE_RE = re.compile(
    r"^(?P<indent>\s*)use\s+std::collections::(?P<what>[^;]+);\s*$"
)


def _split_use_items(what):
    """'{BTreeMap, BTreeSet}' / 'BTreeMap' / '{btree_map::Entry, BTreeMap}' -> list"""
    what = what.strip()
    if what.startswith("{") and what.endswith("}"):
        inner = what[1:-1]
        # no nested braces in this code base except btree_map::{..}; handle one level
        items, depth, cur = [], 0, ""
        for ch in inner:
            if ch == "{":
                depth += 1
            if ch == "}":
                depth -= 1
            if ch == "," and depth == 0:
                items.append(cur.strip())
                cur = ""
            else:
                cur += ch
        if cur.strip():
            items.append(cur.strip())
        return items
    return [what]


SHIMMED = {"BTreeMap", "BTreeSet", "HashMap", "HashSet", "btree_map", "hash_map"}


def rewrite_collections_imports(text):
    """Rewrite `use std::collections::X;` so that under cfg(kani) the shimmed container
    types come from crate::verif_shim.  Multi-line `use std::{collections::..}` forms are
    handled by rewrite_grouped_std_use below.  Returns (new_text, n_rewrites)."""
    out, n = [], 0
    for line in text.split("\n"):
        m = SHIM_USE_RE.match(line)
        if not m:
            out.append(line)
            continue
        items = _split_use_items(m.group("what"))
        shim_items = [i for i in items if i.split("::")[0].split(" ")[0] in SHIMMED]
        if not shim_items:
            out.append(line)
            continue
        other = [i for i in items if i not in shim_items]
        ind = m.group("indent")
        out.append(f"{ind}#[cfg(not(kani))]")
        out.append(line)
        out.append(f"{ind}#[cfg(kani)]")
        out.append(f"{ind}use crate::verif_shim::{{{', '.join(shim_items)}}};")
        if other:
            out.append(f"{ind}#[cfg(kani)]")
            out.append(f"{ind}use std::collections::{{{', '.join(other)}}};")
        n += 1
    return "\n".join(out), n


GROUPED_RE = re.compile(r"use\s+std::\{(?P<body>[^;]*)\};", re.S)


def rewrite_grouped_std_use(text):
    """Handle `use std::{ collections::{BTreeMap, ..}, sync::.., };` by splitting the
    collections part out into its own `use std::collections::...;` line first."""
    n = 0

    def repl(m):
        nonlocal n
        body = m.group("body")
        # split top-level items
        items, depth, cur = [], 0, ""
        for ch in body:
            if ch == "{":
                depth += 1
            if ch == "}":
                depth -= 1
            if ch == "," and depth == 0:
                items.append(cur.strip())
                cur = ""
            else:
                cur += ch
        if cur.strip():
            items.append(cur.strip())
        coll = [i for i in items if i.startswith("collections::")]
        if not coll:
            return m.group(0)
        rest = [i for i in items if not i.startswith("collections::")]
        n += 1
        lines = []
        for c in coll:
            lines.append("use std::" + " ".join(c.split()) + ";")
        if rest:
            lines.append("use std::{" + ", ".join(rest) + "};")
        return "\n".join(lines)

    return GROUPED_RE.sub(repl, text), n


def stage(prop, spec, scratch=None):
    """Copy /repo's working tree to scratch and inject harness modules.
    spec: {"inject": {"src/dds/qos.rs": ["qos"]...}, "shim_files": [...], "features": [...]}
    Returns the scratch path."""
    scratch = scratch or os.path.join(SCRATCH_ROOT, prop)
    if os.path.exists(scratch):
        shutil.rmtree(scratch)
    os.makedirs(scratch)
    r = sh(
        [
            "rsync",
            "-a",
            "--exclude",
            "target",
            "--exclude",
            ".git",
            REPO + "/",
            scratch + "/",
        ]
    )
    if r.returncode != 0:
        raise StageError("rsync failed")
    os.makedirs(os.path.join(scratch, ".cargo"), exist_ok=True)
    with open(os.path.join(scratch, ".cargo", "config.toml"), "w") as f:
        f.write("[net]\noffline = true\n")
    # lib.rs: vk + shim + env
    lib = os.path.join(scratch, "src", "lib.rs")
    with open(lib) as f:
        t = f.read()
    # the Vec::push stand-in (env/mod.rs) must be generic over the allocator parameter
    t = "#![cfg_attr(kani, feature(allocator_api))]\n#![cfg_attr(kani, recursion_limit = \"512\")]\n" + t
    t += (
        "\n// ---- injected by /verif/tools/vlib.py (scratch copy only) ----\n"
        '#[cfg(any(kani, verif_replay))]\n#[path = "%s/shim/vk.rs"]\n#[macro_use]\npub(crate) mod verif_vk;\n'
        '#[cfg(kani)]\n#[path = "%s/shim/collections.rs"]\npub(crate) mod verif_shim;\n'
        '#[cfg(any(kani, verif_replay))]\n#[path = "%s/env/mod.rs"]\npub(crate) mod verif_env;\n'
        '#[allow(unused_imports)]\npub(crate) mod verif_coll {\n'
        '  #[cfg(kani)]\n  pub use crate::verif_shim::{btree_map, hash_map, BTreeMap, BTreeSet, HashMap, HashSet};\n'
        '  #[cfg(kani)]\n  pub use std::collections::{BinaryHeap, LinkedList, VecDeque};\n'
        '  #[cfg(not(kani))]\n  pub use std::collections::*;\n}\n'
        % (VERIF, VERIF, VERIF)
    )
    for hname in spec.get("inject", {}).get("src/lib.rs", []):
        t += (
            '#[cfg(any(kani, verif_replay))]\n#[path = "%s/harness/%s.rs"]\npub(crate) mod verif_harness_%s;\n'
            % (VERIF, hname, hname)
        )
    with open(lib, "w") as f:
        f.write(t)
    for rel, hnames in spec.get("inject", {}).items():
        if rel == "src/lib.rs":
            continue
        p = os.path.join(scratch, rel)
        if not os.path.exists(p):
            raise StageError(f"anchor file {rel} does not exist in the working tree")
        with open(p) as f:
            t = f.read()
        for hname in hnames:
            t += (
                "\n// ---- injected by /verif/tools/vlib.py (scratch copy only) ----\n"
                '#[cfg(any(kani, verif_replay))]\n#[path = "%s/harness/%s.rs"]\npub(crate) mod verif_harness_%s;\n'
                % (VERIF, hname, hname)
            )
        with open(p, "w") as f:
            f.write(t)
    nre = 0
    for rel in dict.fromkeys(spec.get("shim_files", [])):
        p = os.path.join(scratch, rel)
        if not os.path.exists(p):
            continue
        with open(p) as f:
            t = f.read()
        # every mention of std::collections (use lines AND fully qualified paths, which an
        # edited working tree may introduce) is routed through crate::verif_coll, which is the
        # shim under cfg(kani) and std::collections otherwise
        t, n0 = rewrite_grouped_std_use(t)
        n1 = t.count("std::collections::")
        t = t.replace("::std::collections::", "crate::verif_coll::").replace("std::collections::", "crate::verif_coll::")
        nre += n1
        with open(p, "w") as f:
            f.write(t)
    # cargo decides freshness by mtime: a source file whose CONTENT differs from the last build but whose mtime is older
    # (rsync -a keeps /repo's mtimes; VERIF_REPO may point at another tree) would be taken as unchanged.  The crate is
    # rebuilt on every run anyway (lib.rs is rewritten), so stamping every staged source file costs nothing.
    now = time.time()
    for root, _dirs, files in os.walk(scratch):
        if os.sep + "target" in root:
            continue
        for fn in files:
            if fn.endswith((".rs", ".toml", ".lock")):
                try:
                    os.utime(os.path.join(root, fn), (now, now))
                except OSError:
                    pass
    return scratch, nre


class StageError(Exception):
    pass


# --------------------------------------------------------------------------------------
# running kani
# --------------------------------------------------------------------------------------

def kani_target_dir(tag="main"):
    d = os.environ.get("VERIF_TARGET") or os.path.join(CACHE, "kani-target-" + tag)
    os.makedirs(d, exist_ok=True)
    return d


class MemWatch(threading.Thread):
    """Kill any cbmc child of ours whose RSS exceeds limit_mb (no swap on this box)."""

    def __init__(self, root_pid, limit_mb):
        super().__init__(daemon=True)
        self.root = root_pid
        self.limit = limit_mb
        self.stop = False
        self.killed = []
        self.peak = {}

    def run(self):
        while not self.stop:
            try:
                out = subprocess.run(
                    ["ps", "-eo", "pid,ppid,rss,args"], capture_output=True, text=True
                ).stdout
                procs = {}
                for line in out.splitlines()[1:]:
                    parts = line.split(None, 3)
                    if len(parts) < 4:
                        continue
                    pid, ppid, rss, args = int(parts[0]), int(parts[1]), int(parts[2]), parts[3]
                    procs[pid] = (ppid, rss, args)
                # descendants of root
                desc = set([self.root])
                changed = True
                while changed:
                    changed = False
                    for pid, (ppid, _, _) in procs.items():
                        if ppid in desc and pid not in desc:
                            desc.add(pid)
                            changed = True
                for pid in desc:
                    if pid not in procs:
                        continue
                    ppid, rss, args = procs[pid]
                    if args.startswith("cbmc") or "/cbmc " in args:
                        mb = rss // 1024
                        m = re.search(r"--function (\S+)", args)
                        key = m.group(1) if m else str(pid)
                        self.peak[key] = max(self.peak.get(key, 0), mb)
                        if mb > self.limit:
                            try:
                                os.kill(pid, signal.SIGKILL)
                                self.killed.append((pid, mb, key))
                            except ProcessLookupError:
                                pass
            except Exception:
                pass
            time.sleep(2)


def run_kani(scratch, harnesses, features=None, jobs=None, harness_timeout=600,
             mem_mb=12000, logpath=None, playback=False, target_tag="main", extra=None,
             overall_timeout=None, memcmp_unwind=None, cbmc_args=None):
    """Run `cargo kani` on the staged copy for the given fully-qualified harness names.
    Returns (returncode, output_text, memwatch)."""
    jobs = jobs or min(len(harnesses), max(1, NCPU - 2))
    # --no-assertion-reach-checks: Kani's per-assertion reachability covers cost one SAT call
    # each (thousands per harness, measured 45% of the time); vacuity is guarded by the
    # explicit cover! witnesses every harness carries instead.
    cmd = ["cargo", "kani", "-Z", "stubbing", "-Z", "unstable-options",
           "--no-assertion-reach-checks", "--target-dir", kani_target_dir(target_tag),
           "--harness-timeout", f"{int(harness_timeout)}s", "--exact"]
    if features:
        cmd += ["--features", ",".join(features)]
    if playback:
        cmd += ["-Z", "concrete-playback", "--concrete-playback=print"]
    if jobs > 1 and not playback:  # Kani: --concrete-playback is incompatible with --jobs
        cmd += ["-j", str(jobs), "--output-format", "terse"]
    for h in harnesses:
        cmd += ["--harness", h]
    if extra:
        cmd += extra
    # CBMC models memcmp as a byte loop; GUID / GuidPrefix comparisons need up to 16
    # iterations.  Naming that one loop here lets the harnesses keep a small global unwind
    # bound (every symbolic-trip-count loop is unrolled up to the global bound).  Must be last.
    mu = memcmp_unwind or int(os.environ.get("VERIF_MEMCMP", "0") or 0) or 18
    cmd += ["--cbmc-args", "--unwindset", f"memcmp.0:{mu}"]
    # further CBMC flags: table key "cbmc_args" / env VERIF_CBMC_EXTRA (space separated)
    cmd += list(cbmc_args or [])
    if os.environ.get("VERIF_CBMC_EXTRA"):
        cmd += os.environ["VERIF_CBMC_EXTRA"].split()
    env = dict(ENV_BASE)
    p = subprocess.Popen(cmd, cwd=scratch, env=env, stdout=subprocess.PIPE,
                         stderr=subprocess.STDOUT, text=True, start_new_session=True)
    mw = MemWatch(p.pid, mem_mb)
    mw.start()
    chunks = []
    t0 = time.time()

    def reader():
        for line in p.stdout:
            chunks.append(line)

    rt = threading.Thread(target=reader, daemon=True)
    rt.start()
    try:
        p.wait(timeout=overall_timeout)
    except subprocess.TimeoutExpired:
        try:
            os.killpg(p.pid, signal.SIGKILL)
        except ProcessLookupError:
            pass
        p.wait()
        chunks.append("\nVERIF-OVERALL-TIMEOUT\n")
    rt.join(timeout=5)
    mw.stop = True
    out = "".join(chunks)
    if logpath:
        with open(logpath, "w") as f:
            f.write("$ " + " ".join(cmd) + "\n" + out)
    return p.returncode, out, mw, " ".join(cmd), time.time() - t0


HARNESS_HDR = re.compile(r"^Checking harness (\S+?)\.\.\.\s*$", re.M)
TERSE_THREAD = re.compile(r"^Thread \d+: Checking harness (\S+?)\.\.\.\s*$", re.M)


def parse_kani_output(out, harnesses):
    """Return {harness: {status, checks, failed, failed_checks[], covers_total,
    covers_sat, unsat_covers[], time_s, unwinding_failed, raw}}.
    status in SUCCESSFUL | FAILED | TIMEOUT | ERROR | MISSING."""
    res = {}
    # regular output: "Checking harness X..." followed by its block.
    # terse -j output: "Thread N: Checking harness X..." and later "Thread N: " + block.
    cur_of_thread = {}
    blocks = {}
    cur = None
    for line in out.split("\n"):
        m = re.match(r"^Thread (\d+): Checking harness (\S+?)\.\.\.\s*$", line)
        if m:
            cur_of_thread[m.group(1)] = m.group(2)
            cur = None
            continue
        m = re.match(r"^Thread (\d+):\s*$", line)
        if m:
            cur = cur_of_thread.get(m.group(1))
            if cur:
                blocks.setdefault(cur, [])
            continue
        m = re.match(r"^Checking harness (\S+?)\.\.\.\s*$", line)
        if m:
            cur = m.group(1)
            blocks.setdefault(cur, [])
            continue
        if line.startswith("Manual Harness Summary:") or line.startswith("Complete - "):
            cur = None
            continue
        if cur:
            blocks[cur].append(line)
    for name, lines in blocks.items():
        res[name] = parse_block("\n".join(lines))
    # Summary section of failures / timeouts in -j mode
    for h in harnesses:
        if h not in res:
            res[h] = {"status": "MISSING", "checks": 0, "failed": 0, "failed_checks": [],
                      "covers_total": 0, "covers_sat": 0, "unsat_covers": [], "time_s": 0.0,
                      "unwinding_failed": False, "raw": ""}
    return res


def parse_block(block):
    d = {"status": "ERROR", "checks": 0, "failed": 0, "failed_checks": [], "covers_total": 0,
         "covers_sat": 0, "unsat_covers": [], "time_s": 0.0, "unwinding_failed": False,
         "raw": block[-6000:]}
    m = re.search(r"\*\* (\d+) of (\d+) failed", block)
    if m:
        d["failed"], d["checks"] = int(m.group(1)), int(m.group(2))
    m = re.search(r"\*\* (\d+) of (\d+) cover properties satisfied", block)
    if m:
        d["covers_sat"], d["covers_total"] = int(m.group(1)), int(m.group(2))
    m = re.search(r"Verification Time: ([\d.]+)s", block)
    if m:
        d["time_s"] = float(m.group(1))
    if "VERIFICATION:- SUCCESSFUL" in block:
        d["status"] = "SUCCESSFUL"
    elif "VERIFICATION:- FAILED" in block:
        d["status"] = "FAILED"
    if re.search(r"timed out|TIMEOUT", block) and "VERIFICATION:-" not in block:
        d["status"] = "TIMEOUT"
    if "CBMC failed" in block or "Status: ERROR" in block or "out of memory" in block.lower():
        if d["status"] != "SUCCESSFUL":
            d["status"] = "ERROR"
    # failed checks
    for fm in re.finditer(r"Failed Checks: (.*)\n(?:\s*File: \"([^\"]*)\", line (\d+), in (\S+))?", block):
        d["failed_checks"].append({"desc": fm.group(1).strip(), "file": fm.group(2),
                                   "line": fm.group(3), "func": fm.group(4)})
    if re.search(r"Failed Checks: unwinding assertion", block) or \
       re.search(r"\[.*unwind.*\].*\n\s*- Status: FAILURE", block):
        d["unwinding_failed"] = True
    # unsatisfied covers (regular format lists each check; terse lists only failures)
    for cm in re.finditer(r"Check \d+: (\S*cover\S*)\n\s*- Status: (UNSATISFIABLE|UNREACHABLE)\n\s*- Description: \"([^\"]*)\"", block):
        d["unsat_covers"].append(cm.group(3))
    return d


PLAYBACK_RE = re.compile(r"let concrete_vals: Vec<Vec<u8>> = vec!\[(.*?)\];\s*\n\s*kani::concrete_playback_run", re.S)


def extract_playback_values(out):
    """Return list of value lists (one per generated playback test)."""
    sets = []
    for m in PLAYBACK_RE.finditer(out):
        body = m.group(1)
        vals = []
        for vm in re.finditer(r"vec!\[([^\]]*)\]", body):
            s = vm.group(1).strip()
            vals.append([int(x) for x in s.split(",") if x.strip()] if s else [])
        sets.append(vals)
    return sets


# --------------------------------------------------------------------------------------
# native replay
# --------------------------------------------------------------------------------------

def replay_target_dir():
    d = os.environ.get("VERIF_REPLAY_TARGET") or os.path.join(CACHE, "replay-target")
    os.makedirs(d, exist_ok=True)
    return d


def build_replay(scratch, features=None, release=False):
    cmd = ["cargo", "test", "--offline", "--lib", "--no-run", "--message-format=json",
           "--target-dir", replay_target_dir()]
    if release:
        cmd.append("--release")
    if features:
        cmd += ["--features", ",".join(features)]
    env = dict(ENV_BASE)
    env["RUSTFLAGS"] = (env.get("RUSTFLAGS", "") + " --cfg verif_replay -A warnings").strip()
    r = subprocess.run(cmd, cwd=scratch, env=env, capture_output=True, text=True)
    exe = None
    for line in r.stdout.splitlines():
        try:
            j = json.loads(line)
        except Exception:
            continue
        if j.get("reason") == "compiler-artifact" and j.get("executable") and \
           j.get("target", {}).get("name") == "rustdds" and j.get("profile", {}).get("test"):
            exe = j["executable"]
    if r.returncode != 0 or not exe:
        return None, r.stderr[-4000:]
    return exe, ""


def run_replay(exe, harness_fq, values_file, timeout=60):
    """Run one harness natively on recorded values.
    Returns (verdict, text): verdict in reproduced | passed | assume_failed | hang | error."""
    env = dict(ENV_BASE)
    env["VERIF_REPLAY_FILE"] = values_file
    env["RUST_BACKTRACE"] = "0"
    # test names inside the lib test binary have no crate prefix
    try:
        r = subprocess.run([exe, "--exact", harness_fq, "--nocapture", "--test-threads", "1"],
                           env=env, capture_output=True, text=True, timeout=timeout)
    except subprocess.TimeoutExpired as e:
        return "hang", f"replay exceeded {timeout}s (unbounded work)"
    text = (r.stdout + "\n" + r.stderr)[-6000:]
    if r.returncode == 77 or "VK-ASSUME-FAILED" in text:
        return "assume_failed", text
    if "running 0 tests" in text:
        return "error", text
    if r.returncode == 0:
        return "passed", text
    return "reproduced", text


def panic_message(text):
    m = re.search(r"panicked at ([^\n]*)\n([^\n]*)", text)
    if m:
        return (m.group(1) + " " + m.group(2)).strip()
    return ""
