#!/usr/bin/env python3
"""Run the quick (or thorough) check of the matching property against every seeded defect under
/verif/seeded/<Cxx>-<name>/ .  /repo itself is never touched: each defect is applied to a
scratch copy and the check is pointed at it with VERIF_REPO.  Results: seeded/RESULTS.json."""
import json, os, shutil, subprocess, sys, time
VERIF = os.path.dirname(os.path.dirname(os.path.abspath(__file__)))
tier = os.environ.get("SEED_TIER", "quick")
only = sys.argv[1:]
resf = os.path.join(VERIF, "seeded", "RESULTS.json")
results = json.load(open(resf)) if os.path.exists(resf) else {}
for d in sorted(os.listdir(os.path.join(VERIF, "seeded"))):
    sd = os.path.join(VERIF, "seeded", d)
    if not os.path.isdir(sd) or (only and d not in only and d.split("-")[0] not in only):
        continue
    meta = json.load(open(os.path.join(sd, "meta.json")))
    props = [meta["property"]] + meta.get("also_check", [])
    repo = "/var/tmp/seedrepo"
    shutil.rmtree(repo, ignore_errors=True)
    subprocess.run(["rsync", "-a", "--exclude", "target", "--exclude", ".git", "/repo/", repo + "/"], check=True)
    r = subprocess.run(["patch", "-p1", "-s", "-i", os.path.join(sd, "patch.diff")], cwd=repo)
    if r.returncode != 0:
        results[d] = {"error": "patch does not apply"}
        continue
    for prop in props:
        env = dict(os.environ, VERIF_REPO=repo, VERIF_SCRATCH="/var/tmp/rustdds-verif-seed",
                   VERIF_EVIDENCE_DIR="/var/tmp/seed-evidence", VERIF_JOBS=os.environ.get("VERIF_JOBS", "8"))
        t0 = time.time()
        p = subprocess.run([os.path.join(VERIF, "check"), prop, "--tier", tier], cwd=VERIF, env=env,
                           capture_output=True, text=True)
        lines = [l for l in p.stdout.splitlines() if l.startswith(("VIOLATION", "  harness=", "UNDECIDED", "VACUOUS", "KNOWN-FINDING", "SUMMARY", "CHECK-ERROR"))]
        results.setdefault(d, {})[prop + ":" + tier] = {"exit": p.returncode, "detected": p.returncode == 1,
                                                        "wall_s": round(time.time() - t0), "lines": lines[:12]}
        print(d, prop, tier, "exit", p.returncode, "DETECTED" if p.returncode == 1 else "missed", flush=True)
        json.dump(results, open(resf, "w"), indent=1)
    shutil.rmtree(repo, ignore_errors=True)
