#!/usr/bin/env python3
"""Record which thorough-tier harnesses have been DECIDED (proved, or failed as a listed finding) at least once on
the pinned tree: tools/props/thorough_ok.json.  table.py moves every other thorough harness to the tier
"experimental" (kept in the files, run by no registered command): an instance that never finished here could
finish on a faster machine with an oracle nobody has ever seen pass."""
import json, os, sys
V = os.path.dirname(os.path.dirname(os.path.abspath(__file__)))
out = os.path.join(V, "tools", "props", "thorough_ok.json")
ok = json.load(open(out)) if os.path.exists(out) else {}
for d in sys.argv[1:]:
    for f in os.listdir(d):
        if not f.endswith(".json"):
            continue
        e = json.load(open(os.path.join(d, f)))
        if e.get("tier") != "thorough":
            continue
        names = set(ok.get(e["property_id"], []))
        kf = set()
        for h in e["coverage"]["harnesses"]:
            if h["status"] == "SUCCESSFUL":
                names.add(h["name"])
            elif h["status"] == "FAILED" and h.get("expect") == "finding" and all(c.get("replay") in ("reproduced", "hang") for c in h.get("counterexamples", [{}])) and e.get("violations", 0) == 0:
                names.add(h["name"])
        ok[e["property_id"]] = sorted(names)
json.dump(ok, open(out, "w"), indent=0)
print({k: len(v) for k, v in ok.items()})
