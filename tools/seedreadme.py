#!/usr/bin/env python3
"""Write /verif/seeded/README.md from the meta.json files and RESULTS.json."""
import json, os
V = os.path.dirname(os.path.dirname(os.path.abspath(__file__)))
sd = os.path.join(V, "seeded")
res = json.load(open(os.path.join(sd, "RESULTS.json")))
notes = json.load(open(os.path.join(sd, "NOTES.json"))) if os.path.exists(os.path.join(sd, "NOTES.json")) else {}
lines = ["# Seeded defects and which checks catch them", "",
         "Each directory holds `patch.diff` (the change), `demo.rs` (a test that fails with the change and passes without; appended to the file named in meta.json) and `meta.json`.",
         "All were produced by fresh sub-agents that saw only the property text, then re-verified by the lead (suite 624/624 with the patch, demo fails with / passes without).",
         "`tools/evalseeded.py` applies a patch to a scratch copy of /repo and runs `./check <property> --tier quick` with `VERIF_REPO` pointing at it; exit 1 + VIOLATION = detected.", "",
         "| seeded defect | breaks | needs to manifest | check result (quick tier) | caught by / why missed |", "|---|---|---|---|---|"]
det = tot = 0
for d in sorted(os.listdir(sd)):
    p = os.path.join(sd, d, "meta.json")
    if not os.path.exists(p):
        continue
    m = json.load(open(p))
    r = res.get(d, {})
    outcome, by = [], []
    any_det = False
    for k, v in r.items():
        if not isinstance(v, dict):
            continue
        outcome.append("%s: %s" % (k, "DETECTED" if v.get("detected") else ("exit %s" % v.get("exit"))))
        if v.get("detected"):
            any_det = True
            hs = [l.split("harness=")[1].split(" ")[0] for l in v.get("lines", []) if "harness=" in l]
            by.append(", ".join(sorted(set(hs))[:3]))
    tot += 1
    det += any_det
    lines.append("| %s | %s | %s | %s | %s |" % (d, m.get("what_it_breaks", "").replace("|", "/"), m.get("needs_to_manifest", "").replace("|", "/")[:260],
                                              "; ".join(outcome) or "not run", ("; ".join(by) if any_det else "") + (" " + notes.get(d, "") if notes.get(d) else "")))
lines += ["", "Detected by the quick tier: %d of %d." % (det, tot), ""]
open(os.path.join(sd, "README.md"), "w").write("\n".join(lines))
print("README written:", det, "of", tot)
