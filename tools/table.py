"""property -> harness table.  One entry per claimed property; see DESIGN.md section 3."""

COMMON_TRUSTED = [
    "Kani 0.68.0 (MIR -> goto-program translation, its models of std intrinsics)",
    "CBMC 6.11.0 (symbolic execution, bit-precise encoding)",
    "CaDiCaL (SAT back end)",
    "/verif/shim/vk.rs (nondeterminism interface)",
    "log macros are dead code in the encoded world (log::max_level() == Off)",
]

RTPS_SHIM_FILES = [
    "src/rtps/reader.rs", "src/rtps/writer.rs", "src/rtps/rtps_writer_proxy.rs",
    "src/rtps/rtps_reader_proxy.rs", "src/rtps/fragment_assembler.rs",
    "src/rtps/message_receiver.rs", "src/rtps/dp_event_loop.rs",
    "src/structure/dds_cache.rs", "src/structure/cache_change.rs",
    "src/dds/with_key/simpledatareader.rs", "src/dds/with_key/datasample_cache.rs",
    "src/dds/with_key/datareader.rs", "src/dds/with_key/datawriter.rs",
    "src/discovery/discovery_db.rs",
]


def H(name, mod, what="", bounds="", tier="quick", timeout=600, **kw):
    d = {"name": name, "mod": mod, "what": what, "bounds": bounds, "tier": tier,
         "timeout": timeout}
    d.update(kw)
    return d


PROPS = {}

# ------------------------------------------------------------------------------- C10
_q = "dds::qos::verif_harness_qos"
PROPS["C10"] = {
    "title": "QoS matching = DDS request/offered rule",
    "design_ref": "DESIGN.md section 3, C10",
    "inject": {"src/dds/qos.rs": ["qos"]},
    "harnesses": [
        H("c10_full_pair", _q,
          "compliance_failure_wrt(offered, requested) on two complete symbolic QoS sets: None <=> all 8 "
          "DDS 1.4 request/offered rules hold; Some(p) => rule p violated",
          "no bound on values: every policy absent or any value, durations any 64-bit tick count"),
        H("c10_only_durability", _q, "durability alone: verdict == rule", "full width"),
        H("c10_only_presentation", _q, "presentation alone: verdict == rule", "full width"),
        H("c10_only_deadline", _q, "deadline alone: verdict == rule", "full width"),
        H("c10_only_latency_budget", _q, "latency budget alone: verdict == rule", "full width"),
        H("c10_only_ownership", _q, "ownership alone: verdict == (kinds equal)", "full width, any strength"),
        H("c10_only_liveliness", _q, "liveliness alone: verdict == (kind >= && lease <=)", "full width"),
        H("c10_only_reliability", _q, "reliability alone: verdict == rule", "full width"),
        H("c10_only_destination_order", _q, "destination order alone: verdict == rule", "full width"),
        H("c10_unmatched_policies_irrelevant", _q,
          "history / time-based filter / resource limits / lifespan never change the verdict", "full width"),
    ],
    "bounds": {"values": "none (full bit-width of every field)", "unwind": 3},
    "outside": ["policies RustDDS does not match on (partition, time-based filter, ...)",
                "the security `property` policy (None in the harness)"],
    "assumptions": ["the reference rule table in /verif/harness/qos.rs transcribes DDS 1.4 section 2.2.3"],
    "explanation": "C10: QosPolicies::compliance_failure_wrt against an independent reference of the 8 rules.",
    "technique": "Kani/CBMC bounded symbolic model checking of QosPolicies::compliance_failure_wrt (SAT verdict over all QoS pairs, full bit-width)",
    "level_text": ("SAT-solver verdict over every pair of QoS policy sets at full bit-width (no value bound); "
                   "the matching function is loop-free so there is no unwinding bound either. The call "
                   "sites in reader.rs / writer.rs are covered by C11's object harnesses."),
    "level_note": ("Trusted: Kani/CBMC/CaDiCaL, the reference table of DDS 1.4 2.2.3 written in the harness. "
                   "Counterexamples are replayed natively through the public function before being reported."),
}

# ------------------------------------------------------------------------- not applicable
NOT_APPLICABLE = [
    {"property_id": "C07", "reason": "needs >= 2 multi-threaded DomainParticipants exchanging UDP datagrams under wall-clock timers; Kani/CBMC model neither threads nor sockets, and cutting below DomainParticipant removes the scheduling and I/O the property quantifies over (its sequential ingredients are decided under C01-C05, C10-C12, C14, C15)"},
    {"property_id": "C13", "reason": "quantifies over thread interleavings at lock-release granularity; Kani has no concurrency model, and sequentialising the receive thread and the application would mean rewriting the code whose atomicity is the question"},
    {"property_id": "C16", "reason": "every clause is decided by AES-GCM/GMAC inside ring/OpenSSL (FFI + assembly): there is no body for the solver to encode, and a nondeterministic or toy stub assumes the property away or yields false alarms"},
    {"property_id": "C19", "reason": "X.509 chain validation, signatures and DH/ECDH go through OpenSSL/ring FFI over files on disk; the three-message handshake cannot be advanced symbolically without them"},
]
# properties planned but not yet implemented are listed here until their check exists
_PLANNED = ["C01", "C02", "C03", "C04", "C05", "C06", "C08", "C09", "C11", "C12", "C14", "C15", "C17", "C18", "C20"]
for _p in _PLANNED:
    if _p not in PROPS:
        NOT_APPLICABLE.append({"property_id": _p, "reason": "check not built yet in this revision of /verif (planned, see DESIGN.md section 3); not claimed until its harnesses exist and pass on the pinned tree"})
NOT_APPLICABLE.sort(key=lambda e: e["property_id"])
