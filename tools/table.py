"""property -> harness table.  One entry per claimed property; see DESIGN.md section 3."""

COMMON_TRUSTED = [
    "Kani 0.68.0 (MIR -> goto-program translation, its models of std intrinsics)",
    "CBMC 6.11.0 (symbolic execution, bit-precise encoding)",
    "CaDiCaL (SAT back end)",
    "/verif/shim/vk.rs (nondeterminism interface)",
    "log macros are dead code in the encoded world (log::max_level() == Off)",
]

RTPS_SHIM_FILES = [
    "src/rtps/reader.rs", "src/rtps/writer.rs", "src/rtps/rtps_writer_proxy.rs",
    "src/rtps/rtps_reader_proxy.rs", "src/rtps/fragment_assembler.rs",
    "src/rtps/message_receiver.rs",
    "src/structure/dds_cache.rs", "src/structure/cache_change.rs",
    "src/dds/with_key/simpledatareader.rs", "src/dds/with_key/datasample_cache.rs",
    "src/dds/with_key/datareader.rs", "src/dds/with_key/datawriter.rs",
    "src/discovery/discovery_db.rs",
]


def H(name, mod, what="", bounds="", tier="quick", timeout=600, **kw):
    d = {"name": name, "mod": mod, "what": what, "bounds": bounds, "tier": tier,
         "timeout": timeout}
    d.update(kw)
    return d


PROPS = {}

# ------------------------------------------------------------------------------- C10
_q = "dds::qos::verif_harness_qos"
PROPS["C10"] = {
    "title": "QoS matching = DDS request/offered rule",
    "design_ref": "DESIGN.md section 3, C10",
    "inject": {"src/dds/qos.rs": ["qos"]},
    "harnesses": [
        H("c10_full_pair", _q,
          "compliance_failure_wrt(offered, requested) on two complete symbolic QoS sets: None <=> all 8 "
          "DDS 1.4 request/offered rules hold; Some(p) => rule p violated",
          "no bound on values: every policy absent or any value, durations any 64-bit tick count"),
        H("c10_only_durability", _q, "durability alone: verdict == rule", "full width"),
        H("c10_only_presentation", _q, "presentation alone: verdict == rule", "full width"),
        H("c10_only_deadline", _q, "deadline alone: verdict == rule", "full width"),
        H("c10_only_latency_budget", _q, "latency budget alone: verdict == rule", "full width"),
        H("c10_only_ownership", _q, "ownership alone: verdict == (kinds equal)", "full width, any strength"),
        H("c10_only_liveliness", _q, "liveliness alone: verdict == (kind >= && lease <=)", "full width"),
        H("c10_only_reliability", _q, "reliability alone: verdict == rule", "full width"),
        H("c10_only_destination_order", _q, "destination order alone: verdict == rule", "full width"),
        H("c10_unmatched_policies_irrelevant", _q,
          "history / time-based filter / resource limits / lifespan never change the verdict", "full width"),
    ],
    "bounds": {"values": "none (full bit-width of every field)", "unwind": 3},
    "outside": ["policies RustDDS does not match on (partition, time-based filter, ...)",
                "the security `property` policy (None in the harness)"],
    "assumptions": ["the reference rule table in /verif/harness/qos.rs transcribes DDS 1.4 section 2.2.3"],
    "explanation": "C10: QosPolicies::compliance_failure_wrt against an independent reference of the 8 rules.",
    "technique": "Kani/CBMC bounded symbolic model checking of QosPolicies::compliance_failure_wrt (SAT verdict over all QoS pairs, full bit-width)",
    "level_text": ("SAT-solver verdict over every pair of QoS policy sets at full bit-width (no value bound); "
                   "the matching function is loop-free so there is no unwinding bound either. The call "
                   "sites in reader.rs / writer.rs are covered by C11's object harnesses."),
    "level_note": ("Trusted: Kani/CBMC/CaDiCaL, the reference table of DDS 1.4 2.2.3 written in the harness. "
                   "Counterexamples are replayed natively through the public function before being reported."),
}

# ------------------------------------------------------------------------------- C01
_wp = "rtps::rtps_writer_proxy::verif_harness_wproxy"
PROPS["C01"] = {
    "title": "reliable reader: in order, once, no holes, bytes intact",
    "design_ref": "DESIGN.md section 3, C01",
    "inject": {"src/rtps/rtps_writer_proxy.rs": ["wproxy"]},
    "shim_files": RTPS_SHIM_FILES + ["src/structure/sequence_number.rs", "src/rtps/message.rs"],
    "cap": {"quick": 4, "thorough": 6},
    "sn_window": {"quick": 4, "thorough": 5},
    "harnesses": [
        H("c01_proxy_inductive_o0", _wp, "one step (DATA/GAP/GAP-range/HEARTBEAT.first, any args) from ANY valid proxy state: known set == pre ∪ op, frontier monotone and == lowest unknown SN, invariant kept", "window origin 0, width W, CAP live entries"),
        H("c01_proxy_inductive_o31", _wp, "same, window across 2^31", "origin 2^31-4"),
        H("c01_proxy_inductive_o32", _wp, "same, window across 2^32 (high/low word boundary of the wire format)", "origin 2^32-4"),
        H("c01_proxy_inductive_o62", _wp, "same, near the top of the i64 range", "origin 2^62"),
        H("c01_proxy_sequence_k3", _wp, "3 arbitrary operations from the initial proxy", "k=3, window W"),
        H("c01_proxy_sequence_k5", _wp, "5 arbitrary operations from the initial proxy", "k=5, window W", tier="thorough", timeout=2400),
    ],
    "bounds": {"sn_window": "4 (quick) / 5 (thorough)", "CAP": "4 / 6 live map entries", "unwind": 11,
               "window_origins": [0, "2^31-4", "2^32-4", "2^62"]},
    "outside": ["window origins outside the grid", "more than CAP simultaneously out-of-order SNs per writer"],
    "assumptions": ["std BTreeMap replaced by the array-backed shim under cfg(kani) (validated by SELFTEST; counterexamples replayed on std containers)"],
    "trusted": ["/verif/shim/collections.rs (BTreeMap/BTreeSet stand-in)"],
    "explanation": "C01 kernel tier: RtpsWriterProxy state machine.",
    "technique": "Kani/CBMC bounded symbolic model checking: inductive step from an arbitrary valid RtpsWriterProxy state + operation sequences from the initial state",
    "level_text": "SAT-solver verdict over all operation arguments and all valid pre-states inside the stated window/CAP bounds.",
    "level_note": "Trusted: Kani/CBMC/CaDiCaL, the container shim (validated separately), the representation invariant stated in the harness.",
}

# ------------------------------------------------------------------------------- C03
_rd = "rtps::reader::verif_harness_reader"
ENV_INJECT = {
    "src/network/udp_sender.rs": ["env_udp"],
    "src/mio_source.rs": ["env_mio"],
    "src/structure/time.rs": ["env_time"],
}
ENV_STUBS = [
    "stub: Timestamp::now -> strictly increasing counter (TopicCache documents that it assumes unique receive timestamps)",
    "stub: std::time::Instant::now -> constant (only the mio-extras Timer asks)",
    "stub: mio_source::make_poll_channel / PollEventSender::send / PollEventSource::drain -> dummy descriptors, no-ops",
    "stub: std::fmt::format -> empty String",
    "stub: Reader::encode_and_send -> records the Message value built by the real code (serialisation is C14)",
    "environment: mio-extras Timer built with 4 slots instead of 256; UDPSender around an unused descriptor",
]
PROPS["C03"] = {
    "title": "ACKNACKs are truthful",
    "design_ref": "DESIGN.md section 3, C03",
    "inject": dict(ENV_INJECT, **{"src/rtps/reader.rs": ["reader"], "src/rtps/rtps_writer_proxy.rs": ["wproxy"],
                                  "src/structure/sequence_number.rs": ["seqnum"]}),
    "shim_files": RTPS_SHIM_FILES + ["src/structure/sequence_number.rs", "src/rtps/message.rs"],
    "cap": {"quick": 4, "thorough": 6},
    "sn_window": {"quick": 4, "thorough": 5},
    "harnesses": [
        H("c03_from_base_and_set_two", "structure::sequence_number::verif_harness_seqnum", "from_base_and_set(b,{b+x,b+y}) == set ∩ [b,b+256)", "x<y in 0..400, b in 1..2^40"),
        H("c03_reader_hb_fresh", _rd, "fresh matched writer, HEARTBEAT(first,last,final) symbolic: answered iff required, base <= first, requested SNs inside [first,last], lowest missing requested", "first in 1..4, last in first-1..4"),
    ],
    "bounds": {"unwind": 14},
    "outside": [],
    "assumptions": ENV_STUBS,
    "trusted": ["/verif/shim/collections.rs", "/verif/env, /verif/harness/env_*.rs (environment stand-ins)"],
    "explanation": "C03: Reader::handle_heartbeat_msg on the real Reader object.",
    "technique": "Kani/CBMC bounded symbolic model checking of the real Reader object (handle_heartbeat_msg and friends) with environment stubs",
    "level_text": "SAT-solver verdict over all HEARTBEAT/DATA/GAP arguments inside the stated window.",
    "level_note": "Trusted: Kani/CBMC/CaDiCaL, container shim, environment stubs listed in evidence.",
}

# ------------------------------------------------------------------------- not applicable
NOT_APPLICABLE = [
    {"property_id": "C07", "reason": "needs >= 2 multi-threaded DomainParticipants exchanging UDP datagrams under wall-clock timers; Kani/CBMC model neither threads nor sockets, and cutting below DomainParticipant removes the scheduling and I/O the property quantifies over (its sequential ingredients are decided under C01-C05, C10-C12, C14, C15)"},
    {"property_id": "C13", "reason": "quantifies over thread interleavings at lock-release granularity; Kani has no concurrency model, and sequentialising the receive thread and the application would mean rewriting the code whose atomicity is the question"},
    {"property_id": "C16", "reason": "every clause is decided by AES-GCM/GMAC inside ring/OpenSSL (FFI + assembly): there is no body for the solver to encode, and a nondeterministic or toy stub assumes the property away or yields false alarms"},
    {"property_id": "C19", "reason": "X.509 chain validation, signatures and DH/ECDH go through OpenSSL/ring FFI over files on disk; the three-message handshake cannot be advanced symbolically without them"},
]
# properties planned but not yet implemented are listed here until their check exists
_PLANNED = ["C01", "C02", "C03", "C04", "C05", "C06", "C08", "C09", "C11", "C12", "C14", "C15", "C17", "C18", "C20"]
for _p in _PLANNED:
    if _p not in PROPS:
        NOT_APPLICABLE.append({"property_id": _p, "reason": "check not built yet in this revision of /verif (planned, see DESIGN.md section 3); not claimed until its harnesses exist and pass on the pinned tree"})
NOT_APPLICABLE.sort(key=lambda e: e["property_id"])
