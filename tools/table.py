"""property -> harness table: one file per claimed property under tools/props/."""
import importlib
import os
import sys

_here = os.path.dirname(os.path.abspath(__file__))
sys.path.insert(0, os.path.join(_here, "props"))

COMMON_TRUSTED = [
    "Kani 0.68.0 (MIR -> goto-program translation, its models of std intrinsics)",
    "CBMC 6.11.0 (symbolic execution, bit-precise encoding)",
    "CaDiCaL (SAT back end)",
    "/verif/shim/vk.rs (nondeterminism interface)",
    "log macros are dead code in the encoded world (log::max_level() == Off)",
]

PROPS = {}
for _f in sorted(os.listdir(os.path.join(_here, "props"))):
    if _f.startswith("C") and _f.endswith(".py"):
        try:
            _m = importlib.import_module(_f[:-3])
            PROPS[_f[:-3]] = _m.PROP
        except Exception as _e:  # one broken table file must not take the other checks down
            print(f"table: cannot load props/{_f}: {_e!r}", file=sys.stderr)
    elif _f == "SELFTEST.py":
        PROPS["SELFTEST"] = importlib.import_module("SELFTEST").PROP

# thorough-tier harnesses that were never decided on the pinned tree are kept out of the registered commands
# (tools/prunethorough.py, DESIGN.md 8.8)
import json as _json
_okf = os.path.join(_here, "props", "thorough_ok.json")
_OK = _json.load(open(_okf)) if os.path.exists(_okf) else None
if _OK is not None:
    for _p, _spec in PROPS.items():
        for _h in _spec["harnesses"]:
            if _h.get("tier", "quick") == "thorough" and _h["name"] not in _OK.get(_p, []):
                _h["tier"] = "experimental"
        _nt = sum(1 for _h in _spec["harnesses"] if _h.get("tier", "quick") == "thorough")
        _ne = sum(1 for _h in _spec["harnesses"] if _h.get("tier", "quick") == "experimental")
        if _ne and "level_note" in _spec:
            _spec["level_note"] += (" Tiers: the thorough command runs the quick instances plus %d deeper ones that were decided at least once on the "
                                    "pinned tree; %d further instances never finished here and are kept as tier 'experimental', which no registered "
                                    "command runs (where a text above says 'thorough tier tries them', read 'experimental')." % (_nt, _ne))

# ------------------------------------------------------------------------- not applicable
NOT_APPLICABLE = [
    {"property_id": "C07", "reason": "needs >= 2 multi-threaded DomainParticipants exchanging UDP datagrams under wall-clock timers; Kani/CBMC model neither threads nor sockets, and cutting below DomainParticipant removes the scheduling and I/O the property quantifies over (its sequential ingredients are decided under C01-C05, C10-C12, C14, C15)"},
    {"property_id": "C13", "reason": "quantifies over thread interleavings at lock-release granularity; Kani has no concurrency model, and sequentialising the receive thread and the application would mean rewriting the code whose atomicity is the question"},
    {"property_id": "C16", "reason": "every clause is decided by AES-GCM/GMAC inside ring/OpenSSL (FFI + assembly): there is no body for the solver to encode, and a nondeterministic or toy stub assumes the property away or yields false alarms"},
    {"property_id": "C17", "reason": "the deciding code is MessageReceiver::handle_parsed_message & co. with real Readers and a SecurityPlugins object; object harnesses with one handler invocation cost minutes here and two invocations with symbolic inputs do not finish in 14 GB, while C17 needs sequences of up to four submessages through the security build (plugin construction additionally needs files and OS randomness); a hand model of the gating was ruled out (DESIGN.md 8.7)"},
    {"property_id": "C19", "reason": "X.509 chain validation, signatures and DH/ECDH go through OpenSSL/ring FFI over files on disk; the three-message handshake cannot be advanced symbolically without them"},
]
_PLANNED = ["C01", "C02", "C03", "C04", "C05", "C06", "C08", "C09", "C11", "C12", "C14", "C15", "C18", "C20"]
CLAIMED = sorted(p for p in PROPS if p != "SELFTEST" and PROPS[p].get("ready", True))
for _p in _PLANNED:
    if _p not in CLAIMED:
        NOT_APPLICABLE.append({"property_id": _p, "reason": "check not built yet in this revision of /verif (planned, see DESIGN.md section 3); not claimed until its harnesses exist and pass on the pinned tree"})
NOT_APPLICABLE.sort(key=lambda e: e["property_id"])
