#!/bin/bash
# Run every claimed check's quick command once, sequentially (what `vp check` does), and report.
cd "$(dirname "$0")/.."
for c in $(python3 -c "import json;print(' '.join(x['property_id'] for x in json.load(open('MANIFEST.json'))['checks']))"); do
  t0=$(date +%s)
  out=$(./check $c --tier ${1:-quick} 2>&1); rc=$?
  t1=$(date +%s)
  echo "$c rc=$rc wall=$((t1-t0))s $(echo "$out" | grep -E '^SUMMARY' | sed 's/SUMMARY property=[A-Z0-9]* //')"
  echo "$out" | grep -E '^(VIOLATION|UNDECIDED|VACUOUS|CHECK-ERROR|KNOWN-FINDING)' | cut -c1-160
done
