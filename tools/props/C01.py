"""C01 — see DESIGN.md section 3."""
from common import *  # H, RTPS_SHIM_FILES, ENV_INJECT, ENV_STUBS

# ------------------------------------------------------------------------------- C01
_wp = "rtps::rtps_writer_proxy::verif_harness_wproxy"
_fa = "rtps::fragment_assembler::verif_harness_frag"
PROP = {
    "title": "reliable reader: in order, once, no holes, bytes intact",
    "design_ref": "DESIGN.md section 3, C01",
    "inject": dict(ENV_INJECT, **{"src/rtps/rtps_writer_proxy.rs": ["wproxy"], "src/rtps/fragment_assembler.rs": ["frag"], "src/rtps/writer.rs": ["fragw"], "src/structure/dds_cache.rs": ["tcache"]}),
    "shim_files": RTPS_SHIM_FILES + ["src/structure/sequence_number.rs", "src/rtps/message.rs"],
    "cap": {"quick": 4, "thorough": 6},
    "sn_window": {"quick": 4, "thorough": 5},
    "harnesses": [
        H("c01_proxy_inductive_o0", _wp, "one step (DATA/GAP/GAP-range/HEARTBEAT.first, any args) from ANY valid proxy state: known set == pre ∪ op, frontier monotone and == lowest unknown SN, invariant kept", "window origin 0, width W, CAP live entries"),
        H("c01_proxy_inductive_o31", _wp, "same, window across 2^31", "origin 2^31-4"),
        H("c01_proxy_inductive_o32", _wp, "same, window across 2^32 (high/low word boundary of the wire format)", "origin 2^32-4"),
        H("c01_proxy_inductive_o62", _wp, "same, near the top of the i64 range", "origin 2^62"),
        H("c05_arrival_f4_n9", _fa, "(shared with C05) DATAFRAG path of C01: a sample cut by the real writer-side builder, ANY assembly state, ANY arriving fragment: delivered exactly when complete, bytes equal the written ones", "f=4, n=9 (3 fragments); payload, state and arrival symbolic", timeout=900),
        H("c05_once_via_proxy_f4_n5_sn1", _fa, "(shared with C05) late duplicate fragments reassemble a second copy, the writer-proxy filter of Reader::process_received_data accepts exactly one", "f=4, n=5", timeout=900),
        H("c01_topic_cache_handover", "structure::dds_cache::verif_harness_tcache", "real TopicCache: three changes of one writer arriving out of SN order (1, 4, 2), symbolic reliably-received marker and read pointer: get_changes_in_range_reliable yields exactly the stored SNs strictly between pointer and marker, in increasing order, once, with the bytes that arrived", "SNs 1..4, 3 changes", tier="thorough", timeout=2400),
        H("c01_proxy_sequence_k3", _wp, "3 arbitrary operations from the initial proxy", "k=3, window W"),
        H("c01_proxy_sequence_k5", _wp, "5 arbitrary operations from the initial proxy", "k=5, window W", tier="thorough", timeout=2400),
    ],
    "bounds": {"sn_window": "4 (quick) / 5 (thorough)", "CAP": "4 / 6 live map entries", "unwind": 11,
               "window_origins": [0, "2^31-4", "2^32-4", "2^62"]},
    "outside": ["window origins outside the grid", "more than CAP simultaneously out-of-order SNs per writer", "the Reader object glue (handle_data_msg/handle_gap_msg -> proxy -> TopicCache) with symbolic events and the TopicCache hand-over with symbolic marker/pointer: thorough tier (c01_topic_cache_handover), did not finish under the cap on this box", "SimpleDataReader::try_take_one order (C09 decides only the classification of one change)", "eviction by resource limits (excluded by the statement)"],
    "assumptions": ["std BTreeMap replaced by the array-backed shim under cfg(kani) (validated by SELFTEST; counterexamples replayed on std containers)"],
    "trusted": ["/verif/shim/collections.rs (BTreeMap/BTreeSet stand-in)"],
    "explanation": "C01 kernel tier: RtpsWriterProxy state machine.",
    "technique": "Kani/CBMC bounded symbolic model checking: inductive step from an arbitrary valid RtpsWriterProxy state + operation sequences from the initial state",
    "level_text": "SAT-solver verdict over all operation arguments and ALL valid pre-states of the writer proxy inside the stated window/CAP bounds (an inductive step: histories of any length), plus the fragment path (any assembly state, any arriving fragment) shared with C05. This decides the state machine that makes a reliable reader ordered, duplicate-free and hole-free; the glue that feeds it is outside.",
    "level_note": "KERNEL CLAIM: decided on RtpsWriterProxy and FragmentAssembler (real code, arbitrary valid states); the Reader/TopicCache/SimpleDataReader glue around them is not decided by the quick tier (object harnesses with more than one symbolic step did not finish, DESIGN.md 8.2/8.3). Trusted: Kani/CBMC/CaDiCaL, the container shim (validated by SELFTEST), the representation invariant stated in the harness (sorted map, frontier >= 1, frontier not in map: exactly the reachable states).",
}

