"""SELFTEST — validation of the trusted container shim (run by setup.sh)."""
from common import *

_st = "verif_harness_shimtest"
PROP = {
    "title": "container shim == reference model",
    "inject": {"src/lib.rs": ["shimtest"]},
    "cap": {"quick": 4, "thorough": 6},
    "harnesses": [
        H("selftest_shim_three_ops", _st, "3 arbitrary operations (insert/remove/range/split_off+append/entry) from the empty map agree with a bitmask model", "keys 0..5, CAP 4"),
        H("selftest_shim_inductive", _st, "one arbitrary operation from ANY valid map (symbolic slots) keeps the shim invariant and agrees with the model", "keys 0..5, CAP 4"),
        H("selftest_shim_set_and_retain", _st, "BTreeSet insert/first/last/retain, BTreeMap retain/pop_first", "keys 0..5"),
    ],
    "bounds": {"keys": "0..5", "ops": 3},
    "outside": [], "assumptions": [], "explanation": "shim self-test",
    "technique": "Kani/CBMC", "level_text": "", "level_note": "",
}
