"""C20 — see DESIGN.md section 3."""
from common import *

_wr = "rtps::writer::verif_harness_writer"
_W = ("real Writer: reader 1 reliable with ANY acknowledged-before value, reader 2 as stated; WaitForAcknowledgments command through the real "
      "command channel; then one symbolic event (acknowledgment with any base from reader 1/2 delivered to update_ack_waiters — the first thing Writer::handle_ack_nack does with an ACKNACK — or loss of reader 1/2 through reader_lost): success token sent exactly when every "
      "reliable reader matched at the call has acked everything written before the call or was lost; at once if already true; at most once")
_A = ("real Writer: reader 1 reliable with ANY acknowledged-before value, reader 2 as stated; WaitForAcknowledgments through process_writer_command: success token sent in the same call iff no reliable reader "
      "still has to acknowledge a sample written before the call; otherwise the installed waiter awaits exactly the pending readers and the last written SN")
PROP = {
    "title": "wait_for_acknowledgments tells the truth",
    "design_ref": "DESIGN.md section 3, C20",
    "inject": dict(ENV_INJECT, **{"src/rtps/writer.rs": ["writer"], "src/structure/sequence_number.rs": ["seqnum"]}),
    "shim_files": RTPS_SHIM_FILES,
    "cap": {"quick": 2, "thorough": 2},  # <= 2 readers / samples; lets the Writer-object harnesses run with unwind 3
    "sn_window": {"quick": 2, "thorough": 2},
    "harnesses": [
        H("c20_waitcmd_w2_one_reliable", _wr, _A, "2 samples written, reader 2 absent", tier="thorough", timeout=2400),
        H("c20_waitcmd_w2_reliable_besteffort", _wr, _A, "2 samples, reader 2 best-effort", tier="thorough", timeout=2400),
        H("c20_waitcmd_w2_two_reliable", _wr, _A, "2 samples, two reliable readers, both acked-before symbolic", tier="thorough", timeout=2400),
        H("c20_waitcmd_w0_one_reliable", _wr, _A, "nothing written, reader 2 absent", tier="thorough", timeout=2400),
        H("c20_waitcmd_w0_two_reliable", _wr, _A, "nothing written, two reliable readers", tier="thorough", timeout=1800),
        H("c20_waiter_step", _wr, "real AckWaiter, ANY pending subset of {reader 1, reader 2}, any awaited SN: one acknowledgment (any base) or loss of reader 1/2/a stranger completes the wait iff nobody is pending afterwards; strict boundary base > awaited SN", "awaited SN 0..3, base 0..5"),
        H("c20_wait_then_acknack_base", _wr, "real Writer end to end: reader pending after the wait command, ACKNACK with ANY base through the whole Writer::handle_ack_nack completes exactly when base > last written, at most once", "2 samples, base 0..4", tier="thorough", timeout=2400),
        H("c20_wait_then_event_w2_one_reliable", _wr, _W, "2 samples written, reader 2 absent", tier="thorough", timeout=2400),
        H("c20_wait_then_event_w2_two_reliable", _wr, _W, "2 samples, two reliable readers", tier="thorough", timeout=2400),
    ],
    "bounds": {"unwind": 7, "written": "0..2 samples", "readers": "<= 2", "events_after_wait": 1},
    "outside": ["the synchronous API's mio::Poll wait and its timeout (epoll is FFI)", "the async future's waker registration (needs a DataWriter object)", "a second wait issued while one is pending"],
    "assumptions": ENV_STUBS + ["stub: StatusChannelSender::try_send -> counter of zero-sized tokens (completion signal); natively the real channel is read"],
    "trusted": ["/verif/shim/collections.rs", "/verif/env, /verif/harness/env_*.rs"],
    "explanation": "C20: real Writer object, WaitForAcknowledgments arm of process_writer_command, update_ack_waiters.",
    "technique": "Kani/CBMC bounded symbolic model checking of the real AckWaiter (inductive step from any pending set); Writer-object harnesses in the thorough tier only",
    "level_text": "Quick tier: SAT-solver verdict over ANY pending set, awaited sequence number, acknowledging/lost reader and ACKNACK base for one step of the real AckWaiter (the unit that decides when wait_for_acknowledgments may report success). Thorough tier adds Writer-object harnesses that do not finish on this box (reported UNDECIDED).",
    "level_note": "QUICK TIER DECIDES ONLY THE WAITER KERNEL (AckWaiter::reader_acked_or_lost from any pending set). The Writer-object harnesses (wait command arm of process_writer_command, end-to-end ACKNACK) are listed in the thorough tier but did not finish under 14 GB on this box: the real code drops the completion channel's sender there, and the drop glue of std's mpmc channel / io::Error explodes CBMC's symbolic execution; they are reported as UNDECIDED in evidence when they do not finish. Sync timeout and async waker clauses are outside.",
}
