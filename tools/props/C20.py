"""C20 — see DESIGN.md section 3."""
from common import *

_wr = "rtps::writer::verif_harness_writer"
_W = ("real Writer: reader 1 reliable with ANY acknowledged-before value, reader 2 as stated; WaitForAcknowledgments command through the real "
      "command channel; then one symbolic event (acknowledgment with any base from reader 1/2 delivered to update_ack_waiters — the first thing Writer::handle_ack_nack does with an ACKNACK — or loss of reader 1/2 through reader_lost): success token sent exactly when every "
      "reliable reader matched at the call has acked everything written before the call or was lost; at once if already true; at most once")
PROP = {
    "ready": False,
    "title": "wait_for_acknowledgments tells the truth",
    "design_ref": "DESIGN.md section 3, C20",
    "inject": dict(ENV_INJECT, **{"src/rtps/writer.rs": ["writer"], "src/structure/sequence_number.rs": ["seqnum"]}),
    "shim_files": RTPS_SHIM_FILES,
    "cap": {"quick": 4, "thorough": 6},
    "harnesses": [
        H("c20_wait_w2_one_reliable", _wr, _W, "2 samples written, reader 2 absent"),
        H("c20_wait_w2_reliable_besteffort", _wr, _W, "2 samples, reader 2 best-effort"),
        H("c20_wait_w2_two_reliable", _wr, _W, "2 samples, reader 2 reliable with any acked-before", timeout=900),
        H("c20_wait_w0_one_reliable", _wr, _W, "nothing written, reader 2 absent"),
        H("c20_wait_w1_two_reliable", _wr, _W, "1 sample, two reliable readers", tier="thorough", timeout=1800),
        H("c20_wait_w2_one_reliable_full_acknack_path", _wr, _W + " — here the ACKNACK goes through the whole Writer::handle_ack_nack", "2 samples, reader 2 absent", tier="thorough", timeout=2400),
    ],
    "bounds": {"unwind": 7, "written": "0..2 samples", "readers": "<= 2", "events_after_wait": 1},
    "outside": ["the synchronous API's mio::Poll wait and its timeout (epoll is FFI)", "the async future's waker registration (needs a DataWriter object)", "a second wait issued while one is pending"],
    "assumptions": ENV_STUBS + ["stub: StatusChannelSender::try_send -> counter of zero-sized tokens (completion signal); natively the real channel is read"],
    "trusted": ["/verif/shim/collections.rs", "/verif/env, /verif/harness/env_*.rs"],
    "explanation": "C20: real Writer object, WaitForAcknowledgments arm of process_writer_command, update_ack_waiters.",
    "technique": "Kani/CBMC bounded symbolic model checking of the real Writer object (process_writer_command, handle_ack_nack, reader_lost) with environment stubs",
    "level_text": "SAT-solver verdict over all acknowledgment states and one following event inside the stated bounds.",
    "level_note": "Trusted: Kani/CBMC/CaDiCaL, container shim, environment stubs listed in evidence. Sync timeout and async waker clauses are outside.",
}
