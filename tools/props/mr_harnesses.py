"""Harness lists of the MessageReceiver rig (harness/mr.rs) for import into C02.py / C12.py:

    from mr_harnesses import MR_INJECT, MR_HARNESSES_C02, MR_HARNESSES_C12, MR_ASSUMPTIONS, MR_OUTSIDE
    "inject": dict(<existing>, **MR_INJECT)   # merge the per-file lists if a file is already present
    "harnesses": [...] + MR_HARNESSES_C02

The table needs shim_files RTPS_SHIM_FILES (src/rtps/message_receiver.rs is in it) and cap >= 2.
"""
from common import H, ENV_INJECT, ENV_STUBS

_mr = "rtps::message_receiver::verif_harness_mr"

# harness/mr.rs uses the Reader rig (reader.rs -> wproxy.rs, seqnum.rs) and mr_sets.rs
MR_INJECT = dict(ENV_INJECT, **{
    "src/rtps/message_receiver.rs": ["mr"],
    "src/rtps/reader.rs": ["reader"],
    "src/rtps/rtps_writer_proxy.rs": ["wproxy"],
    "src/structure/sequence_number.rs": ["seqnum", "mr_sets"],
})

_B_ACK = ("real MessageReceiver (security off) with one real user Reader registered; one message = [INFO_DST?] + one reader submessage fed "
          "through the real handle_submessage with the receiver state initialised as handle_parsed_message does; "
          "set base any i64, 8-bit bitmap any, count any i32")

MR_HARNESSES_C02 = [
    H("c02_mr_acknack_forwarded", _mr,
      "O6 (ACKNACK): an ACKNACK arrives exactly once on the acknack channel (the Writer side) with the message's source prefix and "
      "unchanged reader/writer ids, base, bitmap and count when the message is for this participant "
      "(no INFO_DST | INFO_DST(own) | INFO_DST(GUIDPREFIX_UNKNOWN) | receiver state UNKNOWN), and is NOT forwarded after INFO_DST(other participant); "
      "never an SPDP liveness signal",
      _B_ACK + "; destination: symbolic choice among the 5 menu entries; source prefix byte 0 any"),
    H("c02_mr_nackfrag_not_for_me", _mr,
      "a NACKFRAG after INFO_DST(other participant) is not forwarded (negative twin of the finding; must keep passing after a fix)",
      "writerSN 1..2^40, 8-bit fragment bitmap any"),
    H("c02_finding_nackfrag_dropped", _mr,
      "O6 (NACKFRAG): a NACKFRAG addressed to this participant arrives on the acknack channel as AckSubmessage::NackFrag with the same content. "
      "FAILS on the unchanged tree: MessageReceiver::handle_reader_submessage has `ReaderSubmessage::NackFrag(_, _) => { TODO }`, so a reader's request "
      "for missing fragments never reaches Writer::handle_ack_nack (which has a NackFrag arm)",
      "with / without INFO_DST(own) symbolic; writerSN 1..2^40, fragment bitmap any 8 bits at base 1, count any i32",
      expect="finding"),
]

_B_LIVE = ("real MessageReceiver with one real Reader with entity id SPDP_BUILTIN_PARTICIPANT_READER (BestEffort, KeepLast 1, no matched writer) "
           "registered; DATA (SN 1, no payload, no inline QoS) fed through the real handle_submessage -> handle_writer_submessage; Reader::handle_data_msg is a recorder under Kani (real natively); "
           "source prefix byte 0 any (not own)")

# READY (tier="thorough" only until the lead promotes them; C12.py needs
#   from mr_harnesses import MR_INJECT, MR_HARNESSES_C12
#   "inject": dict(MR_INJECT, **{"src/discovery/discovery_db.rs": ["lease", "c11_db"]}),  "harnesses": [...] + MR_HARNESSES_C12
# cap 2 is enough).  Measured one at a time (VERIF_JOBS=1) on the box while another 14-job run was using it:
# 63-76 s verification time each (symex 45-56 s, solver < 5 s), 2.1-2.4 GB peak, 18865 checks, 2/2 covers.
# History: every one of them used to time out (> 600 s) as soon as a DATA entered the Writer arm of
# MessageReceiver::handle_submessage.  Cause: WriterSubmessage and SubmessageBody are both niche-encoded enums = C unions
# for CBMC; the aggregate assignment Kani emits for `SubmessageBody::Writer(ws)` makes every field of the inner value
# (discriminant, reader/writer ids) non-constant for symbolic execution, which then explores all arms of every match on the
# submessage (real Reader heartbeat/gap/datafrag handlers, five-variant clone/drop glue) and unrolls the target-reader loop to
# the unwind bound.  harness/mr.rs::writer_body builds the same value by a checked re-interpretation under Kani (doc there).
MR_HARNESSES_C12 = [
    H("c12_mr_liveness_unknown_reader", _mr,
      "a DATA from SPDP_BUILTIN_PARTICIPANT_WRITER with readerId ENTITYID_UNKNOWN (what the spec's stateless SPDP writer sends) produces exactly one "
      "signal on the SPDP liveness channel carrying the SOURCE prefix; nothing on the acknack channel; the DATA is handed to the SPDP reader exactly once",
      _B_LIVE, tier="thorough", timeout=600),
    H("c12_mr_liveness_explicit_reader", _mr, "same with readerId = SPDP_BUILTIN_PARTICIPANT_READER", _B_LIVE, tier="thorough", timeout=600),
    H("c12_mr_liveness_duplicate_unknown_reader", _mr,
      "the same DATA twice (same SN: a duplicate for the Reader): two signals, both with the source prefix — a repeated SPDP DATA is still a sign of life",
      _B_LIVE + "; two handler invocations, all concrete but the source", tier="thorough", timeout=600),
    H("c12_mr_liveness_other_writer_explicit", _mr,
      "a DATA from another builtin writer (SEDP publications writer) addressed to the SPDP reader produces NO liveness signal", _B_LIVE, tier="thorough", timeout=600),
    H("c12_mr_liveness_other_writer_unknown", _mr,
      "a DATA from P2P_BUILTIN_PARTICIPANT_MESSAGE_WRITER with readerId UNKNOWN produces NO liveness signal (and is delivered to no reader)", _B_LIVE, tier="thorough", timeout=600),
    H("c12_mr_liveness_after_info_src", _mr,
      "INFO_SRC(p) before the SPDP DATA: the signal carries p (the source of the DATA), not the prefix of the RTPS header", _B_LIVE, tier="thorough", timeout=600),
    H("c12_mr_liveness_duplicate_explicit_reader", _mr, "duplicate DATA with explicit SPDP readerId: two signals", _B_LIVE, tier="thorough", timeout=600),
    H("c12_mr_liveness_menu", _mr, "the four single-DATA cases as ONE query with a symbolic choice (real match, concrete arms)", _B_LIVE,
      tier="thorough", timeout=600),
]

MR_ASSUMPTIONS = ENV_STUBS + [
    "stub: Reader::handle_data_msg -> recorder (which Reader got the DATA); the real body entered through the MessageReceiver did not finish in 300 s "
    "(Bytes clone/drop through the vtable + topic cache); what a Reader does with a DATA is decided on the Reader rig (C01/C03). The liveness signal is sent by "
    "MessageReceiver::handle_writer_submessage itself after that call; 'whether or not the Reader accepts the DATA as new' therefore holds by construction under Kani "
    "and is exercised for real only in native replay",
    "stub: std::panic::catch_unwind -> direct call (never executed; keeps Kani 0.68 from crashing on the drop glue of mio-extras Timer -> JoinHandle -> Packet, "
    "which MessageReceiver::add_reader makes reachable)",
    "stub: mio_extras::channel::SyncSender::<T>::try_send -> recorder (payload told apart by size_of::<T>(): GuidPrefix = SPDP liveness, "
    "(GuidPrefix, AckSubmessage) = acknack channel), returns Ok(()); the real body's error type carries io::Error (drop glue explodes symbolic execution); "
    "channel-full / disconnected outcomes are therefore not explored. Natively the real channels are used and read back with try_recv",
    "stubs of the Reader rig (reader.rs): Reader::encode_and_send / send_status_change / send_participant_status / notify_cache_change -> recorders; "
    "Vec::push / vec![x;n] -> same semantics with concrete allocation sizes",
    "under Kani the SubmessageBody of a writer submessage (DATA, HEARTBEAT) is built by harness/mr.rs::writer_body: the bytes of the WriterSubmessage re-interpreted as "
    "SubmessageBody (both are niche-encoded on the same word, same size - asserted) and then checked by assertions to be SubmessageBody::Writer of the same variant with the "
    "same field values; the plain constructor makes a concrete DATA look symbolic to CBMC (union field sensitivity). Natively the plain constructor is used",
    "submessages are handed to the real MessageReceiver::handle_submessage as parsed structs after doing what handle_parsed_message does before its loop "
    "(reset(); dest = own prefix; source = header prefix); the Vec<Submessage> loop of handle_parsed_message itself is not executed "
    "(a Submessage read back from a heap Vec loses constness for CBMC: field-sensitivity limit)",
]
MR_OUTSIDE = [
    "security feature (C17): SecurityPlugins gating, SecurePrefix/Body/Postfix state machine",
    "acknack / liveness channel full or disconnected (try_send error arms)",
    "handle_received_packet (magic / length checks, speedy parsing: C06/C14) and the submessage loop of handle_parsed_message",
    "more than two submessages per message; INFO_REPLY / INFO_TS effects on the state handed to Readers",
]
