"""TEMPORARY table for running the MessageReceiver rig harnesses (harness/mr.rs) on their own."""
from common import *
from mr_harnesses import MR_INJECT, MR_HARNESSES_C02, MR_HARNESSES_C12, MR_ASSUMPTIONS, MR_OUTSIDE

PROP = {
    "ready": False,
    "title": "MessageReceiver dispatch (temporary table: C02/O6 + C12 liveness plumbing)",
    "design_ref": "DESIGN.md section 3, C02 (O6), C12",
    "inject": MR_INJECT,
    "shim_files": RTPS_SHIM_FILES,
    "cap": {"quick": 4, "thorough": 4},
    "sn_window": {"quick": 4, "thorough": 5},
    "harnesses": MR_HARNESSES_C02 + MR_HARNESSES_C12,
    "bounds": {"unwind": 8, "CAP": 4},
    "outside": MR_OUTSIDE,
    "assumptions": MR_ASSUMPTIONS,
    "trusted": ["/verif/shim/collections.rs", "/verif/env, /verif/harness/env_*.rs (environment stand-ins)"],
    "explanation": "MessageReceiver dispatch on the real object with real Readers registered.",
    "technique": "Kani/CBMC bounded symbolic model checking of the real MessageReceiver object with environment stubs",
    "level_text": "SAT-solver verdict over all submessage contents inside the stated bounds.",
    "level_note": "Trusted: Kani/CBMC/CaDiCaL, container shim, environment stubs listed in evidence.",
}
