"""C06 (parser / hostile-field half) — see DESIGN.md section 3, C06.

The Reader/Writer object handlers (handle_gap_msg, handle_heartbeat_msg, handle_ack_nack, ...)
are the lead's half and are merged into this table by him; harness names here are prefixed
c06_parse_ / c06_numset_ / c06_plist_ / c06_data_ / c06_datafrag_ / c06_submsg_ / c06_msg_ /
c06_frag_ / c06_rproxy_ / c06_finding_.
"""
from common import *  # H, RTPS_SHIM_FILES, ENV_INJECT, ENV_STUBS

_ns = "structure::sequence_number::verif_harness_c06_numset"
_sm = "rtps::submessage::verif_harness_c06_submsg"
_da = "messages::submessages::data::verif_harness_c06_data"
_fa = "rtps::fragment_assembler::verif_harness_c06_frag"
_rp = "rtps::rtps_reader_proxy::verif_harness_c06_rproxy"
_wp = "rtps::rtps_writer_proxy::verif_harness_c06_wproxy"

_NOPANIC = "no reachable panic / arithmetic overflow / index out of bounds / unwrap on None (Kani's built-in checks); "

# ------------------------------------------------------------------------------- NumberSet
_numset = []
_PARSE = (_NOPANIC + "Ok => numBits <= 256, bitmap.len() == ceil(numBits/32), no word taken from beyond the buffer, "
          "len_serialized() == fixed part + 4*words; Err => the bytes were malformed (buffer below the fixed part, numBits > 256 "
          "-- any value up to 2^32-1, rejected before the bitmap is allocated -- or bitmap words missing): a well-formed set is never discarded")
_QUICK_PARSE = {("sn", 8, "le"), ("sn", 12, "le"), ("sn", 16, "be"), ("sn", 20, "le"), ("sn", 44, "le"), ("sn", 44, "be"),
                ("fn", 4, "le"), ("fn", 8, "be"), ("fn", 16, "le"), ("fn", 40, "le")}
for en in ("le", "be"):
    for L in (8, 12, 16, 20, 44):
        _numset.append(H("c06_numset_parse_sn_%d_%s" % (L, en), _ns, "SequenceNumberSet::read_from: " + _PARSE,
                         "%d arbitrary bytes, byte order %s" % (L, en.upper()),
                         tier="quick" if ("sn", L, en) in _QUICK_PARSE else "thorough"))
    for L in (4, 8, 12, 16, 40):
        if L == 4 and en == "be":
            continue
        _numset.append(H("c06_numset_parse_fn_%d_%s" % (L, en), _ns, "FragmentNumberSet::read_from: " + _PARSE,
                         "%d arbitrary bytes, byte order %s" % (L, en.upper()),
                         tier="quick" if ("fn", L, en) in _QUICK_PARSE else "thorough"))
_ITER = (_NOPANIC + "on a set that came out of read_from (any base, any numBits the buffer allows, any bitmap words): one next() "
         "and one next_back() from ANY iterator position 0 <= a <= r <= num_bits stays inside the window and advances; iter() starts at "
         "(0, num_bits); hence draining forwards, backwards or mixed is panic-free and takes <= num_bits <= 256 steps; is_empty() agrees with "
         "iter().next() (what Writer::handle_ack_nack evaluates first on every ACKNACK)")
_EXCL = ("; EXCLUDED while finding C06/numset-iter-overflow is open: sets with a member bit i such that base + i exceeds the numeric maximum "
         "(decided separately in c06_finding_numset_iter_overflow_*)")
for name, what, bounds, tier, to in [
    ("c06_numset_iter_parsed_sn_16_le", "SequenceNumberSet", "16 arbitrary bytes (numBits 0..32), LE", "quick", 900),
    ("c06_numset_iter_parsed_sn_16_be", "SequenceNumberSet", "16 arbitrary bytes (numBits 0..32), BE", "thorough", 900),
    ("c06_numset_iter_parsed_sn_20_le", "SequenceNumberSet", "20 arbitrary bytes (numBits 0..64), LE", "thorough", 1800),
    ("c06_numset_iter_parsed_sn_44_le", "SequenceNumberSet", "44 arbitrary bytes (numBits 0..256: every legal size), LE", "thorough", 2400),
    ("c06_numset_iter_parsed_fn_12_le", "FragmentNumberSet", "12 arbitrary bytes (numBits 0..32), LE", "quick", 900),
    ("c06_numset_iter_parsed_fn_12_be", "FragmentNumberSet", "12 arbitrary bytes (numBits 0..32), BE", "thorough", 900),
    ("c06_numset_iter_parsed_fn_16_le", "FragmentNumberSet", "16 arbitrary bytes (numBits 0..64), LE", "thorough", 1800),
]:
    _numset.append(H(name, _ns, what + " iterator: " + _ITER + _EXCL, bounds, tier=tier, timeout=to))

# ------------------------------------------------------------------------------- headers and speedy-decoded bodies
_parse = []
for L in (3, 4, 5):
    _parse.append(H("c06_parse_submessage_header_%d" % L, _sm,
                    "SubmessageHeader::read_from_buffer: " + _NOPANIC + "Ok iff >= 4 bytes; kind / flags taken literally, octetsToNextHeader "
                    "read in the byte order of flag E", "%d arbitrary bytes" % L))
for L in (19, 20, 21):
    _parse.append(H("c06_parse_header_%d" % L, _sm,
                    "Header::read_from_buffer + Validity::valid: " + _NOPANIC + "Ok iff >= 20 bytes; valid() implies the RTPS magic and major version <= 2",
                    "%d arbitrary bytes" % L))
_FIXED = "::read_from_buffer_with_ctx: " + _NOPANIC + "accepted iff the buffer holds the fixed-size body (trailing bytes ignored)"
for nm, ty, ex in [("heartbeat", "Heartbeat", 28), ("heartbeatfrag", "HeartbeatFrag", 24), ("infots", "Timestamp (INFO_TS body)", 8),
                   ("infosrc", "InfoSource", 20), ("infodst", "InfoDestination", 12)]:
    for L in (ex - 1, ex, ex + 1):
        _parse.append(H("c06_parse_%s_%d" % (nm, L), _sm, ty + _FIXED, "%d arbitrary bytes (body is %d), symbolic byte order" % (L, ex)))
_SETBODY = ("::read_from_buffer_with_ctx: " + _NOPANIC + "accepted iff numBits <= 256 and the bitmap (and the count behind it) lie inside the buffer; "
            "every relation between the declared bitmap size and the buffer is inside one instance (numBits is symbolic)")
for nm, ty, grid in [("gap", "Gap", [(27, "le", "q"), (28, "le", "q"), (32, "le", "q"), (32, "be", "q"), (33, "le", "t"), (60, "le", "q"), (60, "be", "t")]),
                     ("acknack", "AckNack", [(23, "le", "q"), (24, "le", "q"), (28, "le", "q"), (28, "be", "q"), (29, "le", "t"), (52, "le", "q"), (52, "be", "t")]),
                     ("nackfrag", "NackFrag", [(27, "le", "q"), (28, "le", "q"), (32, "le", "q"), (32, "be", "q"), (33, "le", "t"), (56, "le", "q")])]:
    for L, en, tr in grid:
        _parse.append(H("c06_parse_%s_%d_%s" % (nm, L, en), _sm, ty + _SETBODY, "%d arbitrary bytes, byte order %s" % (L, en.upper()),
                        tier="quick" if tr == "q" else "thorough"))
for L, en, tr in [(4, "le", "q"), (5, "le", "q"), (8, "be", "t"), (29, "le", "t"), (33, "le", "t")]:
    _parse.append(H("c06_parse_inforeply_%d_%s" % (L, en), _sm,
                    "InfoReply::read_from_buffer_with_ctx (two u32-counted locator lists): " + _NOPANIC + "Ok => the announced locators lie inside the buffer; "
                    "a count of 2^32-1 is rejected", "%d arbitrary bytes, byte order %s; <= 2 locators per list (read_vec stand-in)" % (L, en.upper()),
                    tier="quick" if tr == "q" else "thorough", timeout=900))

# ------------------------------------------------------------------------------- ParameterList / DATA / DATA_FRAG
_data = []
_PL = ("ParameterList::read_from: " + _NOPANIC + "accepted iff a reference walk reaches PID_SENTINEL with every parameter header and value inside the buffer "
       "(parameter length any u16: zero, not a multiple of 4, larger than the rest, 65535; sentinel missing => Err), same number of parameters")
for L, en, tr in [(3, "le", "q"), (4, "le", "q"), (4, "be", "q"), (8, "le", "q"), (8, "be", "q"), (12, "le", "q"), (12, "be", "t"),
                  (16, "le", "q"), (16, "be", "t"), (23, "le", "t")]:
    _data.append(H("c06_plist_parse_%d_%s" % (L, en), _da, _PL, "%d arbitrary bytes, byte order %s" % (L, en.upper()),
                   tier="quick" if tr == "q" else "thorough", timeout=900))
_DATA = ("Data::deserialize_data on a Bytes: " + _NOPANIC + "accepted iff >= 20 bytes, 16 <= octetsToInlineQos, 4 + octetsToInlineQos <= length and (flag Q) "
         "a well-formed parameter list starts there; payload == exactly the rest (possibly < 4 bytes or empty), present iff flag D or K")
for nm, bounds, tr in [
    ("19_d", "19 bytes, flags E|D", "q"), ("20_d", "20 bytes, flags E|D", "q"), ("20_none_be", "20 bytes, no flags (BE)", "q"),
    ("23_k_be", "23 bytes, flag K (BE)", "q"), ("24_d", "24 bytes, flags E|D", "q"), ("24_qd", "24 bytes, flags E|Q|D", "q"),
    ("24_q_be", "24 bytes, flag Q (BE)", "t"), ("28_qd", "28 bytes, flags E|Q|D", "q"), ("32_qk_be", "32 bytes, flags Q|K (BE)", "t"),
    ("36_qd", "36 bytes, flags E|Q|D", "t"), ("24_anyflags", "24 bytes, all flag bits symbolic", "t"),
    ("28_qd_o0", "28 bytes, E|Q|D, octetsToInlineQos 0", "q"), ("28_qd_o15", "28 bytes, E|Q|D, octetsToInlineQos 15", "t"),
    ("28_qd_o17", "28 bytes, E|Q|D, octetsToInlineQos 17", "q"), ("28_d_o24", "28 bytes, E|D, octetsToInlineQos 24 = L-4", "q"),
    ("28_qd_o24", "28 bytes, E|Q|D, octetsToInlineQos 24 = L-4", "t"), ("28_d_o25", "28 bytes, E|D, octetsToInlineQos 25 = L-3", "q"),
    ("28_d_omax", "28 bytes, E|D, octetsToInlineQos 65535", "q")]:
    _data.append(H("c06_data_parse_" + nm, _da, _DATA, bounds + "; everything not named symbolic (octetsToInlineQos symbolic unless named)",
                   tier="quick" if tr == "q" else "thorough", timeout=900))
_DF = ("DataFrag::deserialize on a Bytes: " + _NOPANIC + "Ok => fields at their wire offsets, payload == exactly the rest, and EXACTLY (D1) writer_sn >= 1, "
       "(D2) 1 <= fragment_size <= data_size, (D3) 1 <= fragment_starting_num <= total_number_of_fragments(); fragments_in_submessage (0, 65535), "
       "data_size 2^32-1 and data_size < payload are let through (witnessed); fragment_size 0 and fragment_starting_num 0 are rejected")
for nm, bounds, tr in [
    ("31", "31 bytes, flag E", "q"), ("32", "32 bytes, flag E", "q"), ("32_be", "32 bytes, BE", "q"), ("36", "36 bytes, flag E", "q"),
    ("36_q", "36 bytes, flags E|Q", "q"), ("40_k_be", "40 bytes, flag K (BE)", "t"), ("40_q", "40 bytes, flags E|Q", "t"),
    ("48_q_be", "48 bytes, flag Q (BE)", "t"), ("36_anyflags", "36 bytes, all flag bits symbolic", "t"),
    ("40_o0", "40 bytes, octetsToInlineQos 0", "q"), ("40_o27", "40 bytes, octetsToInlineQos 27", "t"), ("40_o29", "40 bytes, octetsToInlineQos 29", "q"),
    ("40_o36", "40 bytes, octetsToInlineQos 36 = L-4", "q"), ("40_o37", "40 bytes, octetsToInlineQos 37 = L-3", "q"),
    ("40_omax", "40 bytes, octetsToInlineQos 65535", "t")]:
    _data.append(H("c06_datafrag_parse_" + nm, _da, _DF,
                   bounds + "; everything not named symbolic; total_number_of_fragments replaced by ANY value (over-approximation)",
                   tier="quick" if tr == "q" else "thorough", timeout=900))
_data.append(H("c06_datafrag_parse_32_realdiv", _da, _DF, "32 bytes, flag E, with the real total_number_of_fragments", tier="thorough", timeout=2400))
_data.append(H("c06_datafrag_total_fragments", _da,
               "DataFrag::total_number_of_fragments: " + _NOPANIC + "for every (data_size, fragment_size); fragment_size 0 yields INVALID (no division by zero)",
               "data_size any u32, fragment_size any u16"))

# ------------------------------------------------------------------------------- Submessage / Message framing
_SUB = ("Submessage::read_from_buffer on a Bytes: " + _NOPANIC + "Ok => 4 + body <= datagram, exactly 4 + body bytes consumed (body = octetsToNextHeader, "
        "or the rest when it is 0 and the kind is neither PAD nor INFO_TS), header fields and original_bytes == header + body; rejected for its length "
        "=> nothing consumed; unknown (< 0x80), vendor-specific (>= 0x80), INFO_REPLY_IP4 and PAD kinds are skipped (Ok(None)) whatever the body holds")
_sub_list = """heartbeat_l32_otn0 q;heartbeat_l32_otn1 q;heartbeat_l32_otn27 q;heartbeat_l32_otn28 q;heartbeat_l32_otn28_be q;heartbeat_l32_otn29 q;heartbeat_l32_otnmax q;heartbeat_l36_otn28 t;
acknack_l32_otn0 q;acknack_l32_otn27 t;acknack_l32_otn28 q;acknack_l32_otn28_be t;acknack_l32_otn29 t;acknack_l32_otn1 t;
gap_l36_otn0 q;gap_l36_otn31 t;gap_l36_otn32 q;gap_l36_otn33 t;nackfrag_l36_otn0 t;nackfrag_l36_otn32 q;nackfrag_l36_otn31 t;
heartbeatfrag_l28_otn0 t;heartbeatfrag_l28_otn23 t;heartbeatfrag_l28_otn24 q;heartbeatfrag_l28_otn25 t;
infots_l12_otn0 q;infots_l12_otn0_inval q;infots_l12_otn7 t;infots_l12_otn8 q;infots_l12_otn9 t;infots_l4_otn0_inval q;
infosrc_l24_otn0 t;infosrc_l24_otn19 t;infosrc_l24_otn20 q;infodst_l16_otn0 q;infodst_l16_otn11 t;infodst_l16_otn12 q;infodst_l16_otn13 t;
pad_l12_otn0 q;pad_l12_otn8 q;pad_l12_otn9 t;unknown02_l12_otn0 q;unknown7f_l12_otn7 q;replyip4_l12_otn8 t;vendor80_l12_otn8 q;vendorff_l12_otn1 q;
vendorff_l12_otnmax q;vendor80_l4_otn0 q;
data_l28_otn0_d q;data_l28_otn24_d q;data_l28_otn23_k_be t;data_l28_otn25_d t;data_l28_otn1_d t;data_l32_otn28_qd t;
datafrag_l40_otn0 t;datafrag_l40_otn36 q;datafrag_l40_otn35_be t;datafrag_l40_otn37 t;datafrag_l40_otn31 t"""
_submsg = []
for ent in _sub_list.replace("\n", "").split(";"):
    nm, tr = ent.split()
    _submsg.append(H("c06_submsg_" + nm, _sm, _SUB,
                     "kind / flags / octetsToNextHeader / total length concrete as named (l = bytes in the buffer, otn = octetsToNextHeader), every other byte symbolic",
                     tier="quick" if tr == "q" else "thorough", timeout=900))
for L in (1, 3):
    _submsg.append(H("c06_submsg_short_%d" % L, _sm, "Submessage::read_from_buffer: fewer than 4 bytes left => Err, " + _NOPANIC, "%d arbitrary bytes" % L))
_MSG = ("Message::read_from_buffer on a Bytes: " + _NOPANIC + "Ok => valid header and no more submessages than framed; a skipped kind does not hide the "
        "submessage behind it; stray bytes / an overlong length reject the datagram as a whole")
for nm, bounds, tr in [
    ("header_only", "any 20 bytes", "q"), ("infodst_heartbeat", "valid header + INFO_DST + HEARTBEAT (68 bytes), bodies and prefix symbolic", "q"),
    ("vendor_then_heartbeat", "valid header + vendor kind 0x80 (4-byte body) + HEARTBEAT with otn 0 (60 bytes)", "q"),
    ("heartbeat_trailing3", "valid header + HEARTBEAT + 3 stray bytes (55 bytes)", "t"),
    ("second_too_long", "valid header + INFO_DST + ACKNACK announcing 28 of 12 present bytes (52 bytes)", "t")]:
    _submsg.append(H("c06_msg_" + nm, _sm, _MSG, bounds, tier="quick" if tr == "q" else "thorough", timeout=900))

# ------------------------------------------------------------------------------- FragmentAssembler with hostile DataFrag fields
_WIRE = ("DataFrag fields constrained by exactly what reaches FragmentAssembler::new_datafrag today: (D1)-(D3) of DataFrag::deserialize, "
         "(M1) payload <= fragments_in_submessage * fragment_size of decode_and_handle_datafrag; ")
_X = ("EXCLUDED while the findings are open: (X1) fragment_starting_num - 1 + fragments_in_submessage > fragment count of the sample's assembly buffer "
      "[C06/frag-count-overrun], (X2) (fragment_starting_num - 1) * assembler fragment size > assembly buffer length [C06/frag-inconsistent]")
_frag = []
for d, p, tr in [(8, 0, "t"), (8, 4, "q"), (8, 8, "q"), (3, 3, "t"), (13, 5, "t")]:
    _frag.append(H("c06_frag_first_d%d_p%d" % (d, p), _fa,
                   "first DATAFRAG of a writer into a fresh FragmentAssembler (created with that DATAFRAG's fragment_size, as Reader does): " + _WIRE + _NOPANIC +
                   "afterwards at most one buffer for the SN, of data_size bytes and ceil(data_size/fragment_size) fragments. " + _X + " (X2 cannot occur here)",
                   "data_size %d, payload %d bytes concrete; fragment_size, fragment_starting_num, fragments_in_submessage, flags, ids, payload bytes symbolic" % (d, p),
                   tier="quick" if tr == "q" else "thorough", timeout=900))
for d, p, tr in [(8, 0, "t"), (8, 4, "q"), (8, 8, "t"), (8, 16, "q"), (3, 2, "t"), (13, 5, "t")]:
    _frag.append(H("c06_frag_step_existing_d%d_p%d" % (d, p), _fa,
                   "inductive step, sample already in assembly: assembler fragment size ANY u16 >= 1, buffer made by the real AssemblyBuffer::new from a "
                   "DATAFRAG with data_size DA and ANY fragment_size, ANY subset of fragments received; a hostile DATAFRAG for the same SN arrives "
                   "(data_size, fragment_size, fragment_starting_num, fragments_in_submessage all symbolic at full width, independent of the first): " + _WIRE +
                   _NOPANIC + "buffer length and fragment count unchanged. " + _X,
                   "DA = %d, payload %d bytes concrete" % (d, p), tier="quick" if tr == "q" else "thorough", timeout=900))
for d, p, tr in [(8, 4, "q"), (8, 8, "t"), (8, 0, "t"), (13, 5, "t")]:
    _frag.append(H("c06_frag_step_new_d%d_p%d" % (d, p), _fa,
                   "inductive step, new sample of a known writer: assembler fragment size ANY u16 >= 1 (fixed by an earlier sample), hostile DATAFRAG with its "
                   "own fragment_size creates the buffer: " + _WIRE + _NOPANIC + _X,
                   "data_size %d, payload %d bytes concrete; all else symbolic" % (d, p), tier="quick" if tr == "q" else "thorough", timeout=900))

# ------------------------------------------------------------------------------- RtpsReaderProxy::mark_frags_requested (latent)
_rproxy = [
    H("c06_rproxy_mark_frags_fresh_12_le", _rp,
      "mark_frags_requested(any SN, ANY parsed FragmentNumberSet) on a proxy with nothing marked for the SN: " + _NOPANIC +
      "records nothing (it inspects its own empty bit vector instead of the request): the request is lost -- LATENT code, NACK_FRAG is dropped by MessageReceiver",
      "set parsed from 12 arbitrary bytes (numBits 0..32), LE"),
    H("c06_rproxy_mark_frags_fresh_12_be", _rp, "same, BE", "set parsed from 12 arbitrary bytes, BE", tier="thorough"),
    H("c06_rproxy_mark_frags_after_all_12_le_n4", _rp,
      "mark_all_frags_requested(SN, N); mark_frag_sent(SN, any f); mark_frags_requested(SN, ANY parsed set): " + _NOPANIC +
      "no pending request dropped, first requested fragment recorded. EXCLUDED while C06/rproxy-mark-frags (latent) and C06/numset-iter-overflow are open: "
      "sets containing fragment number 0 or a number > N, sets whose iteration overflows",
      "N = 4; set parsed from 12 arbitrary bytes with numBits <= 8 (base, bitmap free), LE; SN concrete", timeout=900),
    H("c06_rproxy_mark_frags_after_all_12_be_n6", _rp, "same", "N = 6; set parsed from 12 arbitrary bytes with numBits <= 8, BE", tier="thorough", timeout=1800),
]

# ------------------------------------------------------------------------------- findings (expected to FAIL until fixed / registered)
_findings = [
    H("c06_finding_numset_iter_overflow_sn", _ns,
      "FINDING (pins the class): same as c06_numset_iter_parsed_sn_16_le without the exclusion: NumberSetIter::next adds the bit index to "
      "bitmap_base with the unchecked derived `+` (reachable: Writer::handle_ack_nack iterates every received ACKNACK's set)",
      "16 arbitrary bytes, LE", expect="finding", timeout=900),
    H("c06_finding_numset_iter_overflow_fn", _ns,
      "FINDING (pins the class): same for FragmentNumberSet (u32 addition; consumer mark_frags_requested is latent)", "12 arbitrary bytes, LE",
      expect="finding", timeout=900),
    H("c06_finding_frag_count_overrun", _fa,
      "FINDING (X1): ONE DATAFRAG into a fresh assembler whose fragments_in_submessage runs past the sample's last fragment: "
      "AssemblyBuffer::insert_frags -> BitVec::set index out of bounds (panic in every profile)",
      "data_size 8, payload 8 bytes, fragments_in_submessage <= 4", expect="finding", timeout=900),
    H("c06_finding_frag_inconsistent_same_sn", _fa,
      "FINDING (X2, X1 excluded): second DATAFRAG for an SN in assembly whose fragment_starting_num lies beyond the existing buffer "
      "(other data_size / fragment_size than the first): usize underflow `to_before_byte - from_byte` in insert_frags",
      "DA = 8, payload 4 bytes", expect="finding", timeout=900),
    H("c06_finding_frag_inconsistent_new_sn", _fa,
      "FINDING (X2, X1 excluded): DATAFRAG for a NEW SN of a writer whose assembler was created with a larger fragment size: same underflow",
      "data_size 8, payload 4 bytes", expect="finding", timeout=900),
    H("c06_finding_frag_alloc_data_size", _fa,
      "FINDING (memory): capacity retained in the assembler after ONE DATAFRAG carrying 16 payload bytes <= 64 KiB (threshold is a judgement: "
      "largest UDP datagram, 4096 x the payload); AssemblyBuffer::new allocates the sampleSize announced on the wire",
      "solver chooses between a 64-byte sample (fragments of 16) and a 128 KiB sample (fragments of 16 KiB); AssemblyBuffer::new called as new_datafrag does for an SN without a buffer",
      expect="finding", timeout=900),
    H("c06_finding_latent_rproxy_mark_frags_zero", _rp,
      "FINDING (LATENT, unreachable while NACK_FRAG is dropped): requested fragment number 0 after mark_all_frags_requested: `usize::from(f) - 1` underflows",
      "N = 4; set parsed from 12 arbitrary bytes with numBits <= 8, LE", expect="finding", timeout=900),
    H("c06_finding_latent_rproxy_mark_frags_beyond", _rp,
      "FINDING (LATENT): requested fragment number > N after mark_all_frags_requested(SN, N): BitVec::set index out of bounds",
      "N = 4; set parsed from 12 arbitrary bytes with numBits <= 8, LE", expect="finding", timeout=900),
]

# ------------------------------------------------------------------------------- tiers
# quick = one or two representatives per decoder / per hostile-field family (measured 4..125 s each on a LOADED box, load average 15),
# everything else thorough.  Findings: the four cheapest in quick, all eight in thorough.
_QUICK = set("""
c06_numset_parse_sn_8_le c06_numset_parse_sn_16_be c06_numset_parse_sn_44_le c06_numset_parse_fn_8_be c06_numset_parse_fn_40_le
c06_numset_iter_parsed_sn_16_le c06_numset_iter_parsed_fn_12_le
c06_parse_submessage_header_3 c06_parse_submessage_header_4 c06_parse_header_19 c06_parse_header_20
c06_parse_heartbeat_27 c06_parse_heartbeat_28 c06_parse_heartbeat_29 c06_parse_heartbeatfrag_24 c06_parse_infots_8 c06_parse_infosrc_20 c06_parse_infodst_12
c06_parse_gap_32_le c06_parse_gap_60_le c06_parse_acknack_28_le c06_parse_acknack_52_le c06_parse_nackfrag_32_le c06_parse_inforeply_4_le
c06_plist_parse_4_le c06_plist_parse_8_le c06_plist_parse_8_be c06_plist_parse_12_le
c06_data_parse_19_d c06_data_parse_20_d c06_data_parse_24_d c06_data_parse_24_qd c06_data_parse_28_d_o24 c06_data_parse_28_d_o25 c06_data_parse_28_d_omax
c06_datafrag_parse_31 c06_datafrag_parse_32 c06_datafrag_parse_36 c06_datafrag_parse_40_o36 c06_datafrag_parse_40_o37 c06_datafrag_total_fragments
c06_submsg_heartbeat_l32_otn0 c06_submsg_heartbeat_l32_otn28 c06_submsg_heartbeat_l32_otn29 c06_submsg_infots_l12_otn0_inval c06_submsg_pad_l12_otn8
c06_submsg_unknown02_l12_otn0 c06_submsg_vendor80_l12_otn8 c06_submsg_vendorff_l12_otnmax c06_submsg_data_l28_otn24_d c06_submsg_datafrag_l40_otn36
c06_msg_header_only
c06_frag_first_d8_p4 c06_frag_first_d8_p8 c06_frag_step_existing_d8_p4 c06_frag_step_existing_d8_p16 c06_frag_step_new_d8_p4
c06_rproxy_mark_frags_fresh_12_le c06_rproxy_mark_frags_after_all_12_le_n4
c06_finding_numset_iter_overflow_sn c06_finding_frag_count_overrun c06_finding_frag_inconsistent_same_sn c06_finding_frag_alloc_data_size
""".split())
_wproxy = [
    H("c06_wproxy_hb_range_work_from_1", _wp,
      "RtpsWriterProxy::missing_seqnums (what Reader::handle_heartbeat_msg runs on the wire's firstSN/lastSN): for a HEARTBEAT advertising more than 300 "
      "sequence numbers the Vec it builds (one loop iteration per element) stays <= 300 entries (a judgement: the answering ACKNACK can carry 256), and the lowest missing SN is still first",
      "fresh proxy; first = 1; width 301..303; the judged loop unwound completely (306)", timeout=1500),
    H("c06_wproxy_hb_range_work_from_2_40", _wp, "same with first = 2^40", "fresh proxy; first = 2^40; width 301..303", timeout=1500),
]
_ALL = _numset + _parse + _data + _submsg + _frag + _rproxy + _wproxy + _findings
assert _QUICK <= set(h["name"] for h in _ALL), sorted(_QUICK - set(h["name"] for h in _ALL))
for _h in _ALL:
    _h["tier"] = "quick" if _h["name"] in _QUICK else "thorough"
    if _h["name"].startswith("c06_msg_") and _h["name"] != "c06_msg_header_only":
        _h["timeout"] = 2400  # two framed submessages: did not finish in 600 s on the loaded box

# quick-tier budget: heavy or redundant instances go to the thorough tier
_TO_THOROUGH = {"c06_parse_inforeply_4_le", "c06_finding_numset_iter_overflow_sn", "c06_numset_iter_parsed_fn_12_le", "c06_plist_parse_12_le",
                "c06_submsg_datafrag_l40_otn36", "c06_plist_parse_8_be", "c06_data_parse_24_qd", "c06_finding_latent_rproxy_mark_frags_beyond",
                "c06_frag_step_existing_d8_p16", "c06_datafrag_parse_40_o37", "c06_data_parse_28_d_o25", "c06_submsg_heartbeat_l32_otn29"}
_TO_QUICK = {"c06_finding_latent_rproxy_mark_frags_zero", "c06_wproxy_hb_range_work_from_1"}
# instances whose "decoder accepts" witness is unreachable at that buffer length (found VACUOUS by the first
# complete thorough run: the length is short of / not aligned with any acceptable encoding, so only Err is possible):
# dropped from the table rather than weakening the vacuity rule
_DROP = {"c06_parse_gap_33_le", "c06_parse_acknack_29_le", "c06_parse_nackfrag_33_le", "c06_plist_parse_3_le"}
_ALL = [_h for _h in _ALL if _h["name"] not in _DROP]
for _h in _ALL:
    if _h["name"] in _TO_THOROUGH:
        _h["tier"] = "thorough"
    if _h["name"] in _TO_QUICK:
        _h["tier"] = "quick"

PROP = {
    "title": "no datagram crashes, hangs or bloats a participant (parsers and hostile submessage fields)",
    "design_ref": "DESIGN.md section 3, C06",
    "inject": dict(ENV_INJECT, **{
        "src/structure/sequence_number.rs": ["c06_numset"],
        "src/rtps/submessage.rs": ["c06_submsg"],
        "src/messages/submessages/data.rs": ["c06_data"],
        "src/rtps/fragment_assembler.rs": ["c06_frag"],
        "src/rtps/rtps_reader_proxy.rs": ["c06_rproxy"],
        "src/rtps/rtps_writer_proxy.rs": ["c06_wproxy"],
    }),
    "shim_files": RTPS_SHIM_FILES,
    "cap": {"quick": 4, "thorough": 4},
    "timeout": 900,
    "thorough_timeout": 2400,
    "harnesses": _ALL,
    "bounds": {
        "buffer lengths": "concrete per instance: NumberSet 4..44, bodies exact-1 / exact / exact+1 (sets: up to the 256-bit maximum), "
                          "ParameterList 3..23, DATA 19..36, DATA_FRAG 31..48, framed submessages 4..40, messages 20..68 bytes",
        "contents": "every byte symbolic, incl. embedded lengths (numBits, parameter lengths, octetsToInlineQos, locator counts) and field values",
        "octetsToNextHeader / kind / flags of framed submessages": "concrete grid per instance: {0, 1, L-5, L-4, L-3, 0xFFFF} x 18 kinds incl. unknown and vendor",
        "fragment assembly": "data_size of the DATAFRAG that creates a buffer in {3, 8, 13}, payload length in {0,2,3,4,5,8,16}; all other fields full width; "
                             "arrival sequences of any length by induction over one step",
        "unwind": "3..36 (260 for the 256-bit iterator instance)",
    },
    "outside": [
        "datagrams longer than the instance lengths (the arithmetic does not depend on it, but it is not claimed)",
        "a SYMBOLIC octetsToNextHeader through Bytes::split_to (intractable): covered by the concrete grid",
        "speedy's slice reader internals (BufferReader pointer arithmetic, can_read_at_least before Vec::with_capacity in read_vec): replaced by speedy's own "
        "stream reader under Kani; the real one runs in native replay only",
        "more than 16 parameters / 16 bitmap words / 2 locators per list in one decoded value (Vec stand-ins)",
        "assembly buffers larger than 13 bytes in the general harnesses; more than one sample in assembly at the moment of the step "
        "(buffers of other SNs are not touched by new_datafrag: C05 c05_two_samples_*)",
        "Reader / Writer object handlers (GAP / HEARTBEAT range loops, ACKNACK handling): the lead's half of C06",
        "security-wrapped input, the UDP listener, allocation failure",
    ],
    "assumptions": [
        "stub (Kani only): speedy::Readable::read_from_buffer_with_ctx -> speedy's read_from_stream_unbuffered_with_ctx over the same bytes",
        "stub (Kani only): speedy::Reader::read_vec -> same semantics with a concrete 64-byte (2-element for non-byte types) allocation; exact for inputs < 64 bytes",
        "stub (Kani only): Vec::with_capacity / Vec::push -> concrete capacity 16; vec![x; n] -> capacity 9 (BitVec blocks) in the fragment harnesses",
        "stub: std::fmt::format -> empty String; Timestamp::now -> counter; BytesMut::freeze -> Arc-backed Bytes (Kani only)",
        "stub (Kani only, c06_datafrag_parse_* except _realdiv): DataFrag::total_number_of_fragments -> ANY value (over-approximation)",
        "finding flags KF_C06_* come from /verif/known_findings.json (true while the finding is open): three of the five findings were repaired in /repo (fix: commits fb9783f, 702b31d), their classes are no longer excluded",
    ],
    "trusted": ["/verif/shim/collections.rs (BTreeMap stand-in in FragmentAssembler / RtpsReaderProxy)", "/verif/env/mod.rs Vec stubs",
                "speedy 0.8.7 stream reader (encoded as is), bytes 1.12 (encoded as is), bit-vec 0.8 (encoded as is)"],
    "explanation": ("C06 parser half: the real decoders (SubmessageHeader, Header, Heartbeat, HeartbeatFrag, Gap, AckNack, NackFrag, Info*, NumberSet, "
                    "ParameterList, Data::deserialize_data, DataFrag::deserialize, Submessage::read_from_buffer, Message::read_from_buffer) on arbitrary bytes, "
                    "and the real FragmentAssembler / RtpsReaderProxy::mark_frags_requested on parsed-but-hostile field values."),
    "technique": "Kani/CBMC bounded symbolic model checking of the real decoders on arbitrary bytes at concrete buffer lengths, and of the fragment assembler by an inductive step over hostile DataFrag fields",
    "level_text": "SAT-solver verdict over all byte contents at each concrete buffer length / all hostile field values at each concrete allocation shape.",
    "level_note": ("Trusted: Kani/CBMC/CaDiCaL, container shim, Vec / speedy entry-point stand-ins. Findings: NumberSet iterator overflow, DATAFRAG fragment-count overrun and "
                   "inconsistent-fragment underflow were repaired in /repo (the c06_finding_* harnesses now pass and the general harnesses include those classes); "
                   "OPEN: data_size-sized allocation in AssemblyBuffer::new, latent mark_frags_requested panics (KNOWN-FINDING lines)."),
}
