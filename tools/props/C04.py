"""C04 — see DESIGN.md section 3."""
from common import *

_wr = "rtps::writer::verif_harness_writer"
_rp = "rtps::rtps_reader_proxy::verif_harness_rproxy"
_CL = ("3 samples stored in the real Writer, reader mix concrete, every reliable reader's acknowledged-before value symbolic: after handle_cache_cleaning "
       "no sample unacknowledged by a matched reliable reader is lost, retained <= depth + unacked, first_change_sequence_number is the lowest retrievable SN")
PROP = {
    "title": "writer history, GAPs, HEARTBEAT contents, single-reader samples",
    "design_ref": "DESIGN.md section 3, C04",
    "inject": dict(ENV_INJECT, **{"src/rtps/writer.rs": ["writer"], "src/structure/sequence_number.rs": ["seqnum"], "src/rtps/rtps_reader_proxy.rs": ["rproxy"]}),
    "shim_files": RTPS_SHIM_FILES,
    "cap": {"quick": 4, "thorough": 6},
    # heap buffers up to 1 KiB keep their constants (Vec<Message>, reader proxies): without it the send path of the Writer object does not fit in 14 GB
    "cbmc_args": ["--max-field-sensitivity-array-size", "1024"],
    "sn_window": {"quick": 4, "thorough": 5},
    "harnesses": [
        H("c04_single_reader_send_guard", _wr, "Writer::send_cache_change driven directly on the real Writer (readers 1 and 2 matched; DATA/DATAFRAG builders replaced by recorders of the sample's SN): a sample written for one reader is transmitted only when the target proxy IS that reader (then to it alone); nothing is sent for an unmatched target or another reader's proxy", "scenario chosen symbolically among 3", timeout=900),
        H("c04_single_reader_sample", _wr, "real Writer, readers 1 and 2 matched: an ordinary sample reaches both with its bytes; a sample written for ONE reader (1, 2 or an unmatched one, chosen symbolically) through process_writer_command is never transmitted to anybody else, and every other matched reader gets a pending GAP for it", "2 readers, 2 samples", tier="thorough", timeout=2400),
        H("c02_rproxy_acknack_step", _rp, "(shared with C02) one ACKNACK from ANY valid reader-proxy state: every requested available SN becomes to-be-sent (will be answered), nothing acknowledged is resent, pending GAPs (single-reader / pre-match SNs) survive exactly while unacknowledged", "SNs 0..W+1, 4-bit bitmap"),
        H("c02_rproxy_bookkeeping_step", _rp, "(shared with C02) new sample -> to-be-sent for every reader; insert_pending_gap / set_pending_gap_up_to record the SNs a reader must be GAPped for", "SNs 1..W+1"),
        H("c04_cleaning_kl1_none", _wr, _CL, "KeepLast(1), no reader"),
        H("c04_cleaning_kl1_besteffort", _wr, _CL, "KeepLast(1), one best-effort reader"),
        H("c04_cleaning_kl1_reliable", _wr, _CL, "KeepLast(1), one reliable reader, acked-before any value in 0..5"),
        H("c04_cleaning_kl1_reliable_reliable", _wr, _CL, "KeepLast(1), two reliable readers, both acked-before symbolic", timeout=900),
        H("c04_cleaning_kl1_besteffort_reliable", _wr, _CL, "KeepLast(1), best-effort + reliable reader", timeout=900),
        H("c04_cleaning_kl2_none", _wr, _CL, "KeepLast(2), no reader", tier="thorough"),
        H("c04_cleaning_kl2_reliable", _wr, _CL, "KeepLast(2), one reliable reader", tier="thorough"),
        H("c04_cleaning_kl2_reliable_reliable", _wr, _CL, "KeepLast(2), two reliable readers", tier="thorough", timeout=1800),
        H("c04_cleaning_default_reliable", _wr, _CL, "History unset, one reliable reader", tier="thorough"),
        H("c04_cleaning_default_besteffort", _wr, _CL, "History unset, one best-effort reader", tier="thorough"),
    ],
    "bounds": {"unwind": 7},
    "outside": [],
    "assumptions": ENV_STUBS,
    "trusted": ["/verif/shim/collections.rs", "/verif/env, /verif/harness/env_*.rs"],
    "explanation": "C04: real Writer object.",
    "technique": "Kani/CBMC bounded symbolic model checking of the real Writer object with environment stubs",
    "level_text": "SAT-solver verdict over all reader mixes and acknowledgment states inside the stated bounds.",
    "level_note": "Decided on the real Writer object: cache cleaning (all reader mixes of the grid, acknowledgment states symbolic), the single-reader guard of send_cache_change (who gets which SN; DATA/DATAFRAG builders replaced by recorders), and on the real RtpsReaderProxy from arbitrary states (requests become to-be-sent, pending GAPs). NOT decided: HEARTBEAT contents after a tick and the bytes of repair DATA/GAP messages (Writer object + message builder did not fit; message bytes are C14/C05). The cache-cleaning defect found here was repaired in /repo (fix: d9aea48). Trusted: Kani/CBMC/CaDiCaL, container shim, environment stubs listed in evidence.",
}
