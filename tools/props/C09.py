"""C09 — see DESIGN.md section 3."""
from common import *  # H, RTPS_SHIM_FILES, ENV_INJECT, ENV_STUBS

# ------------------------------------------------------------------------------- C09
_s = "dds::with_key::simpledatareader::verif_harness_sdr"
_K = ("real SimpleDataReader object (struct literal), one change taken from a stack-resident TopicCache by timestamp, "
      "reader has decoded key 1 before")
_SC = ("real SimpleDataReader over a real TopicCache filled through add_change + mark_reliably_received_before, then n+2 calls of "
       "try_take_one_with (default CDR decoder wrapped in a clone counter): every call == reference oracle (next deliverable change in "
       "(writer,SN) order [reliable] / arrival order [best-effort], its decoding error, or Ok(None)); clones per call == skipped + returned "
       "(=> loop terminates, each unknown-hash dispose skipped exactly once); every change consumed exactly once; reader ends at Ok(None)")


def _sc(name, seq, fails_before_fix=False):
    return H(name, _s, _SC + ("  [EXPECTED TO FAIL until try_take_one_with advances the read pointers in the UnknownKey branch]" if fails_before_fix else ""),
             seq + "; all payload / key / hash bytes symbolic (keys 0..2)", tier="thorough", timeout=2400)


PROP = {
    "title": "an unintelligible change never wedges a reader",
    "design_ref": "DESIGN.md section 3, C09",
    "inject": dict(ENV_INJECT, **{
        "src/dds/with_key/simpledatareader.rs": ["sdr"],
        "src/dds/participant.rs": ["c09_dp"],
        "src/dds/key.rs": ["c09_key"],
        "src/structure/dds_cache.rs": ["c09_cache"],
    }),
    # closed under type flow: simpledatareader hands its last_read_sn map to TopicCache
    "shim_files": ["src/dds/with_key/simpledatareader.rs", "src/structure/dds_cache.rs"],
    "cap": {"quick": 4, "thorough": 4},
    # the boxed iterators (~180 bytes) must stay field sensitive, see HARNESS_GUIDE "Field sensitivity limit"
    "cbmc_args": ["--max-field-sensitivity-array-size", "256"],
    "harnesses": [
        # ---- quick: classification of one change by the real deserialize_with (decided, 40-130 s each)
        H("c09_deser_value", _s, "decodable DATA (CDR_LE, any k in 0..2, any v): Ok(Value{k,v}) with writer/SN/timestamp intact, key hash recorded", _K),
        H("c09_deser_short", _s, "DATA whose payload ends inside the value (1 byte, any content): Err(Deserialization), never UnknownKey", _K),
        H("c09_deser_unknownrep", _s, "DATA with ANY unsupported 16-bit representation id: Err(Deserialization), never UnknownKey", _K),
        H("c09_deser_anyrep", _s, "DATA with ANY 16-bit representation id: Ok(Value) iff id in {CDR_BE, CDR_LE, PL_CDR_LE}, else Err(Deserialization)", _K),
        H("c09_deser_disposekey", _s, "dispose carrying a serialized key: Ok(Dispose(k)), key hash recorded", _K),
        H("c09_deser_disposenokey", _s, "dispose carrying an empty serialized key: Err(Deserialization), never UnknownKey", _K),
        H("c09_deser_disposehash", _s, "dispose carrying only a key hash [h,0..0,t] (h in 0..2, t any): Ok(Dispose(1)) iff hash == hash(1), else Err(UnknownKey)", _K),
        # ---- thorough: the loop itself on the real object.  NOT DECIDED by CBMC inside 600 s (see `outside`);
        #      validated natively on hand-made value files: 54 on the unchanged tree (exactly the unknown-hash cases fail, with the boundedness assertion), 162 on a staged copy with the candidate fix (all pass); runner: logs/C09-native-scenarios.py; kept so that a faster box / later Kani can decide them
        _sc("c09_rel_value", "reliable [V]"), _sc("c09_be_value", "best-effort [V]"),
        _sc("c09_rel_short_value", "reliable [short, V]"), _sc("c09_be_short_value", "best-effort [short, V]"),
        _sc("c09_rel_value_unknownrep_value", "reliable [V, unknown-rep, V]"), _sc("c09_be_value_unknownrep_value", "best-effort [V, unknown-rep, V]"),
        _sc("c09_rel_short_anyrep_value", "reliable [short, any-rep, V]"),
        _sc("c09_rel_nokey_disposekey", "reliable [dispose-without-key, dispose-by-key]"), _sc("c09_be_nokey_disposekey", "best-effort, same"),
        _sc("c09_rel_hash_value", "reliable [dispose-by-hash, V]", True), _sc("c09_be_hash_value", "best-effort [dispose-by-hash, V]", True),
        _sc("c09_rel_value_hash", "reliable [V, dispose-by-hash]", True), _sc("c09_be_value_hash", "best-effort [V, dispose-by-hash]", True),
        _sc("c09_rel_value_hash_value", "reliable [V, dispose-by-hash, V]", True), _sc("c09_be_hash_hash_value", "best-effort [hash, hash, V]", True),
        _sc("c09_rel_two_writers", "reliable, arrival [w2:1 V, w1:1 short, w1:2 V]"), _sc("c09_be_two_writers", "best-effort, same"),
        _sc("c09_rel_two_writers_hash", "reliable, arrival [w2:1 V, w1:1 dispose-by-hash, w1:2 V]", True),
        H("c09_rel_hash_value_eager", _s, "c09_rel_hash_value with SimpleDataReader::try_take_undecoded stubbed by an eager one-shot stand-in over an UNBOXED "
          "transcription of TopicCache::get_changes_in_range_* (harness/c09_cache.rs): experiment, not decided either", "reliable [dispose-by-hash, V]",
          tier="thorough", timeout=2400),
    ],
    "bounds": {"unwind": 17, "CAP": 4, "changes": "kernels: 1; scenarios: n <= 3 from 1-2 writers", "keys": "0..2 (u8 key, hash = padded CDR_BE byte, no MD5)",
               "payload": "2 bytes (VK{k:u8,v:u8}); representation id any 16-bit value; key hash bytes 0 and 15 symbolic"},
    "outside": [
        "THE LOOP of try_take_one_with under the solver: every harness that lets a change travel from the boxed cache iterator "
        "(Box<dyn Iterator> over FlatMap/FilterMap) into deserialize_with did not finish in 400-600 s / 2.4-4.5 GB, for ONE change, with the cache on the heap "
        "or in a typed local, with --max-field-sensitivity-array-size 64..16384, with SHIM_CAP 2, with try_take_undecoded stubbed by an eager one-shot iterator "
        "(boxed real iterator or unboxed transcription, with or without re-lookup of the element by a concrete timestamp) (iterator alone: 11-38 s; deserialize_with alone: 37-130 s). "
        "The scenario harnesses (tier thorough) are therefore UNDECIDED under Kani; the non-termination on an unknown key hash is confirmed natively "
        "(c09_native_unknown_hash_then_value_returns, and the scenario harnesses replayed on hand-made value files)",
        "no_key wrapper, async stream and iterator wrappers, with_key::DataReader glue (thin over the same call)",
        "payloads longer than 2 bytes, keys needing MD5, more than 3 changes / 2 writers",
    ],
    "assumptions": ENV_STUBS[:1] + ENV_STUBS[2:4] + [
        "the reader's Subscriber / Topic point at no DomainParticipant (Weak::new()); channel peers are leaked; the DiscoveryDB is a real empty one (never touched)",
        "under Kani the Arc<Mutex<TopicCache>> of the scenario harnesses points into a typed local with std's ArcInner layout (heap objects are untyped byte arrays for CBMC); natively Arc::new",
        "the decoder passed to try_take_one_with is the crate's default CDR decoder wrapped in a type whose Clone counts (one clone per loop iteration)",
    ],
    "trusted": ["/verif/shim/collections.rs", "/verif/env, /verif/harness/env_*.rs (environment stand-ins)"],
    "explanation": "C09: SimpleDataReader::{deserialize_with, try_take_one_with} on a real reader object over a real TopicCache.",
    "technique": "Kani/CBMC bounded symbolic model checking of the real SimpleDataReader object (deserialize_with decided; try_take_one_with loop harnesses written, undecided)",
    "level_text": "SAT-solver verdict over all payload bytes / representation ids / key hashes for the classification of one change; the loop itself is only demonstrated natively.",
    "level_note": "PARTIAL CLAIM: the solver decides only how ONE change is classified by the real deserialize_with on a real SimpleDataReader object (reported / skipped / delivered, never UnknownKey for a decodable change). The TERMINATION clause of C09 (every read/take returns in bounded time) is NOT decided: no harness that runs the try_take_one_with loop finished under Kani (18 scenarios in the thorough tier, four encodings tried, DESIGN.md 8.3). The hang on an unknown key hash was demonstrated natively and repaired in /repo (fix: 3387979). Trusted: Kani/CBMC/CaDiCaL, container shim, environment stubs listed in evidence.",
}
