"""C02 — see DESIGN.md section 3."""
from common import *
from mr_harnesses import MR_INJECT, MR_HARNESSES_C02, MR_ASSUMPTIONS, MR_OUTSIDE

_rp = "rtps::rtps_reader_proxy::verif_harness_rproxy"
PROP = {
    "title": "convergence after finite loss, then quiescence (per-round obligations)",
    "design_ref": "DESIGN.md section 3, C02",
    "inject": dict(MR_INJECT, **{"src/rtps/rtps_reader_proxy.rs": ["rproxy"]}),
    "shim_files": RTPS_SHIM_FILES,
    "cap": {"quick": 4, "thorough": 6},
    "sn_window": {"quick": 4, "thorough": 5},
    "harnesses": [
        H("c02_rproxy_acknack_step", _rp, "one ACKNACK (any base, 4-bit bitmap) from ANY valid reader-proxy state: acked-before == max(base,1); to-be-sent == (old ∪ requested) above the frontier, cut at last available; pending GAPs == old ones at or above the frontier", "SNs 0..W+1, CAP entries per set"),
        H("c02_rproxy_bookkeeping_step", _rp, "notify_new_cache_change / mark_change_sent / remove_from_unsent_set_all_before / insert_pending_gap / set_pending_gap_up_to from ANY valid state", "SNs 1..W+1"),
    ] + MR_HARNESSES_C02,
    "bounds": {"unwind": "9 (kernels) / as in harness/mr.rs (MessageReceiver rig)"},
    "outside": ["timers and the event loop that fires them", "the repair SEND path of the Writer object (DATA/GAP emission after an ACKNACK): a Writer object plus the message builder did not fit in 14 GB; who-gets-what is decided in C04's c04_single_reader_send_guard", "composition over rounds (by hand, DESIGN.md C02)"] + MR_OUTSIDE,
    "assumptions": ["stub: std::fmt::format -> empty String"] + MR_ASSUMPTIONS,
    "trusted": ["/verif/shim/collections.rs"],
    "explanation": "C02: per-round progress obligations on the real writer-side reader proxy.",
    "technique": "Kani/CBMC bounded symbolic model checking: inductive steps of the real RtpsReaderProxy from arbitrary valid states",
    "level_text": "SAT-solver verdict over all valid proxy states and ACKNACK contents inside the window.",
    "level_note": "Per-round obligations only (reader-proxy bookkeeping from any state; forwarding of reader submessages by the real MessageReceiver); the composition argument (DESIGN.md C02) is by hand. OPEN FINDING: NACK_FRAG is dropped by MessageReceiver (KNOWN-FINDING line).",
}
