"""C03 — see DESIGN.md section 3."""
from common import *  # H, RTPS_SHIM_FILES, ENV_INJECT, ENV_STUBS

# ------------------------------------------------------------------------------- C03
_rd = "rtps::reader::verif_harness_reader"
_wp = "rtps::rtps_writer_proxy::verif_harness_wproxy"
_fa = "rtps::fragment_assembler::verif_harness_frag"
_sn = "structure::sequence_number::verif_harness_seqnum"
PROP = {
    "title": "ACKNACKs are truthful",
    "design_ref": "DESIGN.md section 3, C03",
    "inject": dict(ENV_INJECT, **{"src/rtps/reader.rs": ["reader"], "src/rtps/rtps_writer_proxy.rs": ["wproxy"],
                                  "src/structure/sequence_number.rs": ["seqnum"], "src/rtps/fragment_assembler.rs": ["frag"], "src/rtps/writer.rs": ["fragw"]}),
    "shim_files": RTPS_SHIM_FILES + ["src/structure/sequence_number.rs", "src/rtps/message.rs"],
    "cap": {"quick": 4, "thorough": 6},
    "sn_window": {"quick": 4, "thorough": 5},
    "harnesses": [
        H("c03_from_base_and_set_b1_s300", _sn, "from_base_and_set(B,{B,B+x,B+S}) == S ∩ [B,B+256), num_bits<=256, bitmap length consistent", "B=1, S=300 concrete; x symbolic in (0,S)"),
        H("c03_from_base_and_set_b31_s258", _sn, "same across 2^31", "B=2^31-2, S=258", tier="thorough"),
        H("c03_from_base_and_set_b32_s300", _sn, "same across 2^32 (wire word boundary)", "B=2^32-1, S=300", tier="thorough"),
        H("c03_from_base_and_set_small_s2", _sn, "exact membership, base not a member", "B=1,S=2", tier="thorough"),
        H("c03_from_base_and_set_small_s32", _sn, "exact membership at the 32-bit word boundary", "B=5,S=32", tier="thorough"),
        H("c03_from_base_and_set_small_s33", _sn, "exact membership at the 32-bit word boundary", "B=5,S=33"),
        H("c03_from_base_and_set_small_s255", _sn, "last representable member", "B=7,S=255", tier="thorough"),
        H("c03_from_base_and_set_small_s256", _sn, "first member outside the window is dropped", "B=7,S=256"),
        H("c03_from_base_and_set_nonpositive_base", _sn, "a set base below 1 never results", "base in -3..0"),
        H("c01_proxy_inductive_o0", _wp, "(shared with C01) what the reader believes it has: one DATA/GAP/GAP-range/HEARTBEAT.first step from ANY valid proxy state makes exactly the announced SNs known, frontier == lowest unknown SN — the state every ACKNACK is computed from", "window origin 0, width W"),
        H("c05_missing_frags_f4_n9", _fa, "(shared with C05) NACKFRAG content: for any partially received sample missing_frags_for yields exactly the missing fragments", "f=4, n=9", timeout=900),
        H("c03_missing_seqnums_o0", _wp, "from ANY valid proxy state: missing_seqnums(first,last) == unknown SNs of [first,last], strictly increasing, no duplicates", "window origin 0, width W, CAP entries"),
        H("c03_missing_seqnums_o32", _wp, "same, window across 2^32", "origin 2^32-3"),
        H("c03_reader_hb_anystate", _rd, "real Reader, matched writer proxy in ANY valid state (symbolic frontier + out-of-order map), one HEARTBEAT(first,last,final): ACKNACK truthful", "SNs 0..W+1, CAP entries", tier="thorough", timeout=2400),
        H("c03_reader_data_then_hb", _rd, "real Reader: one arbitrary DATA then HEARTBEAT(first,last,count,final): answered iff required, base <= lowest unknown, every requested SN unknown and inside [first,last], lowest missing requested", "SNs 1..W, counts 1..4", tier="thorough", timeout=2400),
        H("c03_reader_gap_then_hb", _rd, "same after one arbitrary GAP (start, base, 2-bit bitmap)", "SNs 1..W", tier="thorough", timeout=2400),
        H("c03_reader_hb_then_hb", _rd, "two HEARTBEATs: both answers truthful, base and count monotone, duplicate count ignored", "SNs 1..W, counts 1..4", tier="thorough", timeout=2400),
        H("c03_proxy_step_top", _wp, "one proxy step (DATA / GAP single / GAP range / HEARTBEAT.first) from ANY valid state whose window ends at i64::MAX: no panic or overflow, known set = pre ∪ op, frontier monotone and exact while an unknown SN is left", "window of W+2 SNs ending at i64::MAX; <= CAP out-of-order entries", timeout=900),
        H("c03_reader_hb_extreme_top", _rd, "real Reader, fresh matched proxy, ONE HEARTBEAT whose firstSN/lastSN sit at the top of the i64 range (what a hostile or broken peer can put on the wire; C06's 'extreme in its numeric fields' on the HEARTBEAT path): no panic or overflow, exactly one ACKNACK, base == firstSN, lowest missing SN requested, no more SNs requested than advertised", "first = i64::MAX - a, last = first + w, 0 <= w <= a <= 3; final flag free", timeout=900),
        H("c03_reader_partial_fragment_g2_acknack", _rd, "real Reader, concrete prefix through the real handle_datafrag_msg (fragment 2 of 3 of SN 1), then a symbolic HEARTBEAT(1..last<=3, final flag free): exactly one ACKNACK, base == 1 (the partially received sample is not acknowledged), SN 1 not listed (it goes by NACKFRAG), exactly the wholly missing SNs 2..last listed", "3 fragments of 4 bytes; last in 1..3; Reader::missing_frags_for stubbed to 'none' under Kani (NACKFRAG content is C05's c05_missing_frags_*)", timeout=1200,
          # symbolic inputs: last (i64, 1..3), final flag (bool) -- Kani's trace generation for this harness needs > 30 GB
          replay_grid=[[[l, 0, 0, 0, 0, 0, 0, 0], [f]] for l in (1, 2, 3) for f in (0, 1)]),
        H("c03_reader_partial_fragment_g1_acknack", _rd, "same with fragment 1 arrived", "same", tier="thorough", timeout=1200,
          replay_grid=[[[l, 0, 0, 0, 0, 0, 0, 0], [f]] for l in (1, 2, 3) for f in (0, 1)]),
        H("c03x_partial_prefix_only", _rd, "EXPERIMENT: cost of one concrete DATAFRAG into the real Reader", "concrete", tier="experimental", timeout=900),
        H("c03x_partial_direct_then_hb", _rd, "EXPERIMENT: assembler state put in place directly, then a symbolic HEARTBEAT", "last in 1..3", tier="experimental", timeout=1500),
        H("c03_reader_partial_fragment_g2_hb", _rd, "real Reader, concrete prefix: fragment 2 of 3 of SN 1 arrived; symbolic HEARTBEAT(1..last<=3, final flag free): ACKNACK base == 1, exactly the wholly missing SNs requested, NACKFRAG for SN 1 names exactly fragments 1 and 3, counts differ", "3 fragments of 4 bytes; last in 1..3", tier="thorough", timeout=2400),
        H("c03_reader_partial_fragment_g1_hb", _rd, "same with fragment 1 arrived", "3 fragments of 4 bytes; last in 1..3", tier="thorough", timeout=2400),
        H("c03_reader_partial_fragment_g3_hb", _rd, "same with fragment 3 arrived", "3 fragments of 4 bytes; last in 1..3", tier="thorough", timeout=2400),
        H("c03_reader_partial_fragment_hb", _rd, "real Reader: SN 1 arrived only in part (one of three fragments, chosen symbolically), SNs 2..3 missing; HEARTBEAT(1..3): ACKNACK base <= 1, {2,3} requested, NACKFRAG for SN 1 names exactly the two missing fragments, counts differ", "3 fragments of 4 bytes", tier="thorough", timeout=2400),
        H("c03_reader_hb_fresh", _rd, "fresh matched writer, HEARTBEAT(first,last,final) symbolic: answered iff required, base <= first, requested SNs inside [first,last], lowest missing requested", "first in 1..4, last in first-1..4"),
    ],
    "bounds": {"unwind": "7 (Reader object) / 10-11 (kernels)", "sn_window": "4 (quick) / 5 (thorough)", "CAP": "4 / 6", "number_set_spans": "concrete grid {2,32,33,255,256,258,300}, bases {1, 5, 7, 2^31-2, 2^32-1}", "top_of_range": "HEARTBEAT first = i64::MAX-a, last = first+w, 0<=w<=a<=3 on the real Reader; proxy step with the window ending at i64::MAX", "vec_growth": "Vec::push grows to a concrete capacity of 16; vec![x;n] n <= 9"},
    "outside": ["sequences of two or more symbolic events on the real Reader object did not finish under the quick cap (thorough tier tries them; listed as undecided in evidence when they do not finish): multi-step coverage comes from the kernel harnesses, which start from ANY valid proxy state", "windows wider than 300", "the NACKFRAG a partially received sample is answered with (content decided under C05, missing_frags_for; the Reader glue that builds it does not finish)"],
    "assumptions": ENV_STUBS + ["stub: Reader::encode_and_send -> records the ACKNACK/NACKFRAG fields of the Message built by the real code (serialisation is C14)", "stub: Reader::send_status_change / send_participant_status / notify_cache_change -> recorders (the real bodies wrap mio-extras try_send, whose io::Error drop glue explodes symbolic execution)", "stub: Vec::push / vec![x;n] -> same semantics with concrete allocation sizes (env/mod.rs)", "stub (c03_reader_partial_fragment_*_acknack only): Reader::missing_frags_for -> no fragment numbers, so the real code builds no NACKFRAG and goes on to the ACKNACK"],
    "trusted": ["/verif/shim/collections.rs", "/verif/env, /verif/harness/env_*.rs (environment stand-ins)"],
    "explanation": "C03: Reader::handle_heartbeat_msg on the real Reader object.",
    "technique": "Kani/CBMC bounded symbolic model checking of the real Reader object (handle_heartbeat_msg and friends) with environment stubs",
    "level_text": "SAT-solver verdict: (kernels) over ALL valid writer-proxy states and HEARTBEAT ranges for missing_seqnums and the proxy step, over all members for the 256-window of from_base_and_set on a grid of bases/spans; (object) over all HEARTBEAT(first,last,final) in a small window AND at the top of the i64 range for a real Reader with a freshly matched writer.",
    "level_note": "The real Reader::handle_heartbeat_msg is decided from the fresh state (one symbolic HEARTBEAT, small window and top of the i64 range) and from ONE non-fresh state: a concrete partially received sample, for which the ACKNACK half is decided with Reader::missing_frags_for stubbed to 'none' under Kani (the NACKFRAG-building half does not finish; NACKFRAG content is decided on the FragmentAssembler, c05_missing_frags_*). For other states the truthfulness of ACKNACKs rests on the kernel harnesses of the functions it composes (proxy step, missing_seqnums, from_base_and_set, missing_frags_for), not on the glue itself. For c03_reader_partial_fragment_*_acknack Kani's trace generation needs > 30 GB, so the counterexample values come from a six-entry grid over its two scalar inputs that is replayed natively after the solver reported the failure (only an assignment that fails natively with the same check is reported). Trusted: Kani/CBMC/CaDiCaL, container shim, environment stubs listed in evidence.",
}

