"""C15 — see DESIGN.md section 3."""
from common import *  # H, RTPS_SHIM_FILES, ENV_INJECT, ENV_STUBS

# ------------------------------------------------------------------------------- C15
_q = "dds::qos::verif_harness_c15_qos"
_PATH = ("QosPolicies::to_parameter_list -> ParameterList::write_to (padding, sentinel) -> bytes -> "
         "ParameterList::read_from -> to_map -> QosPolicies::from_parameter_list == original, LE and BE")


def _single(p, tier, what="", timeout=600):
    return H("c15_qos_" + p, _q, (what or p + " alone, numeric contents symbolic: ") + _PATH,
             "full bit-width of every numeric field; enum variants / bools enumerated", tier=tier, timeout=timeout)


PROP = {
    "title": "discovery data and QoS survive the wire, unknown parameters are skipped",
    "design_ref": "DESIGN.md section 3, C15",
    "inject": {"src/dds/qos.rs": ["c15_qos"]},
    # the pl_map (BTreeMap<ParameterId, Vec<&Parameter>>) flows through these three files
    "shim_files": ["src/dds/qos.rs", "src/messages/submessages/elements/parameter_list.rs",
                   "src/serialization/speedy_pl_cdr_helpers.rs"],
    "cap": {"quick": 6, "thorough": 16},
    # CBMC keeps constants only in arrays of <= 64 elements by default; RustDDS's
    # Vec::<Parameter>::with_capacity(8) is a 256-byte heap array, and without constants every
    # parameter length read back is symbolic for the symbolic executor (symbolic-size allocations).
    "cbmc_args": ["--max-field-sensitivity-array-size", "256"],
    "harnesses": [
        H("c15_qos_none_present", _q, "absent parameters: the empty list (sentinel only) decodes to 'no policy', LE and BE", "-"),
        _single("deadline", "quick"), _single("latency_budget", "quick"), _single("time_based_filter", "quick"),
        _single("lifespan", "quick"), _single("resource_limits", "quick"),
        _single("reliability", "quick", "reliability, BestEffort and Reliable{any max_blocking_time} (BestEffort carries no time: exact equality still holds): "),
        _single("history", "quick", "history, KeepAll and KeepLast{any depth}: "),
        H("c15_qos_foreign_only", _q, "a list holding only a foreign parameter (PID 0x8000 / 0x7fff, 4 / 8 symbolic bytes) decodes to 'no policy'", "2 concrete PIDs, symbolic value bytes"),
        H("c15_qos_foreign_before_deadline", _q, "vendor PID 0x800f (4 symbolic bytes) in front of PID_DEADLINE: deadline unchanged", "LE, 1 concrete PID"),
        # ---- thorough: same statement, more parameters per list (about 10-45 s of symbolic execution per parameter and byte order)
        _single("presentation_q", "thorough", "presentation, 3 variants covering every scope and flag value: ", 1200),
        _single("presentation", "thorough", timeout=2400), _single("durability", "thorough", timeout=1200),
        _single("ownership", "thorough", timeout=1200), _single("liveliness", "thorough", timeout=1200),
        _single("destination_order", "thorough", timeout=1200),
        H("c15_qos_all_present", _q, "all 12 policies present (13 parameters), 4 variant combinations, LE and BE", "full bit-width", tier="thorough", timeout=2400),
        H("c15_qos_foreign_symbolic_pid", _q, "foreign PID fully symbolic (not sentinel, not a QoS PID) before / after PID_DEADLINE", "1 foreign parameter, 4 / 8 bytes", tier="thorough", timeout=2400),
        H("c15_qos_foreign_grid", _q, "foreign PIDs 0x8000 0x800f 0x0000 0x7fff between Deadline and Lifespan", "4 concrete PIDs", tier="thorough", timeout=2400),
    ],
    "bounds": {"unwind": 20, "CAP": "6 (quick) / 16 (thorough) distinct PIDs per list",
               "presence": "concrete pattern per harness instance", "foreign_parameters": 1},
    "outside": ["whole-record round trips (SpdpDiscoveredParticipantData, DiscoveredReader/Writer/TopicData, "
                "ParticipantMessageData): not built in this revision, see the report",
                "per-parameter round trips of Locator / GUID / StringWithNul / BuiltinEndpointSet",
                "more than one foreign parameter; duplicate parameters",
                "the security `property` policy (never serialised by to_parameter_list)"],
    "assumptions": [
        "speedy's slice entry points (Readable::read_from_buffer_with_ctx, Writable::write_to_vec_with_ctx) are "
        "replaced under Kani by speedy's own stream entry points over the same bytes "
        "(read_from_stream_unbuffered_with_ctx / write_to_stream_with_ctx); every RustDDS Readable/Writable impl "
        "runs unchanged; native replay uses the original entry points",
        "std BTreeMap replaced by the array-backed shim under cfg(kani)",
    ],
    "trusted": ["/verif/shim/collections.rs (BTreeMap stand-in for the parameter map)",
                "speedy 0.8.7 StreamReader / WritingCollector == BufferReader / BufferCollector on the same bytes"],
    "explanation": "C15: PL_CDR round trips of QosPolicies through the real ParameterList writer and reader.",
    "technique": "Kani/CBMC bounded symbolic model checking of the real PL_CDR writers and readers",
    "level_text": ("SAT-solver verdict over all numeric contents at full bit-width for a concrete grid of presence "
                   "patterns and enum variants; both byte orders."),
    "level_note": ("Only the QosPolicies part of C15 is decided in this revision; the whole-record clauses are listed "
                   "under outside_bounds. Trusted: Kani/CBMC/CaDiCaL, the container shim, the equivalence of speedy's "
                   "stream and slice entry points."),
}
