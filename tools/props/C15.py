"""C15 — see DESIGN.md section 3."""
from common import *  # H, RTPS_SHIM_FILES, ENV_INJECT, ENV_STUBS

# ------------------------------------------------------------------------------- C15
_q = "dds::qos::verif_harness_c15_qos"
_PATH = ("QosPolicies::to_parameter_list -> ParameterList::write_to (padding, sentinel) -> bytes -> "
         "ParameterList::read_from -> to_map -> QosPolicies::from_parameter_list == original, LE and BE")


def _single(p, tier, what="", timeout=600):
    return H("c15_qos_" + p, _q, (what or p + " alone, numeric contents symbolic: ") + _PATH,
             "full bit-width of every numeric field; enum variants / bools enumerated", tier=tier, timeout=timeout)


_p = "serialization::speedy_pl_cdr_helpers::verif_harness_c15_parts"
_s = "discovery::sedp_messages::verif_harness_c15_sedp"
_d = "discovery::spdp_participant_data::verif_harness_c15_spdp"
_REC = ("x.to_pl_cdr_bytes(PL_CDR_LE and PL_CDR_BE) -> from_pl_cdr_bytes == x field by field "
        "(updated_time / last_updated, which are receive time, ignored); ")
_RB = ("concrete presence pattern, enum variants, string lengths (1-3 ASCII bytes) and <= 1 locator per list; "
       "all GUID bytes, durations, counts, ports, addresses, string bytes symbolic at full width")


def _rec(name, mod, what, tier="thorough", timeout=1800, **kw):
    return H(name, mod, _REC + what, _RB, tier=tier, timeout=timeout, **kw)


PROP = {
    "title": "discovery data and QoS survive the wire, unknown parameters are skipped",
    "design_ref": "DESIGN.md section 3, C15",
    "inject": {"src/dds/qos.rs": ["c15_qos"],
               "src/serialization/speedy_pl_cdr_helpers.rs": ["c15_parts"],
               "src/discovery/sedp_messages.rs": ["c15_sedp"],
               "src/discovery/spdp_participant_data.rs": ["c15_spdp"]},
    # the pl_map (BTreeMap<ParameterId, Vec<&Parameter>>) flows through these three files
    "shim_files": ["src/dds/qos.rs", "src/messages/submessages/elements/parameter_list.rs",
                   "src/serialization/speedy_pl_cdr_helpers.rs"],
    "cap": {"quick": 6, "thorough": 16},
    # CBMC keeps constants only in arrays of <= 64 elements by default; RustDDS's
    # Vec::<Parameter>::with_capacity(8) is a 256-byte heap array, and without constants every
    # parameter length read back is symbolic for the symbolic executor (symbolic-size allocations).
    # The whole records push up to 16-18 parameters (Vec<Parameter> grows to 32 x 32 bytes) and are
    # up to ~350 bytes on the wire: 1024 (measured: no slowdown against 256 on the small harnesses).
    "cbmc_args": ["--max-field-sensitivity-array-size", "1024"],
    "harnesses": [
        H("c15_qos_none_present", _q, "absent parameters: the empty list (sentinel only) decodes to 'no policy', LE and BE", "-"),
        _single("deadline", "quick"), _single("latency_budget", "quick"), _single("time_based_filter", "quick"),
        _single("lifespan", "quick"), _single("resource_limits", "quick"),
        _single("reliability", "quick", "reliability, BestEffort and Reliable{any max_blocking_time} (BestEffort carries no time: exact equality still holds): "),
        _single("history", "quick", "history, KeepAll and KeepLast{any depth}: "),
        H("c15_qos_foreign_only", _q, "a list holding only a foreign parameter (PID 0x8000 / 0x7fff, 4 / 8 symbolic bytes) decodes to 'no policy'", "2 concrete PIDs, symbolic value bytes"),
        H("c15_qos_foreign_before_deadline", _q, "vendor PID 0x800f (4 symbolic bytes) in front of PID_DEADLINE: deadline unchanged", "LE, 1 concrete PID"),
        # ---- thorough: same statement, more parameters per list (about 10-45 s of symbolic execution per parameter and byte order)
        _single("presentation_q", "thorough", "presentation, 3 variants covering every scope and flag value: ", 1200),
        _single("presentation", "thorough", timeout=2400), _single("durability", "thorough", timeout=1200),
        _single("ownership", "thorough", timeout=1200), _single("liveliness", "thorough", timeout=1200),
        _single("destination_order", "thorough", timeout=1200),
        H("c15_qos_all_present", _q, "all 12 policies present (13 parameters), 4 variant combinations, LE and BE", "full bit-width", tier="thorough", timeout=2400),
        H("c15_qos_foreign_symbolic_pid", _q, "foreign PID fully symbolic (not sentinel, not a QoS PID) before / after PID_DEADLINE", "1 foreign parameter, 4 / 8 bytes", tier="thorough", timeout=2400),
        H("c15_qos_foreign_grid", _q, "foreign PIDs 0x8000 0x800f 0x0000 0x7fff between Deadline and Lifespan", "4 concrete PIDs", tier="thorough", timeout=2400),

        # ================= parts (per-parameter round trips) =================
        H("c15_part_locator_udp4", _p, "Locator::UdpV4: write_to -> 24 bytes -> read_from == original, LE and BE", "any address, any port"),
        H("c15_part_locator_udp6", _p, "Locator::UdpV6, LE and BE", "any address, any port; flowinfo = scope_id = 0 (no wire field; RustDDS's own locators have 0)"),
        H("c15_part_locator_invalid", _p, "Locator::Invalid, LE and BE", "-"),
        H("c15_part_locator_reserved", _p, "Locator::Reserved, LE and BE", "-", tier="thorough"),
        H("c15_part_locator_other", _p, "Locator::Other{kind, port, address} (a transport RustDDS does not know), LE and BE", "any kind outside -1..=2, any port / address", tier="thorough"),
        H("c15_part_guid_duration_endpoints", _p, "GUID (16 bytes), Duration (8), BuiltinEndpointSet (4), BuiltinEndpointQos (4): write -> read == original, LE and BE", "every bit pattern"),
        H("c15_part_string_len0", _p, "StringWithNul of length 0: u32 length incl. NUL + bytes + NUL, read back equal, LE and BE", "-"),
        H("c15_part_string_len1", _p, "StringWithNul of length 1, any non-NUL ASCII byte, LE and BE", "ASCII 1..=127"),
        H("c15_part_string_len2", _p, "StringWithNul of length 2", "ASCII 1..=127"),
        H("c15_part_string_len3", _p, "StringWithNul of length 3", "ASCII 1..=127"),
        # ================= ParticipantMessageData (plain CDR through serde) =================
        H("c15_pmd_roundtrip_data0", _s, "ParticipantMessageData {any prefix, any 4-byte kind, empty data}: to_writer_with_rep_id(CDR_LE / CDR_BE) -> deserialize_from_cdr_with_rep_id == original, all bytes consumed, key equal", "data length 0 (what RustDDS sends)"),
        H("c15_pmd_roundtrip_data1", _s, "same with 1 data byte", "data length 1", tier="thorough"),
        H("c15_pmd_roundtrip_data4", _s, "same with 4 data bytes", "data length 4", tier="thorough"),
        # ================= DiscoveredTopicData (one byte order per instance) =================
        _rec("c15_topic_none_le", _s, "DiscoveredTopicData with every optional field absent (absent key / policies decode to None), PL_CDR_LE", tier="quick", timeout=900),
        _rec("c15_topic_none_be", _s, "same, PL_CDR_BE", tier="quick", timeout=900),
        _rec("c15_topic_key_be", _s, "DiscoveredTopicData: key present, strings of 3 and 2 bytes, BE"),
        _rec("c15_topic_deadline_le", _s, "DiscoveredTopicData: Deadline only, strings of 2 and 3 bytes, LE"),
        _rec("c15_topic_history_keeplast_be", _s, "DiscoveredTopicData: History KeepLast{any depth} only, BE"),
        _rec("c15_topic_reliability_reliable_le", _s, "DiscoveredTopicData: key + Reliable{any max_blocking_time}, LE"),
        _rec("c15_topic_all_v0_le", _s, "DiscoveredTopicData: key + all 11 policies a topic record carries (variant set 0), LE", timeout=3000),
        _rec("c15_topic_all_v1_be", _s, "DiscoveredTopicData: key + all 11 policies (variant set 1: Exclusive ownership, Reliable, KeepLast ...), BE", timeout=3000),
        # ================= DiscoveredWriterData =================
        _rec("c15_writer_none_le", _s, "DiscoveredWriterData with every optional field absent; absent DDS-RPC parameters decode to None, LE"),
        _rec("c15_writer_none_be", _s, "same, BE"),
        _rec("c15_writer_max_size_be", _s, "DiscoveredWriterData: data_max_size_serialized present, BE"),
        _rec("c15_writer_participant_le", _s, "DiscoveredWriterData: participant_key present, strings of 3 and 2 bytes, LE"),
        _rec("c15_writer_unicast_udp4_be", _s, "DiscoveredWriterData: one UdpV4 unicast locator, BE"),
        _rec("c15_writer_multicast_udp6_le", _s, "DiscoveredWriterData: one UdpV6 multicast locator, LE"),
        _rec("c15_writer_reliable_deadline_be", _s, "DiscoveredWriterData: Reliable + Deadline, BE"),
        _rec("c15_writer_all_le", _s, "DiscoveredWriterData: every optional field but the DDS-RPC ones + durability, ownership Exclusive, liveliness, lifespan (12 parameters), LE", timeout=3000),
        _rec("c15_writer_qos_all_be", _s, "DiscoveredWriterData: all 10 policies a publication record carries (variant set 1), BE", timeout=3000),
        # ---- finding harnesses: FAIL until from_pl_cdr_bytes reads the three parameters back
        _rec("c15_finding_publication_optional_fields_lost", _s, "DiscoveredWriterData with publication_topic_data.related_datareader_key = Some(any GUID): the field must survive (LE)", tier="quick", timeout=900, expect="fail"),
        _rec("c15_finding_publication_service_instance_name_lost", _s, "same for service_instance_name = Some(1-byte string)", expect="fail"),
        _rec("c15_finding_publication_topic_aliases_lost", _s, "same for topic_aliases = Some(vec![1-byte string])", expect="fail"),
        # ================= DiscoveredReaderData =================
        _rec("c15_reader_none_le", _s, "DiscoveredReaderData with every optional field absent, expects_inline_qos symbolic, LE"),
        _rec("c15_reader_none_be", _s, "same, BE"),
        _rec("c15_reader_participant_be", _s, "DiscoveredReaderData: participant_key present, BE"),
        _rec("c15_reader_unicast_udp4_le", _s, "DiscoveredReaderData: one UdpV4 unicast locator, LE"),
        _rec("c15_reader_time_based_filter_be", _s, "DiscoveredReaderData: TimeBasedFilter, BE"),
        _rec("c15_reader_content_filter0_le", _s, "DiscoveredReaderData: ContentFilterProperty with 4 strings (1,2,3,1 bytes), no expression parameter, LE"),
        _rec("c15_reader_content_filter1_be", _s, "DiscoveredReaderData: ContentFilterProperty with one 2-byte expression parameter, BE"),
        _rec("c15_reader_all_le", _s, "DiscoveredReaderData: every optional field (participant, UdpV6 + UdpV4 locators, content filter) + 3 policies, LE", timeout=3000),
        _rec("c15_reader_qos_all_be", _s, "DiscoveredReaderData: all 10 policies a subscription record carries (variant set 0), BE", timeout=3000),
        H("c15_reader_default_expects_inline_qos", _s, "PID_EXPECTS_INLINE_QOS removed from the emitted list: decodes to false (RTPS default), other fields unchanged", _RB, tier="thorough", timeout=1800),
        # ================= SpdpDiscoveredParticipantData =================
        _rec("c15_participant_none_le", _d, "SpdpDiscoveredParticipantData with every optional field absent (lease_duration / builtin_endpoint_qos / entity_name None, empty locator lists), LE"),
        _rec("c15_participant_none_be", _d, "same, BE"),
        _rec("c15_participant_lease_be", _d, "SpdpDiscoveredParticipantData: lease_duration present, BE"),
        _rec("c15_participant_endpoint_qos_le", _d, "SpdpDiscoveredParticipantData: builtin_endpoint_qos present, LE"),
        _rec("c15_participant_entity_name_be", _d, "SpdpDiscoveredParticipantData: entity_name (2 bytes) present, BE"),
        _rec("c15_participant_meta_unicast_le", _d, "SpdpDiscoveredParticipantData: one metatraffic unicast locator, LE"),
        _rec("c15_participant_default_multicast_be", _d, "SpdpDiscoveredParticipantData: one default multicast locator, BE"),
        _rec("c15_participant_own_le", _d, "SpdpDiscoveredParticipantData as RustDDS announces itself: four locator lists of one UdpV4 locator, lease duration (11 parameters), LE", timeout=3000),
        _rec("c15_participant_all_be", _d, "SpdpDiscoveredParticipantData: every optional field present (13 parameters), BE", timeout=3000),
        H("c15_participant_defaults", _d, "PID_EXPECTS_INLINE_QOS and PID_PARTICIPANT_MANUAL_LIVELINESS_COUNT removed from the emitted list: decode to false / 0, absent optionals to None, others unchanged", _RB, tier="thorough", timeout=1800),
        # ================= unknown parameters on a whole record =================
        # DiscoveredTopicData {key, name, type, deadline}; the foreign parameter is spliced into the wire bytes
        H("c15_topic_foreign_vendor_front_le", _s, "vendor PID 0x8007, 4 symbolic bytes, in front of the list (LE): decoded record unchanged", "concrete PID and position, symbolic value bytes", tier="thorough", timeout=1800),
        H("c15_topic_foreign_vendor_mid_be", _s, "vendor PID 0x8000, 8 bytes, after the GUID (BE)", "concrete PID and position", tier="thorough", timeout=1800),
        H("c15_topic_foreign_standard_mid_le", _s, "unused standard-range PID 0x0063, 8 bytes, between the two strings (LE)", "concrete PID and position", tier="thorough", timeout=1800),
        H("c15_topic_foreign_standard_last_be", _s, "PID 0x0063, 4 bytes, before the sentinel (BE)", "concrete PID and position", tier="thorough", timeout=1800),
        H("c15_topic_foreign_vendor_bfff_be", _s, "vendor PID 0xbfff, 4 bytes, before the Deadline (BE)", "concrete PID and position", tier="thorough", timeout=1800),
        H("c15_topic_foreign_reserved_last_le", _s, "reserved PID 0x3f00, 8 bytes, before the sentinel (LE)", "concrete PID and position", tier="thorough", timeout=1800),
        H("c15_topic_foreign_pad_mid_le", _s, "PID_PAD with 4 bytes after the GUID (LE)", "concrete PID and position", tier="thorough", timeout=1800),
    ],
    "bounds": {"unwind": "20 (24 for writer / reader / participant records)",
               "CAP": "6 (quick) / 16 (thorough) distinct PIDs per list",
               "presence": "concrete pattern per harness instance: {every optional field absent, every optional field "
                           "present, single-field patterns}; 'absent' patterns in both byte orders, the others "
                           "alternate between PL_CDR_LE and PL_CDR_BE",
               "strings": "concrete length 0-3, symbolic non-NUL ASCII bytes",
               "locators": "<= 1 per list, variant concrete, address / port symbolic",
               "scalars": "GUID bytes, durations, counts, sizes, endpoint sets, vendor / protocol version: full bit-width",
               "foreign_parameters": 1},
    "outside": ["whole-record presence patterns other than the listed grid; more than one locator per list; strings "
                "longer than 3 bytes or non-ASCII (the String::from_utf8 stand-in ASSERTS ASCII, it does not assume it)",
                "PublicationBuiltinTopicData::{service_instance_name, related_datareader_key, topic_aliases} = Some(..) in the "
                "general DiscoveredWriterData harnesses: open finding, decided by c15_finding_publication_* instead; "
                "topic_aliases = Some(vec![]) puts no parameter on the wire by design of the encoding",
                "Locator::Other{kind in -1..=2} (reads back as Invalid / Reserved / UdpV4 / UdpV6) and UdpV6 flowinfo / scope_id != 0: "
                "RTPS Locator_t has no such values / fields, neither the decoder nor RustDDS (SocketAddr::new) produces them",
                "records whose two GUID fields differ (remote_writer_guid != publication key, remote_reader_guid != subscription key): "
                "one parameter on the wire, the code logs a warning",
                "security tokens / properties / security_info (feature off in this check)",
                "ParticipantMessageData.data longer than 4 bytes",
                "more than one foreign parameter; duplicate parameters; unknown PIDs with the must-understand bit on whole records",
                "the security `property` policy (never serialised by to_parameter_list)"],
    "assumptions": [
        "speedy's slice entry points (Readable::read_from_buffer_with_ctx, Writable::write_to_vec_with_ctx) are "
        "replaced under Kani by speedy's own stream entry points over the same bytes "
        "(read_from_stream_unbuffered_with_ctx / write_to_stream_with_ctx); every RustDDS Readable/Writable impl "
        "runs unchanged; native replay uses the original entry points",
        "std BTreeMap replaced by the array-backed shim under cfg(kani)",
        "String::from_utf8 replaced under Kani by 'assert every byte < 128, then from_utf8_unchecked' (std's validation "
        "loop costs 768 unwindings for 3 symbolic bytes); chrono::Utc::now and std::time::Instant::now replaced by "
        "constants (they only fill updated_time / last_updated, which no oracle reads)",
    ],
    "trusted": ["/verif/shim/collections.rs (BTreeMap stand-in for the parameter map)",
                "speedy 0.8.7 StreamReader / WritingCollector == BufferReader / BufferCollector on the same bytes"],
    "explanation": ("C15: PL_CDR round trips of QosPolicies, of the parts (Locator, GUID, Duration, endpoint sets, "
                    "StringWithNul) and of the whole records (DiscoveredTopicData, DiscoveredWriterData, "
                    "DiscoveredReaderData, SpdpDiscoveredParticipantData) through the real to_pl_cdr_bytes / "
                    "from_pl_cdr_bytes; CDR round trip of ParticipantMessageData; one foreign parameter spliced into "
                    "a QoS list or a serialized DiscoveredTopicData."),
    "technique": "Kani/CBMC bounded symbolic model checking of the real PL_CDR writers and readers",
    "level_text": ("SAT-solver verdict over all numeric contents at full bit-width for a concrete grid of presence "
                   "patterns and enum variants; both byte orders."),
    "level_note": "Quick tier: QosPolicies single-policy grid, the parts, ParticipantMessageData, DiscoveredTopicData (all optional fields absent, both byte orders) and the publication optional-field harness (the defect it found was repaired in /repo, fix: abf7db9; it now passes as a regression check). Thorough tier: the remaining presence grid of the four records, foreign parameters, defaults. Trusted: Kani/CBMC/CaDiCaL, container shim, the speedy entry-point and String::from_utf8 stand-ins listed under assumptions.",
}
