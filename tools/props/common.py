"""Shared pieces of the property tables."""

RTPS_SHIM_FILES = [
    "src/rtps/reader.rs", "src/rtps/writer.rs", "src/rtps/rtps_writer_proxy.rs",
    "src/rtps/rtps_reader_proxy.rs", "src/rtps/fragment_assembler.rs",
    "src/rtps/message_receiver.rs", "src/rtps/message.rs",
    "src/structure/dds_cache.rs", "src/structure/cache_change.rs",
    "src/structure/sequence_number.rs",
    "src/dds/with_key/simpledatareader.rs", "src/dds/with_key/datasample_cache.rs",
    "src/dds/with_key/datareader.rs", "src/dds/with_key/datawriter.rs",
    "src/discovery/discovery_db.rs",
]

ENV_INJECT = {
    "src/network/udp_sender.rs": ["env_udp"],
    "src/mio_source.rs": ["env_mio"],
    "src/structure/time.rs": ["env_time"],
}
ENV_STUBS = [
    "stub: Timestamp::now -> strictly increasing counter (TopicCache documents that it assumes unique receive timestamps)",
    "stub: std::time::Instant::now -> constant (only the mio-extras Timer asks)",
    "stub: mio_source::make_poll_channel / PollEventSender::send / PollEventSource::drain -> dummy descriptors, no-ops",
    "stub: std::fmt::format -> empty String",
    "environment: mio-extras Timer built with 2 slots instead of 256; UDPSender around an unused descriptor",
]


def H(name, mod, what="", bounds="", tier="quick", timeout=600, **kw):
    d = {"name": name, "mod": mod, "what": what, "bounds": bounds, "tier": tier,
         "timeout": timeout}
    d.update(kw)
    return d
