"""C05 — see DESIGN.md section 3."""
from common import *  # H, RTPS_SHIM_FILES, ENV_INJECT, ENV_STUBS

# ------------------------------------------------------------------------------- C05
_fa = "rtps::fragment_assembler::verif_harness_frag"
_fw = "rtps::writer::verif_harness_fragw"

_ARR = ("ONE arrival (any fragment idx of the sample, duplicate or new) from ANY assembly state (any strict subset "
        "`have` of 1..N already arrived since the last completion, empty = nothing in assembly / just completed; "
        "bytes of fragments not yet arrived arbitrary), fragments cut by the real MessageBuilder::data_frag_msg from a "
        "payload whose every byte is symbolic: new_datafrag returns Some <=> have ∪ {idx} = 1..N; Some == the written "
        "SerializedPayload byte for byte (representation id, options, value, length) and nothing stays in assembly; "
        "None leaves exactly the state have ∪ {idx} (received ranges == written bytes, other bytes untouched, bitmap == "
        "set, fragment_count == N, buffer length == n); N*f >= n > (N-1)*f; each DATAFRAG carries the right slice length, "
        "SN, number, size fields, flags. Inductive: covers arrival sequences of any length/order/duplication/omission")


def _arr(f, n, tier, key=False, timeout=900):
    name = "c05_arrival_%sf%d_n%d" % ("key_" if key else "", f, n)
    N = -(-n // f)
    return H(name, _fa, _ARR + ("; sample is a DisposeByKey (Key flag) instead of Data" if key else ""),
             "f=%d, n=%d (N=%d fragments) concrete; payload bytes, have, idx, stale bytes symbolic" % (f, n, N),
             tier=tier, timeout=timeout)


_TWO = ("two samples A, B of one writer in assembly in the same FragmentAssembler: B in ANY partial state, A in ANY "
        "state, ANY fragment of A arrives: A behaves as if alone (same verdicts as c05_arrival_*), B's bitmap and every "
        "byte of B's buffer unchanged, B neither completes nor disappears")

_QUICK_GRID = [(4, 5), (5, 10), (4, 9), (8, 15)]
_GRID = [(f, n) for f in (4, 5, 8) for n in (f + 1, 2 * f - 1, 2 * f, 2 * f + 1, 3 * f, 3 * f + 1)]

PROP = {
    "title": "fragmentation reassembles exactly, once",
    "design_ref": "DESIGN.md section 3, C05",
    "inject": dict(ENV_INJECT, **{"src/rtps/fragment_assembler.rs": ["frag"], "src/rtps/writer.rs": ["fragw"]}),
    "shim_files": RTPS_SHIM_FILES,
    "cap": {"quick": 4, "thorough": 4},
    "timeout": 900,
    "thorough_timeout": 2400,
    "harnesses": (
        [H("c05_writer_frag_count_small", _fw,
           "real Writer object with data_max_size_serialized = f: num_frags_and_frag_size(n) == "
           "(DataFrag{data_size n, fragment_size f}.total_number_of_fragments(), f) == (ceil(n/f), f) — the number of "
           "DATAFRAGs the writer sends is the number the reader expects from the header",
           "every f in 1..=64, every n in f+1..=1024 (contains the whole grid)"),
         H("c05_writer_frag_count_medium", _fw, "same", "every f in 1..=256, every n in f+1..=8192",
           tier="thorough", timeout=2400)]
        + [_arr(f, n, "quick") for (f, n) in _QUICK_GRID]
        + [_arr(f, n, "thorough", timeout=2400) for (f, n) in _GRID if (f, n) not in _QUICK_GRID]
        + [_arr(4, 5, "quick", key=True), _arr(5, 11, "thorough", key=True, timeout=2400)]
        + [
            H("c05_two_samples_f4_a5_b9", _fa, _TWO, "f=4; A: n=5 (N=2), SN 7; B: n=9 (N=3), SN 8"),
            H("c05_two_samples_f4_a9_b5", _fa, _TWO, "f=4; A: n=9 (N=3), SN 8; B: n=5 (N=2), SN 7", tier="thorough", timeout=2400),
            H("c05_two_samples_f5_a9_b6", _fa, _TWO, "f=5; A: n=9 (N=2), SN 3; B: n=6 (N=2), SN 4", tier="thorough", timeout=2400),
            H("c05_two_samples_f5_a6_b11", _fa, _TWO, "f=5; A: n=6 (N=2), SN 4; B: n=11 (N=3), SN 3", tier="thorough", timeout=2400),
            H("c05_once_via_proxy_f4_n5_sn1", _fa,
              "what 'once' rests on: two complete rounds of the same sample's fragments (second round = late duplicates, "
              "reverse order) through the real assembler: it reassembles the identical sample TWICE (the assembler forgets "
              "a sample on completion); fed through the duplicate filter of Reader::process_received_data "
              "(real RtpsWriterProxy::should_ignore_change / received_changes_add) exactly ONE is accepted",
              "f=4, n=5, SN 1, fresh proxy; arrival order concrete (1,2,2,1); bytes symbolic"),
            H("c05_once_via_proxy_f5_n11_sn3", _fa, "same, three fragments, SN 3 (out-of-order SN for the proxy)",
              "f=5, n=11, SN 3; order 1,2,3,3,2,1", tier="thorough", timeout=2400),
            H("c05_missing_frags_f4_n9", _fa,
              "is_partially_received / missing_frags_for (input of NACKFRAG, C03): for ANY non-empty strict subset of "
              "fragments in assembly missing_frags_for yields exactly the complement, ascending, each once, then None; "
              "nothing for an SN not in assembly; same on the state the real code reaches after one (any) arrival",
              "f=4, n=9 (N=3)"),
            H("c05_missing_frags_f5_n16", _fa, "same, four fragments", "f=5, n=16 (N=4)", tier="thorough", timeout=2400),
            H("c05_gc_keeps_others_intact", _fa,
              "garbage_collect_before(t) with two samples in ANY partial states and ANY modification times: drops exactly "
              "the buffers not modified since t; a kept buffer is bit-for-bit unchanged",
              "f=4; n=9 and n=5; times and threshold any u64"),
        ]
    ),
    "bounds": {
        "grid": "fragment size f in {4,5,8} x serialized payload length n (incl. the 4 header bytes) in "
                "{f+1, 2f-1, 2f, 2f+1, 3f, 3f+1}: N = 2..4 fragments, n <= 25; quick tier = "
                + ", ".join("(%d,%d)" % p for p in _QUICK_GRID) + " + Key-flag (4,5); thorough = all 18 + Key-flag (5,11)",
        "arrival_sequences": "unbounded (inductive step from any assembly state), one or two samples in assembly",
        "fragment_count_arithmetic": "f in 1..=64, n in f+1..=1024 (quick); f <= 256, n <= 8192 (thorough)",
        "unwind": 34,
    },
    "outside": [
        "f > 8 or n > 25 for the byte-level reassembly; f > 256 or n > 8192 for the fragment-count arithmetic "
        "(full 16/32-bit width tried: not decided in 400 s — two symbolic 32-bit divisions + 64-bit products)",
        "more than two samples of one writer in assembly at once",
        "fragments of different WRITERS: Reader keeps one FragmentAssembler per writer GUID (Reader::fragment_assembler_mutable); "
        "the objects share no state; the selection by GUID is not driven here",
        "DATAFRAGs no RustDDS writer produces (fragments_in_submessage > 1, inconsistent sizes for one SN, inline QoS): hostile input is C06",
        "data_max_size_serialized > 65535 (num_frags_and_frag_size truncates to u16; RustDDS fixes it at 1024)",
        "related_sample_identity inline QoS on DATAFRAG; security-transformed fragments",
        "the ChangeKind of a reassembled key sample (always NotAliveDisposed: DATAFRAG carries no status info) — bytes only",
    ],
    "assumptions": [
        "stub: Timestamp::now -> strictly increasing counter",
        "stub: std::fmt::format -> empty String",
        "stub (Kani only): bytes::BytesMut::freeze -> Bytes with the same contents in bytes' Arc-backed representation "
        "(the pointer-tagged 'promotable' representation uses integer-to-pointer casts CBMC cannot resolve); the sample "
        "handed to the writer uses the Arc-backed representation too; native replay uses the real freeze",
        "the DataFrag the reader side receives is rebuilt field by field from the writer's DataFrag after asserting each "
        "field and length equal to its concrete expected value (the wire; serialisation round trip is C14)",
        "for c05_writer_frag_count: " + "; ".join(ENV_STUBS),
    ],
    "trusted": ["/verif/shim/collections.rs (BTreeMap stand-in)", "/verif/harness/env_*.rs (environment stand-ins)",
                "bytes crate: all Bytes representations behave alike (the property never depends on the representation)"],
    "explanation": ("C05: real writer-side cutting (MessageBuilder::data_frag_msg, DDSData/SerializedPayload::bytes_slice, "
                    "Writer::num_frags_and_frag_size) against real reader-side reassembly (FragmentAssembler, AssemblyBuffer, "
                    "SerializedPayload::from_bytes, DataFrag::total_number_of_fragments), inductive over arrivals."),
    "technique": ("Kani/CBMC bounded symbolic model checking: inductive step of FragmentAssembler::new_datafrag from an arbitrary "
                  "assembly state, on fragments cut by the real MessageBuilder::data_frag_msg from an all-symbolic payload; "
                  "fragment-count arithmetic of the real Writer object over ranges of f and n"),
    "level_text": ("SAT-solver verdict over all payload contents, all assembly states and all arriving fragments for each "
                   "(fragment size, payload length) of the concrete grid; arrival sequences of any length follow by induction; "
                   "the fragment-count arithmetic of the real Writer object is decided over the stated ranges of f and n."),
    "level_note": ("Trusted: Kani/CBMC/CaDiCaL, the container shim, the environment stubs listed, the induction argument "
                   "(base case = fresh FragmentAssembler, which is the `have = empty` pre-state of every arrival harness)."),
}
