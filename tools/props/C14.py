"""C14 — see DESIGN.md section 3."""
from common import *  # H, RTPS_SHIM_FILES, ENV_INJECT, ENV_STUBS

# ------------------------------------------------------------------------------- C14
_sm = "rtps::submessage::verif_harness_c14_submsg"
_ns = "structure::sequence_number::verif_harness_c14_numset"
_da = "messages::submessages::data::verif_harness_c14_data"
_mb = "rtps::message::verif_harness_c14_builder"

_W = "base and every bitmap word symbolic at full width (incl. bits >= num_bits of the last word); num_bits = %s concrete"

_numset = [
    H("c14_seqnum_fragnum_roundtrip", _ns,
      "SequenceNumber / FragmentNumber: read(write(x)) == x in both byte orders; SequenceNumber wire layout is "
      "{high i32, low u32} (RTPS 9.4.2.5); from_high_low(high(), low()) == x",
      "full 64 / 32 bit width"),
]
_STEP = ("SequenceNumberSet iterator, inductive step: iter() starts at [0,num_bits); from ANY position a one "
         "next() returns base + (least set bit index in [a,num_bits)) and advances past it, or None iff no such "
         "bit; hence iter() yields exactly the set bits < num_bits in increasing order, never a member >= base+256")
for nb in (0, 1, 31, 32, 33):
    _numset.append(H("c14_numset_iter_step_sn_%d" % nb, _ns, _STEP, _W % nb + "; base <= i64::MAX-256; every position a in 0..=num_bits"))
_numset.append(H("c14_numset_iter_step_fn_33", _ns, "same for FragmentNumberSet", _W % 33 + "; base <= u32::MAX-256"))
for nb, lo in ((255, 222), (256, 223)):
    _numset.append(H("c14_numset_iter_tail_sn_%d" % nb, _ns, _STEP + " (window boundary: last set bit 254/255, nothing at or beyond num_bits)",
                     _W % nb + "; positions a in %d..=%d only (the last 33 of the window)" % (lo, nb)))
    _numset.append(H("c14_numset_iter_first_sn_%d" % nb, _ns,
                     "first next() on iter(): returns base + least set bit index of the whole window, or None iff the window is empty",
                     _W % nb + "; position 0 (concrete)", tier="thorough", timeout=1800))
_numset.append(H("c14_numset_iter_tail_fn_256", _ns, "same as c14_numset_iter_tail_sn_256 for FragmentNumberSet",
                 _W % 256 + "; positions 223..=256"))
for nb in (1, 8):
    _numset.append(H("c14_numset_iter_drain_sn_%d" % nb, _ns,
                     "direct check of the same statement: drain iter() and compare with the RTPS 9.4.2.6 bit numbering "
                     "member by member; is_empty() == (no bit < num_bits set)", _W % nb))
_CODEC = ("SequenceNumberSet: bytes written == len_serialized() == 12 + 4*ceil(num_bits/32); read(write(s)) == s "
          "field by field (all bitmap words incl. bits beyond num_bits)")
_QUICK_CODEC = {("sn", 0, "le"), ("sn", 33, "le"), ("sn", 256, "le"), ("fn", 33, "be")}
for en in ("le", "be"):
    for nb in (0, 1, 31, 32, 33, 255, 256):
        _numset.append(H("c14_numset_codec_sn_%d_%s" % (nb, en), _ns, _CODEC, _W % nb + "; byte order " + en.upper(),
                         tier="quick" if ("sn", nb, en) in _QUICK_CODEC else "thorough"))
    for nb in (0, 33, 256):
        _numset.append(H("c14_numset_codec_fn_%d_%s" % (nb, en), _ns, "same for FragmentNumberSet (8 + 4*ceil(num_bits/32) bytes)",
                         _W % nb + "; byte order " + en.upper(),
                         tier="quick" if ("fn", nb, en) in _QUICK_CODEC else "thorough"))
_numset.append(H("c14_numset_read_rejects_over_256", _ns,
                 "SequenceNumberSet / FragmentNumberSet::read_from reject every numBits > 256 (any other bytes, both byte orders)",
                 "16 symbolic bytes, numBits any value in 257..2^32-1"))
for name, b, s, tier in [("b1_s0", "1", 0, "quick"), ("b1_s33", "1", 33, "thorough"), ("b1_s255", "1", 255, "thorough"),
                         ("b1_s256", "1", 256, "quick"), ("b1_s300", "1", 300, "thorough"),
                         ("b31_s64", "2^31-2", 64, "thorough"), ("b32_s300", "2^32-1", 300, "quick")]:
    _numset.append(H("c14_from_base_and_set_" + name, _ns,
                     "from_base_and_set(b, {b+o1, b+o2, b+span}) == S ∩ [b, b+256): base kept, num_bits == min(span,255)+1, "
                     "every index 0..287 (one symbolic probe) is a member iff it is in S and < 256, no bit beyond num_bits",
                     "b = %s, span = %d concrete; o1 < o2 < span symbolic; min(S) >= b" % (b, s), tier=tier))

_submsg = [
    H("c14_heartbeat_roundtrip", _sm,
      "Heartbeat, all fields and byte order symbolic: read(write(m)) == m, create_submessage "
      "(any flags) content_length == 28 == body bytes, framed kind/flags/length agree with the body",
      "full bit-width of every field"),
]

_QS = {0: "no inline QoS", 1: "inline QoS = 1 parameter of 4 bytes", 2: "inline QoS = 2 parameters of 4 and 8 bytes",
       3: "inline QoS = 1 parameter of 5 bytes (padded to 8)"}
_data = []
for name, pl, q in [("nopayload_q1", None, 1), ("p0_q0", 0, 0), ("p1_q0", 1, 0), ("p2_q1", 2, 1), ("p3_q2", 3, 2),
                    ("p4_q0", 4, 0), ("p5_q3", 5, 3), ("p8_q1", 8, 1)]:
    _data.append(H("c14_data_write_" + name, _da,
                   "Data::write_to: bytes written == len_serialized() (the content_length data_msg puts in the header) == "
                   "20 + inline QoS + payload rounded up to 4, multiple of 4; extraFlags 0, octetsToInlineQos 16; payload "
                   "bytes unchanged after the inline QoS, padding zero; symbolic byte order",
                   "payload %s, %s; all contents symbolic; parameter id != PID_SENTINEL" %
                   ("absent" if pl is None else "%d bytes" % pl, _QS[q])))
for name, pl, q in [("p1_q0", 1, 0), ("p4_q0", 4, 0), ("p5_q0", 5, 0), ("p8_q0", 8, 0), ("p4_q1", 4, 1), ("p5_q2", 5, 2)]:
    _data.append(H("c14_datafrag_write_" + name, _da,
                   "DataFrag::write_to: bytes written == len_serialized() (the content_length data_frag_msg puts in the "
                   "header) == 32 + inline QoS + payload; octetsToInlineQos 28 and the inline QoS really starts there; "
                   "payload bytes are the unchanged tail; symbolic byte order",
                   "payload %d bytes, %s; every header field symbolic (validity of fragment numbers not assumed: write side only)"
                   % (pl, _QS[q])))


# ---- whole messages (c14_msg.rs, child of rtps::message)
_mm = "rtps::message::verif_harness_c14_msg"
_MSG = ("whole-message round trip: the Message is built by the real MessageBuilder / create_submessage functions, serialised by "
        "Writable for Message (context byte order = the OPPOSITE of the submessages' flag: must not matter); (1) a foreign receiver's walk "
        "over the bytes: kind / flags / octetsToNextHeader of every submessage header lead exactly to the next header and to the end of "
        "the message, lengths are multiples of 4; (2) the real parser on these bytes returns the same header and, per position, a "
        "submessage with equal header (kind, flags, content_length) and equal body field by field (DATA payload up to the zero padding "
        "to 4), original_bytes = header + body, and continues exactly at the next submessage header")
_PER = ("; parser = Header::read_from_buffer + the real Submessage::read_from_buffer called on the real rest of the message at every "
        "submessage boundary (Message::read_from_buffer's 5-line loop unrolled by the harness, see assumptions)")
_REAL = "; parser = the real Message::read_from_buffer"
_msg = []
def _M(name, shape, bounds, tier="thorough", real=False):
    _msg.append(H(name, _mm, "[" + shape + "] " + _MSG + (_REAL if real else _PER), bounds, tier=tier, timeout=2400))
_SYM = "all field values symbolic at full width (guid prefixes, entity ids, sequence numbers, counts, timestamp, bitmap words, payload bytes)"
_M("c14_msg_hb_le", "HEARTBEAT", "LE, no F/L flag; " + _SYM, tier="quick", real=True)
_M("c14_msg_hb_be_final", "HEARTBEAT", "BE, Final flag; " + _SYM, real=True)
_M("c14_msg_hb_le_liveliness", "HEARTBEAT", "LE, Liveliness flag; " + _SYM, real=True)
_M("c14_msg_dst_ts0_hb_le", "INFO_DST, INFO_TS(invalidate: NO body, octetsToNextHeader 0 in the MIDDLE), HEARTBEAT", "LE; " + _SYM, tier="quick")
_M("c14_msg_dst_ts0_hb_be", "INFO_DST, INFO_TS(invalidate, no body), HEARTBEAT", "BE; " + _SYM)
_M("c14_msg_dst_ts_hb_le", "INFO_DST, INFO_TS(timestamp), HEARTBEAT", "LE; " + _SYM)
_M("c14_msg_dst_ts_hb_be", "INFO_DST, INFO_TS(timestamp), HEARTBEAT", "BE; " + _SYM)
_M("c14_msg_ts0_hb_le", "INFO_TS(invalidate, no body) FIRST, HEARTBEAT(Final)", "LE; " + _SYM)
_M("c14_msg_ts0_hb_be", "INFO_TS(invalidate, no body) FIRST, HEARTBEAT(Final)", "BE; " + _SYM)
_M("c14_msg_dst_ts0_le", "INFO_DST, INFO_TS(invalidate, no body) LAST", "LE; " + _SYM)
_M("c14_msg_dst_ts0_be", "INFO_DST, INFO_TS(invalidate, no body) LAST", "BE; " + _SYM)
_M("c14_msg_ts_gap_0_le", "INFO_TS, GAP (real gap_msg_before: empty gap list)", "LE, num_bits 0; " + _SYM)
_M("c14_msg_ts_gap_0_be", "INFO_TS, GAP (real gap_msg_before)", "BE, num_bits 0; " + _SYM)
_M("c14_msg_ts_gap_33_le", "INFO_TS, GAP (Gap::create_submessage, any 33-bit gap list)", "LE, num_bits 33; " + _SYM)
_M("c14_msg_ts_gap_32_be", "INFO_TS, GAP (Gap::create_submessage, any 32-bit gap list)", "BE, num_bits 32; " + _SYM)
_M("c14_msg_dst_acknack_0_le", "INFO_DST, ACKNACK as Reader::send_acknack_to", "LE, Final, num_bits 0; " + _SYM)
_M("c14_msg_dst_acknack_1_be", "INFO_DST, ACKNACK", "BE, num_bits 1; " + _SYM)
_M("c14_msg_dst_acknack_33_le", "INFO_DST, ACKNACK as Reader::send_acknack_to", "LE, num_bits 33; " + _SYM)
_M("c14_msg_dst_acknack_32_be", "INFO_DST, ACKNACK", "BE, Final, num_bits 32; " + _SYM)
_M("c14_msg_dst_nackfrag2_1_33_le", "INFO_DST, NACK_FRAG, NACK_FRAG as Reader::send_nackfrags_to", "LE, num_bits 1 and 33; " + _SYM)
_M("c14_msg_dst_nackfrag2_32_0_be", "INFO_DST, NACK_FRAG, NACK_FRAG", "BE, num_bits 32 and 0; " + _SYM)
# NOT registered (harnesses exist in c14_msg.rs: c14_msg_ts_data{0..5}_hb_*, c14_msg_ts_datafrag_f{1,2,3}_*): the [INFO_TS, DATA,
# HEARTBEAT] instance exceeded the 7 GB memory cap after 9 min; see "outside".

# ---- remaining submessage bodies and the RTPS header (c14_bodies.rs, child of rtps::submessage)
_bo = "rtps::submessage::verif_harness_c14_bodies"
_BODY = ("%s: body bytes written == %s; read(write(m)) == m field by field; write(read(b)) == b (the PARSED value re-serialises to "
         "the same bytes)%s")
_CS = "; create_submessage: content_length == body bytes, multiple of 4 (the framed form is decided by the c14_msg_* harnesses)"
_bodies = []
_QB = {"c14_gap_roundtrip_33_be", "c14_acknack_roundtrip_33_le", "c14_nackfrag_roundtrip_1_be"}
for kind, size, grid in (("gap", "28 + 4*ceil(num_bits/32)", ((0, "le"), (1, "be"), (32, "le"), (33, "be"))),
                         ("acknack", "24 + 4*ceil(num_bits/32) == len_serialized()", ((0, "be"), (1, "le"), (32, "be"), (33, "le"))),
                         ("nackfrag", "28 + 4*ceil(num_bits/32) == len_serialized()", ((0, "le"), (1, "be"), (32, "le"), (33, "be")))):
    for nb, en in grid:
        nm = "c14_%s_roundtrip_%d_%s" % (kind, nb, en)
        _bodies.append(H(nm, _bo, _BODY % (kind.upper(), size, _CS), _W % nb + "; byte order " + en.upper() + "; ids / SNs / count symbolic",
                         tier="quick" if nm in _QB else "thorough"))
_bodies.append(H("c14_heartbeatfrag_roundtrip", _bo, _BODY % ("HEARTBEAT_FRAG", "24", " (RustDDS never builds this kind: no create_submessage)"), "all fields and byte order symbolic", tier="thorough"))
_bodies.append(H("c14_infodst_roundtrip", _bo, _BODY % ("INFO_DST", "12 == len_serialized()", _CS), "prefix, flags byte and byte order symbolic"))
_bodies.append(H("c14_infosrc_roundtrip", _bo, _BODY % ("INFO_SRC", "20", " (built only by the security feature)"), "all fields and byte order symbolic", tier="thorough"))
_bodies.append(H("c14_infots_roundtrip", _bo, _BODY % ("INFO_TS body (Timestamp)", "8, seconds before fraction", ""), "any 64-bit tick count, byte order symbolic"))
_bodies.append(H("c14_header_roundtrip", _bo, _BODY % ("RTPS Header", "20, magic 'RTPS', version and vendor bytes in place", ""),
                 "any version / vendor / prefix, protocol id RTPS (the only one RustDDS can construct), context byte order symbolic"))

PROP = {
    "title": "every emitted RTPS message parses back to itself",
    "design_ref": "DESIGN.md section 3, C14",
    "inject": {
        "src/rtps/submessage.rs": ["c14_submsg", "c14_bodies"],
        "src/rtps/message.rs": ["c14_msg"],
        "src/structure/sequence_number.rs": ["c14_numset"],
        "src/messages/submessages/data.rs": ["c14_data"],
    },
    "shim_files": RTPS_SHIM_FILES + ["src/structure/sequence_number.rs", "src/rtps/message.rs"],
    "cap": {"quick": 4, "thorough": 4},
    "harnesses": _numset + _submsg + _bodies + _data + _msg,
    "cbmc_args": ["--max-field-sensitivity-array-size", "256"],
    "bounds": {"unwind": "3..36 (259 for the whole-window iterator instances)",
               "num_bits grid": [0, 1, 31, 32, 33, 255, 256],
               "payload length grid": "absent, 0, 1, 2, 3, 4, 5, 8 (every residue mod 4)",
               "inline QoS shapes": ["absent", "1 x 4 bytes", "4 + 8 bytes", "1 x 5 bytes (padded)"],
               "from_base_and_set": "base in {1, 2^31-2, 2^32-1}, span in {0,33,64,255,256,300}, 3 members (2 symbolic)",
               "byte order": "symbolic where no length travels through the bytes, else one instance per order"},
    "outside": ["payloads > 8 bytes, > 2 inline-QoS parameters, parameter id PID_SENTINEL inside a list",
                "NumberSet bases within 256 of the numeric maximum (iterator addition would overflow)",
                "from_base_and_set with min(S) < base (no caller in RustDDS does that; the function then moves the base down)",
                "iterator positions 1..221 of the 255/256-bit windows (positions 0 and the last 33 are decided; all positions for <= 33 bits)",
                "NOT YET DECIDED: whole messages containing DATA / DATA_FRAG ([INFO_TS, DATA, HEARTBEAT], [INFO_TS, DATA_FRAG]: harnesses "
                "c14_msg_ts_data*_hb_* / c14_msg_ts_datafrag_* exist in c14_msg.rs but are not registered: > 7 GB after 9 min), read side of "
                "Data / DataFrag / ParameterList (Data::deserialize_data(write(d)) == d), InfoReply / Locator (RustDDS never emits INFO_REPLY)",
                "Message::read_from_buffer itself on messages of MORE than one submessage (its error path drops the partly built Vec<Submessage>, "
                "whose drop glue CBMC explores for every submessage kind: did not finish in 600 s, same observation as C06); multi-submessage "
                "messages are parsed by Header::read_from_buffer + the real Submessage::read_from_buffer at every boundary instead; the real "
                "Message::read_from_buffer is decided on the single-submessage shapes c14_msg_hb_*",
                "re-serialising a parsed WHOLE message (write(read(b)) == b) is decided per body (c14_*_roundtrip re-serialise the parsed value), "
                "not per message: the parsed Submessage's niche-encoded enum discriminants are not constants for CBMC after the move out of "
                "Result<Option<Submessage>>, Writable for Message is then explored for every kind at every position (no result in 600 s)",
                "whole messages: symbolic flag bits other than the byte order (one instance per flag combination used by Writer / Reader), "
                "more than 3 submessages, messages > 135 bytes",
                "security submessages (C16), vendor-specific kinds"],
    "assumptions": ["std BTreeSet replaced by the array-backed shim under cfg(kani) in from_base_and_set harnesses",
                    "c14_msg_* and the number-set bodies of c14_bodies.rs, under Kani only (native replay runs the originals): speedy's "
                    "read_from_buffer_with_ctx / write_to_vec_with_ctx entry points are redirected to a plain slice reader / Vec writer "
                    "(integer positions, ONE write pass instead of speedy's size pass + write pass, capacity 192 bytes); all RustDDS "
                    "Readable / Writable impls run unchanged on top",
                    "c14_msg_*: Vec::push places the elements of a Vec<Submessage> in a typed local array of 4 slots instead of the heap "
                    "(CBMC loses enum discriminants stored in heap byte arrays); speedy::Writer::write_slice of non-byte elements (only "
                    "INFO_REPLY locator lists) is a reported FAILURE, not an assumption; the parser input is a Bytes of the STATIC kind over "
                    "the serialised bytes; the framing bytes (magic, version, kind, flags, octetsToNextHeader) of the parser input are "
                    "replaced by their expected concrete values AFTER each was asserted equal to it (nothing assumed)",
                    "codec / from_base_and_set harnesses stub Vec::with_capacity, Vec::push, vec![x; n] with concrete-capacity "
                    "versions (<= 96 / 16 / 9 elements): a length that travelled through serialised bytes is not a constant for CBMC",
                    "write(read(b)) == b is not checked by re-serialising (symbolic sizes): it follows from read(write(s)) == s "
                    "field by field and write_to being a function of those fields"],
    "trusted": ["/verif/shim/collections.rs (BTreeSet stand-in)", "/verif/env/mod.rs Vec stubs", "speedy 0.8.7 reader/writer collectors (encoded as is)"],
    "explanation": ("C14: MessageBuilder::{dst_submessage, ts_msg, gap_msg_before, heartbeat_msg, add_header_and_build}, *::create_submessage, Writable for Message / Submessage / "
                    "SubmessageBody / *Submessage, Submessage::read_from_buffer, Message::read_from_buffer, Gap / AckNack / NackFrag / HeartbeatFrag / Info* / Header codecs; "
                    "the real speedy Writable/Readable impls of SequenceNumber, FragmentNumber, NumberSet, Heartbeat, Data, DataFrag, "
                    "ParameterList/Parameter (write side) and NumberSet::{iter, from_base_and_set}, Heartbeat::create_submessage, "
                    "Submessage::write_to."),
    "technique": "Kani/CBMC bounded symbolic model checking of the speedy Writable/Readable impls and hand-written decoders over a grid of concrete shapes with symbolic contents",
    "level_text": "SAT-solver verdict over all field values / bitmap words / payload and parameter bytes inside the stated shape grid.",
    "level_note": "Trusted: Kani/CBMC/CaDiCaL, container shim, the Vec / speedy / Submessage-storage stand-ins listed under assumptions (Kani only; native replay runs the originals). The DataFrag inline-QoS tag-byte defect these harnesses found was repaired in /repo (fix: 7c47c21); c14_datafrag_write_*_q1/_q2 now pass and stay as regression checks.",
}
