"""C14 — see DESIGN.md section 3."""
from common import *  # H, RTPS_SHIM_FILES, ENV_INJECT, ENV_STUBS

# ------------------------------------------------------------------------------- C14
_sm = "rtps::submessage::verif_harness_c14_submsg"
_ns = "structure::sequence_number::verif_harness_c14_numset"
_da = "messages::submessages::data::verif_harness_c14_data"
_mb = "rtps::message::verif_harness_c14_builder"

_W = "base and every bitmap word symbolic at full width (incl. bits >= num_bits of the last word); num_bits = %s concrete"

_numset = [
    H("c14_seqnum_fragnum_roundtrip", _ns,
      "SequenceNumber / FragmentNumber: read(write(x)) == x in both byte orders; SequenceNumber wire layout is "
      "{high i32, low u32} (RTPS 9.4.2.5); from_high_low(high(), low()) == x",
      "full 64 / 32 bit width"),
]
_STEP = ("SequenceNumberSet iterator, inductive step: iter() starts at [0,num_bits); from ANY position a one "
         "next() returns base + (least set bit index in [a,num_bits)) and advances past it, or None iff no such "
         "bit; hence iter() yields exactly the set bits < num_bits in increasing order, never a member >= base+256")
for nb in (0, 1, 31, 32, 33):
    _numset.append(H("c14_numset_iter_step_sn_%d" % nb, _ns, _STEP, _W % nb + "; base <= i64::MAX-256; every position a in 0..=num_bits"))
_numset.append(H("c14_numset_iter_step_fn_33", _ns, "same for FragmentNumberSet", _W % 33 + "; base <= u32::MAX-256"))
for nb, lo in ((255, 222), (256, 223)):
    _numset.append(H("c14_numset_iter_tail_sn_%d" % nb, _ns, _STEP + " (window boundary: last set bit 254/255, nothing at or beyond num_bits)",
                     _W % nb + "; positions a in %d..=%d only (the last 33 of the window)" % (lo, nb)))
    _numset.append(H("c14_numset_iter_first_sn_%d" % nb, _ns,
                     "first next() on iter(): returns base + least set bit index of the whole window, or None iff the window is empty",
                     _W % nb + "; position 0 (concrete)", tier="thorough", timeout=1800))
_numset.append(H("c14_numset_iter_tail_fn_256", _ns, "same as c14_numset_iter_tail_sn_256 for FragmentNumberSet",
                 _W % 256 + "; positions 223..=256"))
for nb in (1, 8):
    _numset.append(H("c14_numset_iter_drain_sn_%d" % nb, _ns,
                     "direct check of the same statement: drain iter() and compare with the RTPS 9.4.2.6 bit numbering "
                     "member by member; is_empty() == (no bit < num_bits set)", _W % nb))
_CODEC = ("SequenceNumberSet: bytes written == len_serialized() == 12 + 4*ceil(num_bits/32); read(write(s)) == s "
          "field by field (all bitmap words incl. bits beyond num_bits)")
_QUICK_CODEC = {("sn", 0, "le"), ("sn", 33, "le"), ("sn", 256, "le"), ("sn", 256, "be"), ("fn", 33, "be"), ("fn", 256, "le")}
for en in ("le", "be"):
    for nb in (0, 1, 31, 32, 33, 255, 256):
        _numset.append(H("c14_numset_codec_sn_%d_%s" % (nb, en), _ns, _CODEC, _W % nb + "; byte order " + en.upper(),
                         tier="quick" if ("sn", nb, en) in _QUICK_CODEC else "thorough"))
    for nb in (0, 33, 256):
        _numset.append(H("c14_numset_codec_fn_%d_%s" % (nb, en), _ns, "same for FragmentNumberSet (8 + 4*ceil(num_bits/32) bytes)",
                         _W % nb + "; byte order " + en.upper(),
                         tier="quick" if ("fn", nb, en) in _QUICK_CODEC else "thorough"))
_numset.append(H("c14_numset_read_rejects_over_256", _ns,
                 "SequenceNumberSet / FragmentNumberSet::read_from reject every numBits > 256 (any other bytes, both byte orders)",
                 "16 symbolic bytes, numBits any value in 257..2^32-1"))
for name, b, s, tier in [("b1_s0", "1", 0, "quick"), ("b1_s33", "1", 33, "quick"), ("b1_s255", "1", 255, "thorough"),
                         ("b1_s256", "1", 256, "quick"), ("b1_s300", "1", 300, "thorough"),
                         ("b31_s64", "2^31-2", 64, "thorough"), ("b32_s300", "2^32-1", 300, "quick")]:
    _numset.append(H("c14_from_base_and_set_" + name, _ns,
                     "from_base_and_set(b, {b+o1, b+o2, b+span}) == S ∩ [b, b+256): base kept, num_bits == min(span,255)+1, "
                     "every index 0..287 (one symbolic probe) is a member iff it is in S and < 256, no bit beyond num_bits",
                     "b = %s, span = %d concrete; o1 < o2 < span symbolic; min(S) >= b" % (b, s), tier=tier))

_submsg = [
    H("c14_heartbeat_roundtrip", _sm,
      "Heartbeat, all fields and byte order symbolic: read(write(m)) == m, create_submessage "
      "(any flags) content_length == 28 == body bytes, framed kind/flags/length agree with the body",
      "full bit-width of every field"),
]

_QS = {0: "no inline QoS", 1: "inline QoS = 1 parameter of 4 bytes", 2: "inline QoS = 2 parameters of 4 and 8 bytes",
       3: "inline QoS = 1 parameter of 5 bytes (padded to 8)"}
_data = []
for name, pl, q in [("nopayload_q1", None, 1), ("p0_q0", 0, 0), ("p1_q0", 1, 0), ("p2_q1", 2, 1), ("p3_q2", 3, 2),
                    ("p4_q0", 4, 0), ("p5_q3", 5, 3), ("p8_q1", 8, 1)]:
    _data.append(H("c14_data_write_" + name, _da,
                   "Data::write_to: bytes written == len_serialized() (the content_length data_msg puts in the header) == "
                   "20 + inline QoS + payload rounded up to 4, multiple of 4; extraFlags 0, octetsToInlineQos 16; payload "
                   "bytes unchanged after the inline QoS, padding zero; symbolic byte order",
                   "payload %s, %s; all contents symbolic; parameter id != PID_SENTINEL" %
                   ("absent" if pl is None else "%d bytes" % pl, _QS[q])))
for name, pl, q in [("p1_q0", 1, 0), ("p4_q0", 4, 0), ("p5_q0", 5, 0), ("p8_q0", 8, 0), ("p4_q1", 4, 1), ("p5_q2", 5, 2)]:
    _data.append(H("c14_datafrag_write_" + name, _da,
                   "DataFrag::write_to: bytes written == len_serialized() (the content_length data_frag_msg puts in the "
                   "header) == 32 + inline QoS + payload; octetsToInlineQos 28 and the inline QoS really starts there; "
                   "payload bytes are the unchanged tail; symbolic byte order",
                   "payload %d bytes, %s; every header field symbolic (validity of fragment numbers not assumed: write side only)"
                   % (pl, _QS[q])))

PROP = {
    "title": "every emitted RTPS message parses back to itself",
    "design_ref": "DESIGN.md section 3, C14",
    "inject": {
        "src/rtps/submessage.rs": ["c14_submsg"],
        "src/rtps/message.rs": ["c14_msg"],
        "src/structure/sequence_number.rs": ["c14_numset"],
        "src/messages/submessages/data.rs": ["c14_data"],
    },
    "shim_files": RTPS_SHIM_FILES + ["src/structure/sequence_number.rs", "src/rtps/message.rs"],
    "cap": {"quick": 4, "thorough": 4},
    "harnesses": _numset + _submsg + _data,
    "bounds": {"unwind": "3..36 (259 for the whole-window iterator instances)",
               "num_bits grid": [0, 1, 31, 32, 33, 255, 256],
               "payload length grid": "absent, 0, 1, 2, 3, 4, 5, 8 (every residue mod 4)",
               "inline QoS shapes": ["absent", "1 x 4 bytes", "4 + 8 bytes", "1 x 5 bytes (padded)"],
               "from_base_and_set": "base in {1, 2^31-2, 2^32-1}, span in {0,33,64,255,256,300}, 3 members (2 symbolic)",
               "byte order": "symbolic where no length travels through the bytes, else one instance per order"},
    "outside": ["payloads > 8 bytes, > 2 inline-QoS parameters, parameter id PID_SENTINEL inside a list",
                "NumberSet bases within 256 of the numeric maximum (iterator addition would overflow)",
                "from_base_and_set with min(S) < base (no caller in RustDDS does that; the function then moves the base down)",
                "iterator positions 1..221 of the 255/256-bit windows (positions 0 and the last 33 are decided; all positions for <= 33 bits)",
                "NOT YET BUILT in this revision: body round trips of Gap / AckNack / NackFrag / HeartbeatFrag / Info* / Header / "
                "Locator, read side of Data / DataFrag / ParameterList, MessageBuilder and whole-Message framing",
                "security submessages (C16), vendor-specific kinds"],
    "assumptions": ["std BTreeSet replaced by the array-backed shim under cfg(kani) in from_base_and_set harnesses",
                    "codec / from_base_and_set harnesses stub Vec::with_capacity, Vec::push, vec![x; n] with concrete-capacity "
                    "versions (<= 96 / 16 / 9 elements): a length that travelled through serialised bytes is not a constant for CBMC",
                    "write(read(b)) == b is not checked by re-serialising (symbolic sizes): it follows from read(write(s)) == s "
                    "field by field and write_to being a function of those fields"],
    "trusted": ["/verif/shim/collections.rs (BTreeSet stand-in)", "/verif/env/mod.rs Vec stubs", "speedy 0.8.7 reader/writer collectors (encoded as is)"],
    "explanation": ("C14: the real speedy Writable/Readable impls of SequenceNumber, FragmentNumber, NumberSet, Heartbeat, Data, DataFrag, "
                    "ParameterList/Parameter (write side) and NumberSet::{iter, from_base_and_set}, Heartbeat::create_submessage, "
                    "Submessage::write_to."),
    "technique": "Kani/CBMC bounded symbolic model checking of the speedy Writable/Readable impls and hand-written decoders over a grid of concrete shapes with symbolic contents",
    "level_text": "SAT-solver verdict over all field values / bitmap words / payload and parameter bytes inside the stated shape grid.",
    "level_note": ("Trusted: Kani/CBMC/CaDiCaL, container shim, Vec stubs. OPEN FINDING: c14_datafrag_write_*_q1/_q2 fail on the unchanged tree "
                   "(DataFrag::write_to writes the Option tag byte 0x01 before the inline QoS)."),
}
