"""C18 (decision clause) — see DESIGN.md section 3."""
from common import *  # H

_p = ("security::access_control::access_control_builtin::"
      "domain_participant_permissions_document::verif_harness_c18_perm")
_MENU = ("patterns {\"*\",\"A*\",\"?b\",\"Ab\",\"[AB]b\"} x names {\"Ab\",\"Bb\",\"A\",\"Abc\"}")
_GLOB = "glob matching = fnmatch table proved by c18_glob_<pattern>_n<k> (stub asserts menu membership)"

PROP = {
    "title": "access exactly as permissions and governance say (decision clause)",
    "design_ref": "DESIGN.md section 3, C18",
    "features": ["security"],
    "memcmp_unwind": 40,            # derived equality of a 39-byte OID buffer inside DistinguishedName
    "cap": {"quick": 2, "thorough": 2},   # the plugin's handle maps hold one entry
    "shim_files": ["src/security/access_control/access_control_builtin.rs"],
    "inject": {
        "src/security/access_control/access_control_builtin/domain_participant_permissions_document.rs": ["c18_perm"],
    },
    "harnesses": [
        # (0) contract of the pattern matcher: real glob code
        H("c18_glob_star_n0", _p, "real glob::Pattern::new(\"*\").matches(\"Ab\") == POSIX fnmatch table entry", "one concrete pair"),
        H("c18_glob_star_n1", _p, "real glob::Pattern::new(\"*\").matches(\"Bb\") == POSIX fnmatch table entry", "one concrete pair"),
        H("c18_glob_star_n2", _p, "real glob::Pattern::new(\"*\").matches(\"A\") == POSIX fnmatch table entry", "one concrete pair"),
        H("c18_glob_star_n3", _p, "real glob::Pattern::new(\"*\").matches(\"Abc\") == POSIX fnmatch table entry", "one concrete pair"),
        H("c18_glob_prefix_n0", _p, "real glob::Pattern::new(\"A*\").matches(\"Ab\") == POSIX fnmatch table entry", "one concrete pair"),
        H("c18_glob_prefix_n1", _p, "real glob::Pattern::new(\"A*\").matches(\"Bb\") == POSIX fnmatch table entry", "one concrete pair"),
        H("c18_glob_prefix_n2", _p, "real glob::Pattern::new(\"A*\").matches(\"A\") == POSIX fnmatch table entry", "one concrete pair"),
        H("c18_glob_prefix_n3", _p, "real glob::Pattern::new(\"A*\").matches(\"Abc\") == POSIX fnmatch table entry", "one concrete pair"),
        H("c18_glob_qmark_n0", _p, "real glob::Pattern::new(\"?b\").matches(\"Ab\") == POSIX fnmatch table entry", "one concrete pair"),
        H("c18_glob_qmark_n1", _p, "real glob::Pattern::new(\"?b\").matches(\"Bb\") == POSIX fnmatch table entry", "one concrete pair"),
        H("c18_glob_qmark_n2", _p, "real glob::Pattern::new(\"?b\").matches(\"A\") == POSIX fnmatch table entry", "one concrete pair"),
        H("c18_glob_qmark_n3", _p, "real glob::Pattern::new(\"?b\").matches(\"Abc\") == POSIX fnmatch table entry", "one concrete pair"),
        H("c18_glob_literal_n0", _p, "real glob::Pattern::new(\"Ab\").matches(\"Ab\") == POSIX fnmatch table entry", "one concrete pair"),
        H("c18_glob_literal_n1", _p, "real glob::Pattern::new(\"Ab\").matches(\"Bb\") == POSIX fnmatch table entry", "one concrete pair"),
        H("c18_glob_literal_n2", _p, "real glob::Pattern::new(\"Ab\").matches(\"A\") == POSIX fnmatch table entry", "one concrete pair"),
        H("c18_glob_literal_n3", _p, "real glob::Pattern::new(\"Ab\").matches(\"Abc\") == POSIX fnmatch table entry", "one concrete pair"),
        H("c18_glob_class_n0", _p, "real glob::Pattern::new(\"[AB]b\").matches(\"Ab\") == POSIX fnmatch table entry", "one concrete pair"),
        H("c18_glob_class_n1", _p, "real glob::Pattern::new(\"[AB]b\").matches(\"Bb\") == POSIX fnmatch table entry", "one concrete pair"),
        H("c18_glob_class_n2", _p, "real glob::Pattern::new(\"[AB]b\").matches(\"A\") == POSIX fnmatch table entry", "one concrete pair"),
        H("c18_glob_class_n3", _p, "real glob::Pattern::new(\"[AB]b\").matches(\"Abc\") == POSIX fnmatch table entry", "one concrete pair"),
        # (1) domain ids
        H("c18_domain_ids_matches", _p,
          "DomainIds::matches == single value / inclusive range / open-ended range of the XML schema",
          "all 4 forms, bounds and queried id any u16 (inverted ranges included)"),
        H("c18_domain_ids_from_xml", _p,
          "DomainIds::from_xml(<id> | <id_range> with min and/or max) then matches == schema semantics; "
          "a range without any bound is rejected, everything else accepted",
          "any u16 values"),
        # (2) criterion / rule / grant
        H("c18_criterion_t1_p0_q0", _p, "Criterion::is_applicable == some topic expr matches AND every queried partition matched by some partition expr",
          "1 topic expr, 0 partition exprs, 0 queried partitions; " + _MENU + "; " + _GLOB),
        H("c18_criterion_t2_p0_q1", _p, "same", "2 topic exprs, 0 partition exprs, 1 queried partition"),
        H("c18_criterion_t1_p1_q1", _p, "same", "1 / 1 / 1"),
        H("c18_criterion_t2_p2_q0", _p, "same", "2 / 2 / 0"),
        H("c18_criterion_t2_p2_q2", _p, "same", "2 / 2 / 2"),
        H("c18_criterion_t1_p1_q2", _p, "same", "1 / 1 / 2"),
        H("c18_rule_is_applicable", _p,
          "Rule::is_applicable == domain set covers the id AND one criterion of the list of THIS action applies",
          "1 rule, 2 domain-id entries (any form, any u16), lists: 2 publish / 1 subscribe / 0 relay criteria with a concrete "
          "pattern assignment (topic + partition expr each), action / domain id / topic / 1 queried partition symbolic; " + _GLOB),
        H("c18_grant_check_action_r0", _p, "Grant::check_action with no rule == default", "0 rules"),
        H("c18_grant_check_action_r1_part", _p, "Grant::check_action == first applicable rule's verdict, else default",
          "1 rule x 3 actions x 1 criterion (topic + partition expr, concrete assignment), 1 queried partition; verdict/default/action/"
          "domain forms+bounds/queried id/topic/partition symbolic", tier="thorough", timeout=1200),
        H("c18_grant_check_action_r2_specific_then_general", _p,
          "Grant::check_action == FIRST applicable rule's verdict, else default",
          "2 rules x 3 actions x 1 criterion; rule 0 = {publish \"A*\", subscribe \"?b\", relay \"Ab\"}, rule 1 = \"*\" everywhere; "
          "verdicts, default, action, 2x2 domain-id entries (any form, any u16), queried id and topic symbolic; no partitions"),
        H("c18_grant_check_action_r2_overlapping", _p, "same, other pattern assignment",
          "rule 0 = {\"?b\", \"Ab\", \"A*\"}, rule 1 = {\"Ab\", \"A*\", \"?b\"}", tier="thorough", timeout=1200),
        # (3) grant selection
        H("c18_find_grant", _p,
          "find_grant returns the FIRST grant whose subject equals the queried subject and whose window contains now "
          "(not_before <= now < not_after); None iff there is none",
          "2 grants; subjects from {CN=a, CN=b} (real x509_cert values, real derived equality); window start/end and now "
          "each any of 5 concrete instants {S-1s, S, S+500s, S+1000s, S+1001s} (empty and inverted windows included)"),
        # (4) governance
        H("c18_governance_find_topic_rule", _p,
          "DomainRule::find_topic_rule returns the FIRST topic rule whose expression matches (identity and flags), None iff none",
          "2 topic rules, flags symbolic; " + _MENU + "; " + _GLOB),
        # (5) top level
        H("c18_entity_decision", _p,
          "check_create_datawriter/_datareader/_topic (== check_entity, also used verbatim by check_remote_datawriter/_topic): "
          "with a currently valid grant of the subject, allowed <=> governance-unprotected OR first applicable rule (else default) allows; "
          "without one, protected access is refused",
          "governance: 2 topic rules (flags symbolic); permissions: 1 grant (subject equal/different, window expired/valid/not-yet-valid) "
          "x 1 rule x {publish \"A*\", subscribe \"?b\"} x 1 criterion, 2 domain-id entries per rule any form/any u16; "
          "governance expressions \"Ab\", \"?b\"; verdicts, default, flags, entity kind, domain id, topic name symbolic; "
          "Utc::now stubbed to a fixed instant under Kani",
          tier="thorough", timeout=2400),   # NOT decided yet: > 500 s / 6 GB in the quick budget
        H("c18_entity_builtin_topics", _p,
          "the 11 builtin discovery/liveliness/key-exchange topics are allowed for every entity kind, handle and domain, with no documents loaded",
          "all 11 names"),
        H("c18_entity_unprotected_without_valid_grant", _p,
          "no currently valid grant but governance leaves the access unprotected => allowed",
          "same world as c18_entity_decision", tier="thorough", timeout=2400),  # expected to FAIL (suspected defect, reproduced natively by a hand-picked input)
    ],
    "bounds": {"grants": 2, "rules_per_grant": 2, "criteria_per_action": 2, "domain_id_entries_per_rule": 2,
               "patterns": 5, "names": 4, "instants": 5, "unwind": 7},
    "outside": [
        "signature clause: SignedDocument::verify_signature is OpenSSL / cms / X.509 through FFI (no body for the solver)",
        "XML parsing of both documents (serde_xml_rs) and the grant/rule element-order checks of from_xml; only DomainIds::from_xml is covered",
        "pattern strings and names outside the two menus; glob options other than the defaults",
        "data tags (always empty at every RustDDS call site: 'currently unsupported')",
        "queried partitions at the top level (every check_create_* / check_remote_* passes an empty partition list); "
        "consequently 'entity in the default partition vs. a criterion that lists partitions' is not exercised",
        "check_remote_datareader (own relay_only branch; needs a SubscriptionBuiltinTopicDataSecure value) and the extraction of the "
        "topic name from discovery data in check_remote_datawriter / check_remote_topic",
        "check_create_participant / check_remote_participant (join), token and attribute getters",
        "DistinguishedName values other than two single-attribute names; DistinguishedName::parse",
        "validity instants other than the menu (chrono calendar arithmetic on symbolic seconds)",
    ],
    "assumptions": [
        "the 5x4 fnmatch truth table in /verif/harness/c18_perm.rs is POSIX fnmatch(pattern, name, 0)",
        "composite harnesses replace glob::Pattern::matches by that table (assume-guarantee): sound for exactly the menu pairs, "
        "which c18_glob_<pattern>_n<k> decide on the real glob code; the stub asserts that it is never called outside the menus",
        "a grant is valid at now iff not_before <= now < not_after (std::ops::Range, as RustDDS stores it); the property text does not fix the boundary instant",
        "for a Topic entity 'unprotected' means read OR write access control disabled and 'granted' means publish OR subscribe allowed (DDS Security 1.1 table 63, check_create_topic)",
        "c18_entity_*: under Kani chrono::Utc::now is a fixed instant (2026-09-21); in native replay the real clock is used and the three windows "
        "(2000-2001, 2000-2100, 2100-2101) classify identically for any real date between 2001 and 2100",
        "HashMap<PermissionsHandle, _> of the plugin is the array shim under Kani (capacity 2, one entry used)",
    ],
    "explanation": "C18 decision clause: DomainIds / Criterion / Rule / Grant / find_grant / find_topic_rule / check_entity against independent references.",
    "technique": "Kani/CBMC bounded symbolic model checking of the real RustDDS access-control decision code (feature security), SAT verdict per harness",
    "level_text": ("Decision clause only. SAT-solver verdict over all permissions values inside the stated shape bounds "
                   "(<= 2 grants x <= 2 rules x <= 2 criteria, domain ids at full 16-bit width, verdicts/defaults/actions/entity kinds exhaustive), "
                   "with topic/partition expressions and names drawn from concrete menus; glob's matcher is decided separately on the same menus."),
    "level_note": ("Trusted: Kani/CBMC/CaDiCaL, the hand-written fnmatch table, the references in the harness file. "
                   "Not claimed: the signature clause of C18 (cryptography through FFI) and XML parsing."),
}
