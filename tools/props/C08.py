"""C08 — see DESIGN.md section 3."""
from common import *  # H, RTPS_SHIM_FILES, ENV_INJECT, ENV_STUBS

# ------------------------------------------------------------------------------- C08
_d = "dds::with_key::datasample_cache::verif_harness_dscache"
_p = "dds::with_key::datasample_cache::verif_harness_c08_plans"

# Every c08_plan_* harness runs ONE concrete operation sequence ("plan") on the real DataSampleCache and
# compares it after EVERY step with the reference model of DDS 1.4 2.2.2.5.1 in harness/c08_plans.rs:
_MODEL = (" [model after every step: selection == {available, in scope, matching the condition}; per returned sample: "
          "sample_state, instance_state (snapshot at the call), disposed_generation_count (snapshot at reception), "
          "no_writers_generation_count 0, payload/key, view_state of the most recent sample of its instance "
          "(never accessed since (re)birth => NEW; a sample of the current generation already accessed => NOT_NEW), "
          "per-writer sequence-number order, no sample twice; take removes exactly the returned samples, read removes "
          "nothing and flips NotRead->Read; after every arrival: nothing taken/evicted reappears, the new change is "
          "available, KeepAll evicts nothing, KeepLast(depth): <= depth samples of the instance available and each of "
          "them among the depth most recent changes of the instance]")
_SYM = "Value/Dispose of EVERY arrival and every payload byte symbolic (all 2^n histories of the plan); kinds/order/keys/writers/SNs/max_samples/conditions concrete"

PROP = {
    "title": "read/take: sample, view, instance state, generations, History depth",
    "design_ref": "DESIGN.md section 3, C08",
    "inject": {"src/dds/with_key/datasample_cache.rs": ["dscache", "c08_plans"]},
    "shim_files": ["src/dds/with_key/datasample_cache.rs", "src/dds/with_key/datareader.rs"],
    "cap": {"quick": 4, "thorough": 4},
    # a selection (Vec<(Timestamp, key)>) and a result (Vec<DataSample>) are heap objects of 200-2000 bytes; with CBMC's
    # default limit (64) everything read back from them looks symbolic and a SECOND access on the cache runs out of memory
    "cbmc_args": ["--max-field-sensitivity-array-size", "4096"],
    "harnesses": [
        # ---------------------------------------------------------------- single steps (straight-line assertions)
        H("c08_single_value_take", _d,
          "KeepLast(1), one Value for a symbolic key in {0,1}: select(any)+take returns exactly it with "
          "NotRead/New/Alive, generation counts 0, writer/SN/payload intact; a second take returns nothing",
          "1 arrival, key in {0,1}, any payload byte"),
        H("c08_single_sample_life_k0", _d,
          "one arrival (Value or Dispose, any payload): read(any) -> NotRead/New, instance_state Alive resp. "
          "NotAliveDisposed, counts 0, nothing removed; not_read then selects nothing; read(any) -> Read/NotNew; "
          "take -> Read/NotNew, payload intact, sample removed; afterwards nothing is selected",
          "1 arrival on key 0, 6 selections, 3 accesses"),
        H("c08_depth_keeplast1", _d,
          "two arrivals (each Value or Dispose) on one instance, KeepLast(1): at most 1 sample available and never the older one",
          "2 arrivals, key 0"),
        H("c08_depth_unset", _d, "same with no History policy in the QoS (default = KeepLast(1))", "2 arrivals, key 0"),
        H("c08_depth_keeplast2", _d,
          "three arrivals on one instance, KeepLast(2): at most 2 available after every arrival, the oldest gone; cover: 2 remain",
          "3 arrivals, key 0"),
        H("c08_rebirth_generations", _d,
          "(Dispose|Value) then Value on one instance, KeepAll: take(any) returns both in sequence-number order, "
          "instance_state Alive on both (snapshot at the call), disposed_generation_count 0 then 1 iff the first "
          "was a Dispose, no_writers count 0, most recent sample New, both NotRead, both removed",
          "2 arrivals, key 0, one writer"),
        # ---------------------------------------------------------------- multi-step plans against the model, quick
        H("c08_plan_3arr_read_read", _p,
          "(a) KeepAll, one instance: A A A, read(any) [three samples, up to two generations, in ONE result], read(any) again "
          "[all Read, most recent NotNew]; witness: value,dispose,value" + _MODEL, "3 arrivals, 2 accesses; " + _SYM),
        H("c08_plan_3arr_take_arr_read", _p,
          "(a) KeepAll: A A A, take(any) all three, one more arrival, read: NEW again iff that arrival was a rebirth, else NOT_NEW; "
          "taken samples never come back", "4 arrivals, 2 accesses; " + _SYM),
        H("c08_plan_read_arr_read", _p,
          "(a)/(e) KeepAll: A A, read, A A, read(not_read) returns exactly the two new ones (newest NEW iff reborn since the read), "
          "read(any) returns all four Read/NotNew; witness: two rebirths", "4 arrivals, 3 accesses; " + _SYM, tier="thorough", timeout=2400),
        H("c08_plan_two_writers_crossed", _p,
          "(b) KeepAll, two writers on one instance, arrival order W1:sn5 W2:sn1 W1:sn6 W2:sn2 (result order differs from arrival "
          "order): read all, take all; per-writer SN order, generation counts by ARRIVAL order, most recent = last received",
          "4 arrivals, 2 accesses; " + _SYM),
        H("c08_plan_kl2_refill", _p,
          "(c) KeepLast(2): A A, take both, A A A without taking, read [exactly the 2 newest], take",
          "5 arrivals, 3 accesses; " + _SYM),
        H("c08_plan_kl2_partial", _p,
          "(c) KeepLast(2): A A, take(max_samples=1), A A A, read [the untaken old one evicted, the 2 newest remain], take",
          "5 arrivals, 3 accesses; " + _SYM),
        H("c08_plan_kl1_partial", _p, "(c) KeepLast(1): A A, take(max_samples=1), A A, read, take", "4 arrivals, 3 accesses; " + _SYM),
        H("c08_plan_unset_refill", _p, "(c) no History in the QoS (= KeepLast(1)): A, take, A A, read [the newest], take",
          "3 arrivals, 3 accesses; " + _SYM, tier="thorough", timeout=2400),
        H("c08_plan_kl2_two_instances", _p,
          "(d) KeepLast(2), keys 0 and 1: k0 k1 k0, take_instance(This 0), k0 k0 k0, read over both instances, "
          "take_instance(Next 0) = key 1 [NotNew: viewed by the read], read_instance(This 0) [skips the stale index entries], "
          "read_instance(Next 1) = nothing", "6 arrivals, 5 accesses, <= 4 live samples; " + _SYM),
        H("c08_plan_not_read_after_partial", _p,
          "(e) KeepAll: A A, read(max_samples=1), read(not_read) returns exactly the other one, read(not_read) nothing, read(any) both Read",
          "2 arrivals, 4 accesses; " + _SYM),
        # ---------------------------------------------------------------- GENUINE FINDING (fails on the unchanged tree)
        H("c08_finding_view_state_backwards_take", _p,
          "FINDING: value, dispose, value (KeepAll, one writer); read(any) [generation 1 accessed]; take(max_samples=1) returns only the "
          "generation-0 sample; read(any): the most recent sample is reported NEW again although its generation was already "
          "accessed and the instance was not reborn (mark_instances_viewed overwrites last_generation_accessed with the "
          "OLDER generation of the last access)", "3 arrivals, 3 accesses, concrete kinds", expect="fail"),
        # ---------------------------------------------------------------- thorough
        H("c08_plan_4arr_read_read", _p, "(a) KeepAll: A A A A, read, read; witness: dispose,value,dispose,value = generations 0,1,1,2",
          "4 arrivals, 2 accesses; " + _SYM, tier="thorough", timeout=2400),
        H("c08_plan_3arr_read_take_read", _p,
          "(a) KeepAll: A A A, read(max 2), take(not_read) [removes exactly the third], read [two Read ones], take",
          "3 arrivals, 4 accesses; " + _SYM, tier="thorough", timeout=2400),
        H("c08_plan_two_writers_take", _p, "(b) KeepAll: W1:V(1) W2:V(1) W1:D(2) W2:V(2), take: all four in one result",
          "4 arrivals (concrete kinds), 1 access", tier="thorough", timeout=2400),
        H("c08_plan_kl1_refill", _p, "(c) KeepLast(1): A, take, A A, read, take", "3 arrivals, 3 accesses; " + _SYM, tier="thorough", timeout=2400),
        H("c08_plan_unset_partial", _p, "(c) default History: A A, take(max 1), A A, read, take", "4 arrivals, 3 accesses; " + _SYM,
          tier="thorough", timeout=2400),
        H("c08_plan_kl2_read_arr_notread", _p,
          "(c) KeepLast(2): A A, read, A [evicts a READ sample], read(not_read), A, take(not_read) [only the unread one], read",
          "4 arrivals, 4 accesses; " + _SYM, tier="thorough", timeout=2400),
        H("c08_plan_kl3_refill", _p, "(c) KeepLast(3): A A A, take(max 2), A A A A, read [the 3 newest], take; witness: three rebirths",
          "7 arrivals, 3 accesses; " + _SYM, tier="thorough", timeout=2400),
        H("c08_plan_two_instances_read_read", _p,
          "(d) KeepAll: k0 k1 k0 k1, read [two instances x two samples in one result], read_instance(Next 0), take all: both instances NotNew",
          "4 arrivals, 3 accesses; " + _SYM, tier="thorough", timeout=2400),
        H("c08_plan_3arr_read_take_symmax", _p, "KeepAll: A A A, read, take(max_samples SYMBOLIC in 0..=3)",
          "3 arrivals, 2 accesses; " + _SYM + " except max_samples of the take", tier="thorough", timeout=2400),
        H("c08_plan_kl2_take_symmax_refill", _p, "KeepLast(2): A A, take(max_samples SYMBOLIC in 0..=4), A A",
          "4 arrivals, 1 access; " + _SYM + " except max_samples of the take", tier="thorough", timeout=2400),
        H("c08_obs_over_eviction_after_take", _p,
          "OBSERVATION (passes; the property text only bounds from above): KeepLast(2): A A, read(max 1), take(not_read) [takes the NEWER one], A: "
          "the stale instance_samples entry of the taken sample makes the arrival evict the untaken older sample - 1 of 2 untaken "
          "changes available although depth = 2 (cover witness)", "3 arrivals, 3 accesses; " + _SYM, tier="thorough", timeout=2400),
        H("c08_finding_view_state_backwards_read", _p,
          "FINDING (same defect, read only): value, dispose, value; read(any); read(max_samples=1); read(any): most recent sample NEW again",
          "3 arrivals, 3 accesses, concrete kinds", tier="thorough", timeout=2400, expect="fail"),
        H("c08_finding_view_state_backwards_next_sample_loop", _p,
          "FINDING (same defect, the documented `while let Some(s) = read_next_sample()` loop, two writers): W1:V(sn5) W2:D(sn1) W2:V(sn2); "
          "three read(max 1, not_read); read(any): most recent sample NEW again", "3 arrivals, 4 accesses, concrete kinds",
          tier="thorough", timeout=2400, expect="fail"),
        H("c08_not_read_after_read", _d,
          "read, second arrival, not_read selects exactly the unread sample; New iff reborn; read(any) returns both Read",
          "2 arrivals, key 0", tier="thorough", timeout=2400),
        H("c08_two_instances", _d,
          "default History, keys 0 and 1: Next/This selection, read_instance(1), not_read over all, take all: per-instance "
          "instance_state / view_state / sample_state", "2 arrivals, 4 selections", tier="thorough", timeout=2400),
    ],
    "bounds": {"CAP": "4 live entries per map/set (samples in the cache, index entries of an instance incl. stale ones, instances)",
               "unwind": "6-8 (= arrival slots + 1)", "instances": "1 (key 0), 2 in the *_two_instances plans",
               "writers": "1, 2 in the *_two_writers plans",
               "operations": "21 concrete plans (8 quick, 13 thorough) + 3 finding plans of 3-7 arrivals and 1-5 accesses (read/take/read_instance/take_instance This|Next, "
                             "condition any|not_read, max_samples 1|2|all); per plan symbolic: Value/Dispose of every arrival, payload bytes"},
    "outside": [
        "symbolic operation KINDS / orders / keys / writers / sequence numbers and symbolic read conditions: one symbolic condition on a "
        "3-sample cache exceeds 6 GB (the selection gets a symbolic length); symbolic max_samples only in the two *_symmax plans (thorough)",
        "symbolic keys over a whole life cycle and symbolic sequence numbers across two writers (c08_single_sample_life_symkey, "
        "c08_finding_view_state_backwards_symsn in harness/dscache.rs: > 7 GB, not listed)",
        "histories longer than 7 arrivals or with more than 4 live samples; more than 2 instances / 2 writers; KeepLast(depth > 3)",
        "iterators (read_bare_by_keys / take_bare_by_keys), view/instance-state masks of a ReadCondition (only any / not_read are used)",
        "sample_rank / generation_rank / absolute_generation_rank (not named in the property text; by reading, RustDDS computes "
        "them over the whole result, not per instance)",
        "NotAliveNoWriters transitions (never produced by RustDDS), DataReader glue above the cache (truncate(max_samples) is emulated by slicing the selection)",
        "view_state of samples other than the most recent one of an instance, and of the most recent one when only OLDER generations were "
        "accessed since the rebirth (the two readings of 2.2.2.5.1.8 differ there; the model asserts only where they agree)",
        "LOWER bounds on availability under KeepLast: evicting more than necessary is not flagged (see c08_obs_over_eviction_after_take)",
    ],
    "assumptions": [
        "std BTreeMap/BTreeSet/HashMap replaced by the array-backed shim under cfg(kani) (validated by SELFTEST; counterexamples replayed on std containers)",
        "DataSampleCache::sort_by_sequence_number (one std sort_by_cached_key call keyed by the stored sequence number) is replaced under Kani "
        "by a stable bubble sort with the same key expression (std's routine is intractable on symbolic-length slices and Kani cannot stub the generic slice method); the real one runs in native replay",
        "Vec::push / Vec::with_capacity / VecDeque::with_capacity allocate a concrete capacity (16 / 16 / 8 elements); more elements are outside the bound",
        "receive timestamps concrete and strictly increasing (the cache documents that it needs unique timestamps)",
    ],
    "trusted": ["/verif/shim/collections.rs (BTreeMap/BTreeSet/HashMap stand-in)", "verif_env::stub_vec_push / stub_vec_with_capacity",
                "the reference model of DDS 1.4 2.2.2.5.1 in /verif/harness/c08_plans.rs (about 150 lines)"],
    "explanation": "C08: DataSampleCache driven through the calls with_key::DataReader makes (add_sample; select_keys_for_access / "
                   "select_instance_keys_for_access + truncate + read_by_keys / take_by_keys), compared step by step with a reference model of DDS 1.4 2.2.2.5.1.",
    "technique": "Kani/CBMC bounded symbolic model checking of multi-step DataSampleCache histories (concrete operation plans; symbolic Value/Dispose of every arrival and payload)",
    "level_text": "SAT-solver verdict over all Value/Dispose assignments and payloads of each listed plan; the plans are a concrete-kind subset of the quantifier (see outside).",
    "level_note": "Trusted: Kani/CBMC/CaDiCaL, the container shim, the Vec/sort stand-ins listed under assumptions, the reference model.",
}
