"""C08 — see DESIGN.md section 3."""
from common import *  # H, RTPS_SHIM_FILES, ENV_INJECT, ENV_STUBS

# ------------------------------------------------------------------------------- C08
_d = "dds::with_key::datasample_cache::verif_harness_dscache"
PROP = {
    "title": "read/take: sample, view, instance state, generations, History depth",
    "design_ref": "DESIGN.md section 3, C08",
    "inject": {"src/dds/with_key/datasample_cache.rs": ["dscache"]},
    "shim_files": ["src/dds/with_key/datasample_cache.rs", "src/dds/with_key/datareader.rs"],
    "cap": {"quick": 4, "thorough": 4},
    "harnesses": [
        H("c08_single_value_take", _d,
          "KeepLast(1), one Value for a symbolic key in {0,1}: select(any)+take returns exactly it with "
          "NotRead/New/Alive, generation counts 0, writer/SN/payload intact; a second take returns nothing",
          "1 arrival, key in {0,1}, any payload byte"),
        H("c08_single_sample_life_k0", _d,
          "one arrival (Value or Dispose, any payload): read(any) -> NotRead/New, instance_state Alive resp. "
          "NotAliveDisposed, counts 0, nothing removed; not_read then selects nothing; read(any) -> Read/NotNew; "
          "take -> Read/NotNew, payload intact, sample removed; afterwards nothing is selected",
          "1 arrival on key 0, 6 selections, 3 accesses"),
        H("c08_depth_keeplast1", _d,
          "two arrivals (each Value or Dispose) on one instance, KeepLast(1): at most 1 sample available and never the older one",
          "2 arrivals, key 0"),
        H("c08_depth_unset", _d, "same with no History policy in the QoS (default = KeepLast(1))", "2 arrivals, key 0"),
        H("c08_depth_keeplast2", _d,
          "three arrivals on one instance, KeepLast(2): at most 2 available after every arrival, the oldest gone; cover: 2 remain",
          "3 arrivals, key 0"),
        H("c08_rebirth_generations", _d,
          "(Dispose|Value) then Value on one instance, KeepAll: take(any) returns both in sequence-number order, "
          "instance_state Alive on both (snapshot at the call), disposed_generation_count 0 then 1 iff the first "
          "was a Dispose, no_writers count 0, most recent sample New, both NotRead, both removed",
          "2 arrivals, key 0, one writer"),
        # ---- not decided inside my time box (symbolic execution > 5-7 min on the loaded machine)
        H("c08_single_sample_life_symkey", _d, "c08_single_sample_life with a symbolic key in {0,1}",
          "1 arrival", tier="thorough", timeout=2400),
        H("c08_not_read_after_read", _d,
          "read, second arrival, not_read selects exactly the unread sample; New iff reborn; read(any) returns both Read",
          "2 arrivals, key 0", tier="thorough", timeout=2400),
        H("c08_next_sample_loop_view_state", _d,
          "W1 value (SN s in 1..20), W2 dispose SN 1, W2 value SN 2 on one instance, KeepAll; three read_next_sample "
          "(= read(1, not_read)), then read(any): the most recent sample must be NotNew (SUSPECTED to fail for s > 2, see report)",
          "3 arrivals, 4 reads", tier="thorough", timeout=2400),
    ],
    "bounds": {"CAP": "4 live map entries", "unwind": 6, "instances": "1 (key 0) except c08_single_value_take (key in {0,1})",
               "operations": "concrete operation kinds per harness; symbolic: Value/Dispose of every arrival, payload"},
    "outside": [
        "symbolic operation KINDS / interleavings, symbolic keys over >= 2 arrivals, two writers with symbolic sequence-number "
        "order: the model-driven harnesses for these (run_plan / c08_plan_* in harness/dscache.rs, reference model of DDS 1.4 "
        "2.2.2.5.1 included) exceed 8 GB or 7 min of symbolic execution already for two arrivals + one access",
        "read_instance/take_instance, iterators (read_bare_by_keys/take_bare_by_keys), max_samples truncation: harnesses written "
        "(c08_two_instances, c08_next_sample_loop_view_state) but not decided in the quick tier",
        "sample_rank / generation_rank / absolute_generation_rank (not named in the property text; by reading, RustDDS computes "
        "them over the whole result, not per instance)",
        "NotAliveNoWriters transitions (never produced by RustDDS), DataReader glue above the cache",
    ],
    "assumptions": [
        "std BTreeMap/BTreeSet/HashMap replaced by the array-backed shim under cfg(kani) (validated by SELFTEST; counterexamples replayed on std containers)",
        "DataSampleCache::sort_by_sequence_number (one std sort_by_cached_key call keyed by the stored sequence number) is replaced under Kani "
        "by a stable bubble sort with the same key expression (std's routine is intractable on symbolic-length slices and Kani cannot stub the generic slice method); the real one runs in native replay",
        "Vec::push / Vec::with_capacity / VecDeque::with_capacity allocate a concrete capacity (16 / 16 / 8 elements); more elements are outside the bound",
        "receive timestamps concrete and strictly increasing (the cache documents that it needs unique timestamps)",
    ],
    "trusted": ["/verif/shim/collections.rs (BTreeMap/BTreeSet/HashMap stand-in)", "verif_env::stub_vec_push / stub_vec_with_capacity"],
    "explanation": "C08: DataSampleCache driven through the calls with_key::DataReader makes, against DDS 1.4 2.2.2.5.1.",
    "technique": "Kani/CBMC bounded symbolic model checking of short DataSampleCache scenarios (concrete operation kinds, symbolic Value/Dispose and payload)",
    "level_text": "SAT-solver verdict over the symbolic parameters of each listed scenario; the scenarios are a small concrete-kind subset of the quantifier (see outside).",
    "level_note": "Trusted: Kani/CBMC/CaDiCaL, the container shim, the Vec/sort stand-ins listed under assumptions.",
}
