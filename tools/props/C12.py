"""C12 — see DESIGN.md section 3."""
from common import *  # H, RTPS_SHIM_FILES, ENV_INJECT, ENV_STUBS
import copy
from mr_harnesses import MR_INJECT, MR_HARNESSES_C12, MR_ASSUMPTIONS

# SPDP liveness plumbing in the real MessageReceiver (harness/mr.rs): three instances in the quick tier
_MR_QUICK = {"c12_mr_liveness_unknown_reader", "c12_mr_liveness_duplicate_unknown_reader", "c12_mr_liveness_other_writer_explicit"}
_MR = copy.deepcopy(MR_HARNESSES_C12)
for _h in _MR:
    _h["tier"] = "quick" if _h["name"] in _MR_QUICK else "thorough"

# ------------------------------------------------------------------------------- C12
_l = "discovery::discovery_db::verif_harness_lease"
_LEASE = "lease absent (-> 60 s) or ANY 64-bit Duration_t (0, sub-second, negative, INFINITE)"
_FAM = ("whole seconds free (< 2^31), sub-second part from the family (the 62-bit/10^9 division "
        "inside from_std is undecidable in practice with all 30 nanosecond bits free: measured "
        "> 300 s on CaDiCaL, Kissat, Z3, cvc5)")
PROP = {
    "title": "a silent participant is dropped after its lease, a live one never",
    "design_ref": "DESIGN.md section 3, C12",
    "inject": dict(MR_INJECT, **{"src/discovery/discovery_db.rs": ["lease", "c11_db"]}),
    "shim_files": RTPS_SHIM_FILES + ["src/structure/sequence_number.rs", "src/rtps/message.rs"],
    # <= 2 live entries per DiscoveryDB map (1-2 participants, 1 reader + 1 writer each)
    "cap": {"quick": 2, "thorough": 2},
    "harnesses": [
        H("c11_db_attic_roundtrip_one", "discovery::discovery_db::verif_harness_c11_db", "(shared with C11) reappearance: a participant with one reader and one writer times out (remove_participant(p, false)): both endpoints leave the per-topic query results and become exactly the attic's content; the next announcement is reported as new and restores exactly them, leaving the attic empty", "concrete scenario, one participant", timeout=900),
        # ---- scalar layer: the real Duration arithmetic participant_cleanup relies on
        H("c12_duration_order_is_tick_order", _l,
          "Ord of Duration == order of tick counts; lease + TOLERANCE(0) == lease (also INFINITE); default == 60 s; nothing exceeds INFINITE",
          "both operands any 64-bit Duration_t"),
        H("c12_from_std_seconds", _l,
          "from_std keeps whole seconds exactly and yields a non-negative Duration for every span < 2^31 s; cover: 2^31 s wraps negative (`as i32`, outside the bound)",
          "seconds any u64, all 30 nanosecond bits free"),
        H("c12_from_std_grid512", _l, "fraction == floor(n*2^32/10^9): f*10^9 <= n*2^32 < (f+1)*10^9; multiples of 1/512 s exact",
          "n = k/512 s, k < 512; " + _FAM),
        H("c12_from_std_low_ns", _l, "same floor property (rounds down by < 1 tick = 2^-32 s)", "n = k ns, k < 4096"),
        H("c12_from_std_high_ns", _l, "same floor property", "n = 999_999_999 - k ns, k < 4096"),
        H("c12_from_std_millis", _l, "same floor property", "n = k ms, k < 1000"),
        H("c12_from_std_micros", _l, "same floor property", "n = 1000*k ns, k < 4096"),
        # ---- DiscoveryDB layer, real from_std in the loop
        H("c12_cleanup_single_grid512", _l,
          "one participant, life sign `elapsed` ago, participant_cleanup(): reported lost <=> ticks(elapsed) > ticks(lease) "
          "(ticks = s*2^32 + floor(n*2^32/10^9), independent transcription); INFINITE never; reported lease/elapsed are the real ones; "
          "participant known <=> not reported",
          _LEASE + "; elapsed < 2^31 s, sub-second part k/512 s"),
        H("c12_cleanup_single_low_ns", _l, "same", _LEASE + "; elapsed = s + k ns, k < 4096"),
        H("c12_cleanup_single_high_ns", _l, "same", _LEASE + "; elapsed = s + 1 s - (k+1) ns, k < 4096"),
        H("c12_cleanup_single_millis", _l, "same", _LEASE + "; elapsed = s + k ms", tier="thorough"),
        H("c12_life_sign_resets_lease_grid512", _l,
          "announcement at 0, ONE life sign (SPDP re-announcement | liveliness assertion, symbolic) at free t1, clean-up at t1+silence: "
          "lost <=> ticks(silence) > ticks(lease) — the lease runs from the LAST sign; re-announcement of a known participant is not 'new'",
          _LEASE + "; t1, silence on the 1/512 s grid, t1+silence < 2^31 s; real from_std"),
        # ---- DiscoveryDB layer, all instants free at 1 ns, from_std uninterpreted
        H("c12_life_sign_resets_lease_ns", _l,
          "same schedule with t1 and silence free at NANOSECOND resolution; Duration::from_std replaced by an uninterpreted function "
          "(records its argument, returns ANY tick count): the measured silence passed to from_std is exactly now - LAST life sign, "
          "from_std is asked exactly once, lost <=> returned ticks > ticks(lease)",
          _LEASE + "; t1, silence any (s < 2^31, n < 10^9), t1+silence < 2^31 s"),
        H("c12_liveliness_resets_lease_ns", _l, "same, life sign is always the liveliness assertion (participant_is_alive)", "same", tier="thorough"),
        # ---- dispose / endpoints
        H("c12_dispose_is_immediate", _l,
          "remove_participant(p, true) at any instant, any lease: participant unknown, per-topic queries return none of its endpoints, "
          "nothing in the attic, clean-up does not report it, a later announcement is NEW and does not bring the endpoints back",
          _LEASE + "; instants free at 1 ns; 1 reader + 1 writer"),
        H("c12_timeout_attic_roundtrip_reader", _l,
          "participant with lease 1 s and one reader, clean-up at 2.5 s: reported, reader leaves the matched set into the attic; "
          "re-announcement at 3 s: reported NEW, readers_on_topic_and_participant returns the reader again, attic empty",
          "CONCRETE instants and lease (the verdict for all timings is c12_cleanup_single_*/c12_life_sign_*)", tier="thorough", timeout=1800),
        H("c12_timeout_unmatches_reappearance_restores", _l,
          "same with reader + writer, restored data compared field by field with what was learned",
          "concrete instants", tier="thorough", timeout=2400),
        H("c12_timeout_unmatches_only_the_lost_participant", _l,
          "two participants (leases 1 s / 10 s): exactly the silent one is reported and exactly its endpoints leave the query results",
          "concrete instants", tier="thorough", timeout=2400),
    ] + _MR,
    "bounds": {"unwind": 3, "CAP": "2 live entries per DiscoveryDB map",
               "time": "instants within 2^31 s of the first one, 1 ns resolution (uninterpreted from_std) or sub-second families (real from_std)",
               "lease": "absent or any 64-bit Duration_t",
               "participants": "1 (2 in the thorough endpoint harness)", "life signs per schedule": 1},
    "outside": [
        "silence >= 2^31 s (68 years): `as_secs() as i32` in from_std wraps negative, such a participant would never expire (witnessed by a cover in c12_from_std_seconds, outside the stated bound)",
        "sub-second values outside the five families when the REAL from_std is in the loop (covered at 1 ns only with from_std uninterpreted)",
        "the discovery thread's timers and the receiving end of the spdp_liveness channel in discovery.rs (threads); the SENDING end in MessageReceiver::handle_writer_submessage is decided (c12_mr_liveness_*)",
        "a dispose arriving for a participant that already timed out (its endpoints stay in the attic and come back on reappearance — not asserted either way)",
        "quick tier: the endpoint half of the TIME-OUT path (attic move / restore) — the harnesses exist (thorough) but did not finish within 300-400 s on this box; the dispose path is decided",
    ],
    "assumptions": [
        "stub: std::time::Instant::now -> fixed base + offset controlled by the harness (symbolic, non-decreasing)",
        "stub (c12_*_ns only): Duration::from_std -> uninterpreted function returning any i64 tick count and recording its argument; the real function is decided by c12_from_std_*",
        "stub: mio_source::make_poll_channel / PollEventSender::send / PollEventSource::drain, std::fmt::format (environment)",
        "native replay has no clock stub: the schedule is reproduced by back-dating DiscoveryDB::participant_last_life_signs; the real clock adds some 100 ns, so a counterexample exactly on the lease boundary may not reproduce (would be UNDECIDED, never a false VIOLATION)",
        "endpoints 'already learned' are inserted into external_topic_readers/writers directly (where update_subscription/update_publication put them)",
    ] + [a for a in MR_ASSUMPTIONS if a not in ENV_STUBS],
    "trusted": ["/verif/shim/collections.rs (BTreeMap stand-in)", "/verif/harness/env_mio.rs (poll channel stand-in)"],
    "explanation": ("C12: DiscoveryDB::{participant_cleanup, participant_is_alive, update_participant, remove_participant} and "
                    "Duration::{from_std, Ord, Add} with the clock as a symbolic variable; MessageReceiver::handle_submessage -> handle_writer_submessage for the SPDP liveness signal (every SPDP DATA, also a repeated one and one addressed to ENTITYID_UNKNOWN, is a sign of life carrying the source prefix; DATA of other writers is not). Tolerance, decided: the comparison is made in RTPS ticks and "
                    "from_std rounds DOWN by less than one tick, so dropped => silence > lease, kept => silence < lease + 2^-32 s (0.233 ns)."),
    "technique": "Kani/CBMC bounded symbolic model checking of the real DiscoveryDB with Instant::now stubbed by a symbolic clock, and of the real MessageReceiver (handle_submessage) for the SPDP liveness signal",
    "level_text": ("SAT-solver verdict over all lease values (full 64-bit width) and all instants inside the stated time bound; "
                   "composition by hand of (a) verdict == tick comparison [DB harnesses] and (b) ticks == floor(elapsed * 2^32) [from_std harnesses]."),
    "level_note": ("Trusted: Kani/CBMC/CaDiCaL, the container shim, the clock stub. The division inside from_std is decided on five sub-second "
                   "families (<= 12 free bits) because the full 30-bit case is out of reach of every available solver."),
}
