"""C11 — see DESIGN.md section 3."""
from common import *  # H, RTPS_SHIM_FILES, ENV_INJECT, ENV_STUBS

_rd = "rtps::reader::verif_harness_c11_reader"
_wr = "rtps::writer::verif_harness_c11_writer"
_db = "discovery::discovery_db::verif_harness_c11_db"

_WORLD = ("2 remote participants x 2 endpoints (4 concrete GUIDs), each endpoint with a fixed QoS class "
          "(compatible | incompatible: Reliable requested vs BestEffort offered); event menu: 0-3 announce/re-announce endpoint i "
          "(fresh proxy + its QoS), 4-7 dispose endpoint i, 8/9 participant 1/2 lost; found again = announced again")
_ORACLE = ("after EVERY event, against an independent bitmask ghost: the private matched map holds exactly {announced, compatible, participant not lost} "
           "(contains_key for each of the 4 GUIDs and len()); the status events emitted by that event are exactly one Matched event per endpoint whose "
           "membership changed (naming that endpoint, no duplicates) with current.count_change = +1/-1, current.count = |set| (for the two unmatches of "
           "one participant loss: each intermediate size once, in any order, the minimum is the final size), total.count = number of matches ever made "
           "(+1 with change +1 on additions, unchanged with change 0 on removals); re-announcement of a matched endpoint, dispose/loss of an unknown one "
           "and a second participant loss emit nothing; an incompatible endpoint emits one IncompatibleQos event (count +1, change 1, last_policy_id "
           "Reliability, naming it) and no match; participant loss removes both endpoints of that participant and nobody else's")
_L0 = "prefix layout 0: participants differ in the FIRST prefix byte"
_L1 = ("prefix layout 1: participants differ only in the LAST prefix byte and are adjacent (..0x10 / ..0x11), endpoints at both ends of the "
       "entity-id space (key 000000 / FFFFFF): the bounds GuidPrefix::range() builds from EntityId::MIN/MAX touch")
_L2 = "prefix layout 2: participants differ in a middle byte, last byte 0xFF / 0x00, endpoints at both ends of the entity-id space"


def _side(mod, s, ent):
    R = "real Reader" if s == "reader" else "real Writer"
    return [
        H(f"c11_{s}_k2_announce_dispose", mod,
          f"{R}, fresh; 2 events chosen symbolically from {{announce {ent}0, announce {ent}1, announce {ent}3 (incompatible), dispose {ent}0}}: " + _ORACLE,
          "k=2, 4-event menu, " + _L0 + f"; {ent}3 incompatible", timeout=900),
        H(f"c11_{s}_k1_full_menu", mod,
          f"{R} after the concrete prefix 'all four announced' (3 matched, {ent}3 incompatible); 1 event chosen symbolically from the FULL 10-event menu: same oracle",
          "k=1 after a 4-event concrete prefix (the oracle runs after each prefix event too), " + _L1, timeout=900),
        H(f"c11_{s}_k1_after_loss", mod,
          f"{R} after the concrete prefix 'all four announced (all compatible), participant 1 lost'; 1 event chosen symbolically from the FULL menu "
          "(rediscovery = re-announcement after loss, second loss, loss of the other participant, ...): same oracle",
          "k=1 after a 5-event concrete prefix, " + _L2, timeout=900),
        H(f"c11_{s}_k2_participant_loss_adjacent", mod,
          f"{R} after 'all four announced (all compatible)'; 2 events chosen symbolically from {{participant 1 lost, participant 2 lost, announce {ent}1, dispose {ent}2}}: same oracle",
          "k=2, 4-event menu, " + _L1 + "; measured: exceeds an 8 GB memory cap after ~640 s (UNDECIDED under VERIF_MEM_MB=8000; run the thorough tier with the default 14 GB cap)", tier="thorough", timeout=2400),
        H(f"c11_{s}_k2_full_menu", mod, "fresh; 2 symbolic events from the FULL 10-event menu", "k=2, " + _L0 + " (reader side measured ~400 s / 7.5 GB on a loaded box; needs a memory cap above 8 GB)",
          tier="thorough", timeout=3000),
    ]


PROP = {
    "title": "matched sets and status counts follow discovery",
    "design_ref": "DESIGN.md section 3, C11",
    "inject": dict(ENV_INJECT, **{"src/rtps/reader.rs": ["reader", "c11_reader"],
                                  "src/rtps/writer.rs": ["writer", "c11_writer"],
                                  "src/rtps/rtps_writer_proxy.rs": ["wproxy"],
                                  "src/structure/sequence_number.rs": ["seqnum"],
                                  "src/discovery/discovery_db.rs": ["lease", "c11_db"]}),
    "shim_files": RTPS_SHIM_FILES + ["src/structure/sequence_number.rs", "src/rtps/message.rs"],
    # 4 remote endpoints -> at most 4 live entries in matched_writers / readers
    "cap": {"quick": 4, "thorough": 4},
    "sn_window": {"quick": 4, "thorough": 5},
    "thorough_timeout": 3000,
    "harnesses": _side(_rd, "reader", "W") + _side(_wr, "writer", "R") + [
        # ---- DiscoveryDB half
        H("c11_db_dispose_endpoints_p1", _db,
          "real DiscoveryDB, 2 participants with 1 reader + 1 writer each; participant 1 loses its writer by remove_topic_writer, then its reader by "
          "remove_topic_reader: readers/writers_on_topic_and_participant return exactly the remaining endpoints after each step, nothing of participant 2 "
          "changes, nothing goes to the attic",
          "CONCRETE scenario; endpoints inserted where update_publication/update_subscription put them", tier="thorough", timeout=2400),
        H("c11_db_dispose_participant_p2", _db,
          "same world; participant 2 loses its writer, then is disposed as a whole (remove_participant(p2, true)): its endpoints are deleted (not in the attic), "
          "participant 1 untouched, the re-announcement of participant 2 is NEW and brings nothing back",
          "CONCRETE scenario", tier="thorough", timeout=2400),
        H("c11_db_attic_roundtrip_one", _db,
          "remove_participant(p1, false) (what participant_cleanup does on time-out): p1's reader and writer leave the query results and are exactly the "
          "attic's content; update_participant(p1) reports NEW, the queries return exactly them again, attic empty",
          "CONCRETE scenario (no symbolic input: a solver run over the real code, catches swapped from/to, wrong range bound, forgotten map); measured 83 s at CAP 2, 181 s at CAP 4 on a loaded box", tier="thorough", timeout=2400),
        H("c11_db_attic_roundtrip_two", _db, "same with a second participant whose endpoints must not move", "concrete scenario; measured 128 s at CAP 2, 253 s at CAP 4 on a loaded box", tier="thorough", timeout=2400),
    ],
    "bounds": {"unwind": "6 (Reader / Writer object), 5 (DiscoveryDB)", "CAP": 4, "remote world": "2 participants x 2 endpoints, QoS class fixed per endpoint and concrete per harness",
               "events": "k = 1 or 2 symbolic events (quick), 2 (thorough) after a concrete prefix of 0-5 events; 4-event menus for k = 2 in the quick tier",
               "vec_growth": "Vec::push grows to a concrete capacity of 16"},
    "outside": [
        "DPEventLoop::remote_* fan-out over several local endpoints, topic-name matching and the security compatibility branch (need mio::Poll + sockets): the harnesses call the "
        "Reader/Writer entry points that fan-out calls, with the QoS it passes",
        "histories longer than the stated k after the stated prefixes (k = 3 harnesses c11_*_k3_* and c11_reader_k2_full_menu_from_all exist in the harness files but exceed 8 GB and are not in the table); every arm of a symbolic event choice costs 5-25 s of symbolic execution on the real Reader/Writer object and the "
        "join of the arms makes the map state symbolic (full menu k=2: ~400 s / 7.5 GB; participant-loss menu k=2 from 4 matched endpoints: > 600 s on a loaded box) — multi-step "
        "coverage in the quick tier comes from concrete prefixes followed by one symbolic event of the full menu",
        "QoS class chosen symbolically (concrete per harness: a symbolic QosPolicies value doubles every announce arm); other incompatibility reasons than Reliability (C10 decides compliance_failure_wrt)",
        "endpoints that change QoS between announcements (excluded by the statement)",
        "a full status channel (allowed to drop events): under Kani the events are recorded by a stub of send_status_change / send_status, natively the channel holds 32",
        "writer side: local writer is BestEffort + TransientLocal (the Volatile branch of matched_reader_update only adds pending-GAP bookkeeping for samples written before the match)",
        "DiscoveryDB half: CONCRETE scenarios only (two symbolic choices on top of the dispose scenario: not finished in 1500 s; see also C12); participant_cleanup's WHEN is C12; "
        "update_publication / update_subscription themselves (harness c11_db_announce_is_exact exists, exceeds the 8 GB memory cap because of the String-keyed nested topic table): "
        "endpoints are inserted into external_topic_readers/writers directly",
    ],
    "assumptions": ENV_STUBS + [
        "stub: Reader::send_status_change / Writer::send_status -> recorder that flattens the DataReaderStatus / DataWriterStatus built by the real code into a Copy record and leaks it "
        "(the real bodies are 5-line wrappers around mio-extras try_send); native replay reads the real StatusChannelReceiver",
        "stub: send_participant_status -> leak (participant-level mirror of the same events, not part of C11)",
        "stub: Reader::encode_and_send / Writer::send_message_to_readers / notify_cache_change / StatusChannelSender::try_send / command channel try_recv as in C03 / C04 (not reached by the C11 events)",
        "stub: Vec::push / vec![x;n] -> same semantics with concrete allocation sizes (env/mod.rs)",
        "proxies are announced with empty locator lists (irrelevant for matching)",
        "DiscoveryDB: Instant::now / chrono::Utc::now stubbed as in C12; endpoints 'already learned' are inserted into external_topic_readers/writers directly",
    ],
    "trusted": ["/verif/shim/collections.rs (BTreeMap stand-in incl. range())", "/verif/env, /verif/harness/env_*.rs (environment stand-ins)",
                "/verif/harness/reader.rs, writer.rs (rigs), lease.rs (DiscoveryDB fixtures)"],
    "explanation": ("C11: Reader::{update_writer_proxy, matched_writer_update, remove_writer_proxy, participant_lost, contains_writer}, "
                    "Writer::{update_reader_proxy, matched_reader_update, matched_reader_remove, reader_lost, participant_lost}, GuidPrefix::range, CountWithChange on the real "
                    "Reader / Writer objects; DiscoveryDB::{update_participant, remove_participant, remove_topic_reader/writer, move_by_guid_prefix, "
                    "readers/writers_on_topic_and_participant}. " + _WORLD + "."),
    "technique": "Kani/CBMC bounded symbolic model checking of the real Reader / Writer / DiscoveryDB objects with environment stubs; symbolic choice among concrete discovery events",
    "level_text": "SAT-solver verdict over all event choices inside the stated menus, prefixes and lengths.",
    "level_note": "Trusted: Kani/CBMC/CaDiCaL, container shim, environment stubs and rigs listed in evidence.",
}
