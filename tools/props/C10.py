"""C10 — see DESIGN.md section 3."""
from common import *  # H, RTPS_SHIM_FILES, ENV_INJECT, ENV_STUBS

# ------------------------------------------------------------------------------- C10
_q = "dds::qos::verif_harness_qos"
PROP = {
    "title": "QoS matching = DDS request/offered rule",
    "design_ref": "DESIGN.md section 3, C10",
    "inject": {"src/dds/qos.rs": ["qos"]},
    "harnesses": [
        H("c10_full_pair", _q,
          "compliance_failure_wrt(offered, requested) on two complete symbolic QoS sets: None <=> all 8 "
          "DDS 1.4 request/offered rules hold; Some(p) => rule p violated",
          "no bound on values: every policy absent or any value, durations any 64-bit tick count"),
        H("c10_only_durability", _q, "durability alone: verdict == rule", "full width"),
        H("c10_only_presentation", _q, "presentation alone: verdict == rule", "full width"),
        H("c10_only_deadline", _q, "deadline alone: verdict == rule", "full width"),
        H("c10_only_latency_budget", _q, "latency budget alone: verdict == rule", "full width"),
        H("c10_only_ownership", _q, "ownership alone: verdict == (kinds equal)", "full width, any strength"),
        H("c10_only_liveliness", _q, "liveliness alone: verdict == (kind >= && lease <=)", "full width"),
        H("c10_only_reliability", _q, "reliability alone: verdict == rule", "full width"),
        H("c10_only_destination_order", _q, "destination order alone: verdict == rule", "full width"),
        H("c10_unmatched_policies_irrelevant", _q,
          "history / time-based filter / resource limits / lifespan never change the verdict", "full width"),
    ],
    "bounds": {"values": "none (full bit-width of every field)", "unwind": 3},
    "outside": ["policies RustDDS does not match on (partition, time-based filter, ...)",
                "the security `property` policy (None in the harness)"],
    "assumptions": ["the reference rule table in /verif/harness/qos.rs transcribes DDS 1.4 section 2.2.3"],
    "explanation": "C10: QosPolicies::compliance_failure_wrt against an independent reference of the 8 rules.",
    "technique": "Kani/CBMC bounded symbolic model checking of QosPolicies::compliance_failure_wrt (SAT verdict over all QoS pairs, full bit-width)",
    "level_text": ("SAT-solver verdict over every pair of QoS policy sets at full bit-width (no value bound); "
                   "the matching function is loop-free so there is no unwinding bound either. The call "
                   "sites in reader.rs / writer.rs are covered by C11's object harnesses."),
    "level_note": ("Trusted: Kani/CBMC/CaDiCaL, the reference table of DDS 1.4 2.2.3 written in the harness. "
                   "Counterexamples are replayed natively through the public function before being reported."),
}

