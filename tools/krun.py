#!/usr/bin/env python3
"""krun.py <scratch-dir> <harness-fq>... : run harnesses on an already staged copy (from
`./check Cxx --keep`) under the memory watchdog, print phase statistics."""
import os, re, sys
sys.path.insert(0, os.path.dirname(os.path.abspath(__file__)))
import vlib
scratch = sys.argv[1]
hs = sys.argv[2:]
feat = os.environ.get("VERIF_FEATURES", "").split(",") if os.environ.get("VERIF_FEATURES") else None
rc, out, mw, cmd, dt = vlib.run_kani(scratch, hs, features=feat, jobs=int(os.environ.get("VERIF_JOBS", "4")),
                                     harness_timeout=int(os.environ.get("VERIF_TIMEOUT", "900")),
                                     mem_mb=int(os.environ.get("VERIF_MEM_MB", "10000")),
                                     logpath="/tmp/krun-%d.log" % os.getpid(),
                                     playback=bool(os.environ.get("VERIF_PLAYBACK")))
for line in out.splitlines():
    if re.search(r"^error|Checking harness|^Thread \d+: *$|^Runtime (Symex|Solver|Convert)|size of program|Generated \d+ VCC|variables,|Verification Time|VERIFICATION|Failed Checks|^ File:|\*\* \d+ of|out of memory|timed out|Stub:.*fmt", line):
        print(line[:220])
print("rc", rc, "wall %.0fs" % dt, "peak MB", mw.peak, "killed", mw.killed, "log /tmp/krun-%d.log" % os.getpid())
